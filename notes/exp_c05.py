import sys
sys.path.insert(0,'/tmp/scratch/repo')
from lib_trainer.detection_rules.multiword_detector import MultiWordDetector
from lib_trainer.pcfg_password_parser import PCFGPasswordParser
import lib_trainer.pcfg_password_parser as P
import lib_trainer.base_structure as B
orig=B.base_structure_creation
seen=[]
def spy(sl):
    seen.append(list(sl)); return orig(sl)
P.base_structure_creation=spy
m=MultiWordDetector(5,4,21)
p=PCFGPasswordParser(m)
for pw in ['İa@b.com1','aİb','xİ.comz','www.İİ.com/a','İİ1qaz2wsx', 'İstanbul.com', 'ab.comİİ9']:
    try:
        p.parse(pw)
        sl=seen[-1]
        print(repr(pw), sl, 'JOIN_OK' if ''.join(s for s,_ in sl).lower()==pw.lower() else 'LOSSY', 'EMPTY' if any(s=='' for s,_ in sl) else '')
    except Exception as e:
        print(repr(pw),'EXC',type(e).__name__,e)
