import sys
sys.path.insert(0,'/tmp/scratch/repo')
from lib_guesser.omen.input_file_io import load_rules
from lib_guesser.omen.optimizer import Optimizer
from lib_guesser.omen.markov_cracker import MarkovCracker
rule=sys.argv[1]
g={}
assert load_rules('/tmp/scratch/repo/Rules/%s/Omen'%rule,g)
ks={}
for l in open('/tmp/scratch/repo/Rules/%s/Omen/omen_keyspace.txt'%rule):
    a,b=l.split('\t'); ks[int(a)]=int(b)
opt=Optimizer(4)
for level in sorted(ks):
    if ks[level]>200000: continue
    mc=MarkovCracker(g,level,opt)
    out=[]
    while True:
        x=mc.next_guess()
        if x is None: break
        out.append(x)
    print(level,"keyspace",ks[level],"generated",len(out),"distinct",len(set(out)), "" if ks[level]==len(set(out)) else "MISMATCH")
print("--- breakdown by length for mismatching levels")
from collections import Counter
for level in sorted(ks):
    if ks[level]>200000: continue
    mc=MarkovCracker(g,level,Optimizer(4))
    out=[]
    while True:
        x=mc.next_guess()
        if x is None: break
        out.append(x)
    if len(out)!=ks[level]:
        print(level, ks[level], len(out), sorted(Counter(len(x) for x in out).items()))
print("LN", open('/tmp/scratch/repo/Rules/%s/Omen/LN.level'%rule).read().split())
