import sys, io, contextlib, configparser, os
sys.path.insert(0,'/tmp/scratch/repo')
import importlib
import lib_guesser.cracking_session as CS
from lib_guesser.pcfg_grammar import PcfgGrammar
sys.argv=['x']
import pcfg_guesser as PG
base='/tmp/scratch/repo/Rules/T1'
class FakeThread:
    def __init__(self,target=None,args=()): self.args=args
    daemon=True
    def start(self): pass
    def is_alive(self): return not self.args[1].should_exit
CS.threading.Thread=FakeThread
def session(load, quit_at, savefile='/tmp/scratch/s.sav'):
    """run a session; set should_exit when the quit_at-th guess of this session is printed. returns list of guesses"""
    with contextlib.redirect_stdout(io.StringIO()):
        g=PcfgGrammar('T1',base,'4.7',savefile)
    out=[]
    def pg(guess):
        out.append(guess)
        if quit_at is not None and len(out)==quit_at: g.should_exit=True
    g.print_guess=pg
    info={'rule_name':'T1','skip_brute':False,'skip_case':False}
    if load:
        cfg=PG.load_save(savefile,info)
    else:
        cfg=PG.create_save_config(info); cfg.set('rule_info','uuid',g.ruleset_info['uuid'])
    s=CS.CrackingSession(g,cfg,savefile)
    with contextlib.redirect_stderr(io.StringIO()):
        s.run(load_session=load)
    return out
U=session(False,None)
print("uninterrupted total",len(U))
# find first index where an OMEN guess occurs: M levels produce many; choose quit inside first OMEN level
# Identify by running with quit at various positions and checking .sav for omen_guess_number
for q1 in [30,60,100,150,200,400]:
    A=session(False,q1)
    cfg=configparser.ConfigParser(); cfg.read('/tmp/scratch/s.sav')
    om=cfg.has_option('guessing_info','omen_guess_number')
    if not om: continue
    B=session(True,50)   # resume, quit after 50 more guesses
    cfg2=configparser.ConfigParser(); cfg2.read('/tmp/scratch/s.sav')
    C=session(True,None)
    print("q1",q1,"omen quit; lenA",len(A),"lenB",len(B),"lenC",len(C),"sav2 has omen key:",cfg2.has_option('guessing_info','omen_guess_number'))
    # expected: A + B' + C' == U with allowed tied repeats; check B continues exactly
    print("  B starts at U[len(A)]:", B[:3]==U[len(A):len(A)+3], " C starts with same as B start (replay)?", C[:3]==B[:3], C[:3], B[:3])
    break
print("---- detailed")
import itertools
def omen_key():
    c=configparser.ConfigParser(); c.read('/tmp/scratch/s.sav'); return c.has_option('guessing_info','omen_guess_number')
for q1,q2 in [(30,50),(30,500),(30,2000)]:
    A=session(False,q1); k1=omen_key()
    B=session(True,q2); k2=omen_key()
    C=session(True,None)
    ABC=A+B+C
    print("q1",q1,"q2",q2,"omenkey after A",k1,"after B",k2,"len A+B+C",len(ABC),"U",len(U), "prefix-equal:", ABC[:len(A)+len(B)]==U[:len(A)+len(B)])
    # where does C start in U?
    start=[i for i in range(len(U)-2) if U[i:i+3]==C[:3]]
    print("   C[:3]",C[:3],"occurs in U at",start[:5],"expected start index",len(A)+len(B))
