import sys, os, configparser, io, contextlib
sys.path.insert(0,'/tmp/scratch/repo')
from lib_guesser.pcfg_grammar import PcfgGrammar
from lib_guesser.priority_queue import PcfgQueue
base='/tmp/scratch/repo/Rules/T1'
with contextlib.redirect_stdout(io.StringIO()):
    g=PcfgGrammar('T1',base,'4.7',skip_brute=True)
def run_all(q,limit=None):
    out=[]
    while True:
        it=q.next()
        if it is None: break
        out.append((tuple(it['pt']),it['prob']))
        if limit and len(out)>=limit: break
    return out
U=run_all(PcfgQueue(g))
print("total pts",len(U), "distinct", len(set(p for p,_ in U)))
bad=0
for k in [1,2,3,5,8,13,21,50,100,200,len(U)//2]:
    q=PcfgQueue(g)
    A=run_all(q,limit=k)   # A[-1] popped but "not guessed"
    cfg=configparser.ConfigParser(); cfg.add_section('guessing_info')
    q.update_save_config(cfg)
    q2=PcfgQueue(g,cfg)
    B=run_all(q2)
    maxp=A[-1][1]
    expected=set(p for p,_ in U[k-1:])
    from collections import Counter
    cB=Counter(p for p,_ in B)
    missing=expected-set(cB)
    dups={p:c for p,c in cB.items() if c>1}
    probs=dict(U)
    nontied_dups={p:c for p,c in dups.items() if probs[p]!=maxp}
    extra=[p for p in cB if probs[p]>maxp]
    print(k,"missing",len(missing),"dups",len(dups),"nontied_dups",len(nontied_dups),"extra_above",len(extra), "lenB",len(B),"expected",len(expected))
