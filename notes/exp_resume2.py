import sys, os, configparser, io, contextlib
sys.path.insert(0,'/tmp/scratch/repo')
from lib_guesser.pcfg_grammar import PcfgGrammar
from lib_guesser.priority_queue import PcfgQueue
from collections import Counter
base='/tmp/scratch/repo/Rules/T1'
with contextlib.redirect_stdout(io.StringIO()):
    g=PcfgGrammar('T1',base,'4.7',skip_brute=True)
def run_all(q,limit=None):
    out=[]
    while True:
        it=q.next()
        if it is None: break
        out.append((tuple(it['pt']),it['prob']))
        if limit and len(out)>=limit: break
    return out
U=run_all(PcfgQueue(g))
probs=dict(U)
tot=[0,0,0,0]
for k in range(1,len(U)+1):
    q=PcfgQueue(g)
    A=run_all(q,limit=k)
    cfg=configparser.ConfigParser(); cfg.add_section('guessing_info')
    q.update_save_config(cfg)
    B=run_all(PcfgQueue(g,cfg))
    maxp=A[-1][1]
    expected=set(p for p,_ in U[k-1:])
    cB=Counter(p for p,_ in B)
    missing=expected-set(cB)
    nontied={p for p,c in cB.items() if c>1 and probs[p]!=maxp}
    extra=[p for p in cB if probs[p]>maxp]
    order_ok=all(B[i][1]>=B[i+1][1] for i in range(len(B)-1))
    tot[0]+=bool(missing); tot[1]+=bool(nontied); tot[2]+=bool(extra); tot[3]+= (not order_ok)
print("cuts",len(U),"with missing",tot[0],"with nontied dups",tot[1],"with extra",tot[2],"order bad",tot[3])
