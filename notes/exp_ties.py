import sys, random, itertools, configparser
sys.path.insert(0,'/tmp/scratch/repo')
from lib_guesser.pcfg_grammar import PcfgGrammar
from lib_guesser.priority_queue import PcfgQueue
from collections import Counter
def mk(grammar, base):
    g=PcfgGrammar.__new__(PcfgGrammar)
    g.grammar=grammar; g.base=base
    return g
def run_all(q,limit=None):
    out=[]
    while True:
        it=q.next()
        if it is None: break
        out.append((tuple(it['pt']),it['prob'],it['base_prob']))
        if limit and len(out)>=limit: break
    return out
random.seed(int(sys.argv[1]) if len(sys.argv)>1 else 0)
stats=Counter()
for trial in range(300):
    nvars=random.randint(1,4)
    grammar={}
    for v in range(nvars):
        k=random.randint(1,4)
        # strictly decreasing dyadic probs (ties across variables/products likely)
        ps=sorted(random.sample([1/2,1/4,1/8,1/16,1/32,3/8,3/16,1/3],k),reverse=True)
        grammar['V%d'%v]=[{'values':['x'],'prob':p} for p in ps]
    base=[]
    for b in range(random.randint(1,3)):
        L=random.randint(1,3)
        base.append({'prob':random.choice([1/2,1/4,1/8,1/3]),'replacements':[random.choice(list(grammar)) for _ in range(L)]})
    g=mk(grammar,base)
    U=run_all(PcfgQueue(g))
    # oracle
    lang=[]
    for bi,b in enumerate(base):
        for idx in itertools.product(*[range(len(grammar[r])) for r in b['replacements']]):
            lang.append((tuple(zip(b['replacements'],idx)),b['prob']))
    cu=Counter((p,bp) for p,_,bp in U)
    cl=Counter(lang)
    if cu!=cl: stats['C02_fail']+=1
    if any(U[i][1]<U[i+1][1] for i in range(len(U)-1)): stats['C01_fail']+=1
    # resume at all cuts
    for k in range(1,len(U)+1):
        q=PcfgQueue(g); A=run_all(q,limit=k)
        cfg=configparser.ConfigParser(); cfg.add_section('guessing_info'); q.update_save_config(cfg)
        B=run_all(PcfgQueue(g,cfg))
        maxp=A[-1][1]
        exp=Counter((p,bp) for p,_,bp in U[k-1:])
        cb=Counter((p,bp) for p,_,bp in B)
        stats['cuts']+=1
        if set(exp)-set(cb): stats['resume_missing']+=1
        probs={(p,bp):pr for p,pr,bp in U}
        if any(c>cl[x] and probs[x]!=maxp for x,c in cb.items()): stats['resume_nontied_dup']+=1
        if any(probs[x]>maxp for x in cb): stats['resume_extra']+=1
        if any(B[i][1]<B[i+1][1] for i in range(len(B)-1)): stats['resume_order']+=1
print(dict(stats))
