"""Shape canonicalisation: rewrite a function, by semantics-preserving steps only, towards the form the rules were confirmed on.

Every step is an equivalence of Python programs on the value domains this code base uses (the reference only chooses WHICH of
two equivalent forms the rules get to see, so soundness never depends on the reference file):

  S1  not not X           ->  X                       in test position (if / while / operand of not / and / or)
  S2  not (a == b)        ->  a != b                  likewise !=, in / not in, is / is not   (never <, <=: NaN)
  S3  b > a               ->  a < b                   mirror / swap of a single comparison, when only the mirrored text is a
      b == a              ->  a == b                  comparison of the reference function
  S4  if not c: B else: A ->  if c: A else: B         when only the flipped test is a test of the reference function
  S5  x = x op e          ->  x op= e                 op in + - *, when `x op= e` is an augmented assignment of the reference
                                                      function (all of which are on numbers / strings: checked when the
                                                      reference file is generated)
  S6  pass                ->  (removed)               from a block that has other statements
  S7  x[0:n]              ->  x[:n]  (or back)        when only the other spelling is a slice of the reference function
  S8  range(0, n)         ->  range(n)  (or back)     likewise
  S9  t = e ; S(t)        ->  S(e)                    a local that the reference function does not have, assigned once and
                                                      read once, in the statement that follows its assignment, in a position
                                                      evaluated exactly once and first (value of a simple statement, test of an
                                                      if, iterable of a for): the temporary is inlined again.  Runs before
                                                      the local-name normalisation.

  S10 inert statements    ->  (removed)               statements the reference function does not have and that cannot influence
                                                      anything the rules look at: print(<pure values>, file=sys.stderr), and
                                                      `fresh_name = <pure value>` where fresh_name is never read
  S11 if c: ..return      ->  if c: ..return          an else branch after a body that always leaves (return / continue / break /
      else: REST              REST                    raise) is hoisted, or the rest of the block is nested into an else,
                                                      whichever the reference `if` with the same test does
  S14 for i, (a, b) in X  ->  for i, e in X           a loop target that unpacks the element where the reference loop over the
                                                      same iterable binds it to one name e: a, b (never stored elsewhere) are
                                                      replaced by e[0], e[1].  Runs before the name normalisation.
  S15 t = [E for a in X]  ->  t = []; for a in X: t.append(E)     a list comprehension (one generator, optional conditions) assigned
                                                      to a name, that the reference function does not have
  S16 t.append(A if c else B) -> if c: t.append(A) else: t.append(B)   a statement the reference function does not have
  S22 if T: TAIL; continue   REST; TAIL  ->  if not T: REST   TAIL      a guard-and-continue whose statements before the continue repeat
                                                      the tail of the loop body (reference function has no continue)
  S23 break               ->  return E                in a loop (without else) that is directly followed by `return E`, E pure
                                                      (reference function has no break)
  S24 t = X[:p] + [E] + X[p+1:]  ->  t = copy.copy(X); t[p] = E        functional update of one position of a list, in a function
                                                      whose reference form copies and stores
  S25 if A or B: JUMP     ->  if A: JUMP   if B: JUMP   a disjunctive guard whose body is a single jump, split when the reference
                                                      function tests one of the disjuncts on its own
  S26 if A and B: BODY    ->  if A: if B: BODY        (no else) when the reference function tests A on its own
  S27 f"{a}\t{b}\n"       ->  str(a) + '\t' + str(b) + '\n'      an f-string without format specs that the reference function does not have
  S28 for i, x in enumerate(X, k)  ->  i = k; for x in X: ...; i += 1   where the reference loop over X binds only x (manual counter form)
  S29 (a1, a2) < (b1, b2) ->  a1 < b1 or (a1 == b1 and a2 < b2)      lexicographic comparison of tuple displays (also <=, >, >=), not in the reference
  S30 if T: return   REST (to the end of the function)  ->  if not T: REST      a guard clause at function level with a bare return, when the reference
                                                      function tests `not T` (and falls off its end)
  S34 return all(P for x in X)  ->  for x in X: if not P: return False   return True      (likewise any): a short-circuit quantifier returned
                                                      directly, not a statement of the reference function
  S12 a = ..; b = ..      ->  b = ..; a = ..          adjacent call-free assignments without data dependence are put in the
                                                      order the reference function has them in

The reference (sa/refshapes.json, regenerated by sa/mkrefnames.py) lists, per function, the texts of its single-operator
comparisons, of its if/while tests and of its augmented assignments.  A function absent from the reference is left alone.
"""
import ast
import json
import os

_REF = None
MIRROR = {ast.Lt: ast.Gt, ast.Gt: ast.Lt, ast.LtE: ast.GtE, ast.GtE: ast.LtE, ast.Eq: ast.Eq, ast.NotEq: ast.NotEq}
INVERT = {ast.Eq: ast.NotEq, ast.NotEq: ast.Eq, ast.In: ast.NotIn, ast.NotIn: ast.In, ast.Is: ast.IsNot, ast.IsNot: ast.Is}
_SCOPES = (ast.FunctionDef, ast.AsyncFunctionDef, ast.Lambda, ast.ClassDef)


def U(n):
    return ast.unparse(n)


def refshapes():
    global _REF
    if _REF is None:
        p = os.path.join(os.path.dirname(os.path.abspath(__file__)), 'refshapes.json')
        try:
            with open(p) as f:
                _REF = json.load(f)
        except OSError:
            _REF = {}
    return _REF


def shapes_of(fn):
    """Reference facts of one function (used by mkrefnames.py)."""
    cmp_, tests, augs = set(), set(), set()
    subs, calls = set(), set()
    for n in ast.walk(fn):
        if isinstance(n, ast.Subscript) and isinstance(n.slice, ast.Slice):
            subs.add(U(n))
        if isinstance(n, ast.Call) and isinstance(n.func, ast.Name) and n.func.id == 'range':
            calls.add(U(n))
        if isinstance(n, ast.Compare) and len(n.ops) == 1:
            cmp_.add(U(n))
        if isinstance(n, (ast.If, ast.While, ast.IfExp)):
            tests.add(U(n.test))
        if isinstance(n, ast.AugAssign):
            augs.add(U(n))
    els = {}
    stmts = []
    for n in ast.walk(fn):
        if isinstance(n, ast.If):
            t = U(n.test)
            has = len(n.orelse)
            els[t] = has if els.get(t, has) == has else None
    for n in _stmts_in_order(fn):
        if isinstance(n, (ast.Assign, ast.AugAssign, ast.Expr, ast.Return, ast.Raise, ast.Delete, ast.Assert)):
            stmts.append(U(n))
    nest = []
    for n in ast.walk(fn):
        if isinstance(n, ast.If):
            for sub in n.body + n.orelse:
                if isinstance(sub, ast.If):
                    nest.append([U(n.test), U(sub.test)])
    fors = []
    comps = set()
    for n in ast.walk(fn):
        if isinstance(n, ast.For):
            fors.append([U(n.iter), U(n.target)])
        if isinstance(n, (ast.ListComp, ast.SetComp, ast.DictComp, ast.GeneratorExp)):
            comps.add(U(n))
        if isinstance(n, ast.JoinedStr):
            comps.add(U(n))
    return {'cmp': sorted(cmp_), 'tests': sorted(tests), 'aug': sorted(augs), 'subs': sorted(subs), 'calls': sorted(calls),
            'else': els, 'stmts': stmts, 'for': fors, 'comps': sorted(comps), 'nest': nest,
            'params': [a.arg for a in fn.args.args] if isinstance(fn, (ast.FunctionDef, ast.AsyncFunctionDef)) else [],
            'ndefaults': len(fn.args.defaults) if isinstance(fn, (ast.FunctionDef, ast.AsyncFunctionDef)) else 0,
            'breaks': sum(1 for n in ast.walk(fn) if isinstance(n, ast.Break)),
            'continues': sum(1 for n in ast.walk(fn) if isinstance(n, ast.Continue))}


def _stmts_in_order(fn):
    out = []

    def rec(body):
        for st in body:
            out.append(st)
            if isinstance(st, _SCOPES):
                continue
            for field in ('body', 'orelse', 'finalbody'):
                sub = getattr(st, field, None)
                if isinstance(sub, list) and sub and isinstance(sub[0], ast.stmt):
                    rec(sub)
            for h in getattr(st, 'handlers', []) or []:
                rec(h.body)
    rec(fn.body)
    return out


_PURE_CALLS = {'str', 'len', 'repr', 'int', 'float', 'type'}


_PURE_METHODS = {'get', 'split', 'rsplit', 'strip', 'rstrip', 'lstrip', 'lower', 'upper', 'casefold', 'partition', 'rpartition',
                 'startswith', 'endswith', 'format', 'join', 'replace', 'isdigit', 'isalpha', 'isupper', 'islower', 'isalnum',
                 'keys', 'values', 'items', 'find', 'rfind', 'index', 'count', 'has_option', 'has_section', 'getboolean', 'getint',
                 'getfloat'}


def _pure(e):
    for n in ast.walk(e):
        if isinstance(n, ast.Call):
            if isinstance(n.func, ast.Attribute) and n.func.attr in _PURE_METHODS:
                continue
            if not (isinstance(n.func, ast.Name) and n.func.id in _PURE_CALLS):
                return False
        elif isinstance(n, (ast.Lambda, ast.Await, ast.Yield, ast.YieldFrom, ast.NamedExpr, ast.ListComp, ast.SetComp, ast.DictComp,
                            ast.GeneratorExp)):
            return False
    return True


def _pure_claim(e):
    """Purity for an expression that is evaluated once and whose value is only tested (an assertion): comprehensions and
    generators over pure parts are fine here (they are not, for _pure, where the expression may be duplicated)."""
    for n in ast.walk(e):
        if isinstance(n, ast.Call):
            if isinstance(n.func, ast.Attribute) and n.func.attr in _PURE_METHODS:
                continue
            if not (isinstance(n.func, ast.Name) and n.func.id in _PURE_CALLS):
                return False
        elif isinstance(n, (ast.Lambda, ast.Await, ast.Yield, ast.YieldFrom, ast.NamedExpr)):
            return False
    return True


_STDERR_ALIASES = set()     # locals of the helper under inspection that are bound to sys.stderr (inert_helpers)


def _is_stderr(e):
    return U(e) == 'sys.stderr' or (isinstance(e, ast.Name) and e.id in _STDERR_ALIASES)


def _stmt_inert(st_, ref_names=(), inert_calls=()):
    """A statement that cannot influence what the program computes or writes to stdout / files: messages on stderr built from
    pure values, assertions of pure claims, and tests / loops that guard nothing else; also a call of a new helper function that
    itself consists of such statements only (`inert_calls`: their names)."""
    if isinstance(st_, ast.Pass):
        return True
    if isinstance(st_, ast.Expr) and isinstance(st_.value, ast.Constant):
        return True
    if isinstance(st_, ast.Expr) and isinstance(st_.value, ast.Call):
        c = st_.value
        if isinstance(c.func, ast.Name) and c.func.id == 'print' and any(k.arg == 'file' and _is_stderr(k.value) for k in c.keywords) \
                and all(_obs_pure(a.value if isinstance(a, ast.Starred) else a) for a in c.args) and all(_obs_pure(k.value) for k in c.keywords):
            return True
        if isinstance(c.func, ast.Attribute) and c.func.attr in _LOG_METHODS and _is_ghost_logger(c.func.value) \
                and all(_obs_pure(a.value if isinstance(a, ast.Starred) else a) for a in c.args) and all(_obs_pure(k.value) for k in c.keywords):
            return True         # a logger the reference tree does not have, set up without sys.stdout: diagnostics on stderr
        nm = c.func.id if isinstance(c.func, ast.Name) else (c.func.attr if isinstance(c.func, ast.Attribute) and _pure(c.func.value) else None)
        if nm in inert_calls and all(_obs_pure(a.value if isinstance(a, ast.Starred) else a) for a in c.args) and all(_obs_pure(k.value) for k in c.keywords):
            return True
        return False
    if isinstance(st_, ast.Assert) and _pure_claim(st_.test) and (st_.msg is None or _pure_claim(st_.msg)):
        return True         # assertions are the author's claims: assumed to hold (and absent under -O)
    if isinstance(st_, ast.If) and not st_.orelse and len(st_.body) == 1 and isinstance(st_.body[0], ast.Raise) \
            and st_.body[0].exc is not None and _pure_claim(st_.test) \
            and U(st_.body[0].exc.func if isinstance(st_.body[0].exc, ast.Call) else st_.body[0].exc) == 'AssertionError':
        return True         # the same claim spelled `if not ok: raise AssertionError(..)`
    if isinstance(st_, ast.For) and not st_.orelse and _pure(st_.iter) and all(_stmt_inert(b, ref_names, inert_calls) for b in st_.body) \
            and not any(isinstance(x, ast.Name) and x.id in ref_names for x in ast.walk(st_.target)):
        return True
    if isinstance(st_, ast.If) and _pure(st_.test) and all(_stmt_inert(b, ref_names, inert_calls) for b in st_.body) \
            and all(_stmt_inert(b, ref_names, inert_calls) for b in st_.orelse):
        return True
    return False


def inert_helpers(rel, module):
    """Names of functions the reference tree does not have whose whole body is inert (a stderr reporting helper)."""
    ref = refshapes()
    from .core import refidents as _ri
    known = _ri() or set()
    out = set()
    for lname, fn in module.funcs.items():
        if (rel + '::' + lname) in ref or '<locals>' in lname or not isinstance(fn, ast.FunctionDef) or fn.decorator_list:
            continue
        if lname.rpartition('.')[2] in known:
            continue            # the name also means something else in the reference tree: a call by that name is not identified
        body = list(fn.body)
        # `stream = sys.stderr` (bound once) names the diagnostic stream; `if <pure>: return` leaves early without a value
        _STDERR_ALIASES.clear()
        nstore = {}
        for x in ast.walk(fn):
            if isinstance(x, ast.Name) and isinstance(x.ctx, ast.Store):
                nstore[x.id] = nstore.get(x.id, 0) + 1
        for b_ in body:
            if isinstance(b_, ast.Assign) and len(b_.targets) == 1 and isinstance(b_.targets[0], ast.Name) and U(b_.value) == 'sys.stderr' \
                    and nstore.get(b_.targets[0].id) == 1:
                _STDERR_ALIASES.add(b_.targets[0].id)

        def ok_stmt(b_):
            if isinstance(b_, ast.Assign) and len(b_.targets) == 1 and isinstance(b_.targets[0], ast.Name) and b_.targets[0].id in _STDERR_ALIASES:
                return True
            if isinstance(b_, ast.If) and not b_.orelse and _pure(b_.test) and len(b_.body) == 1 and isinstance(b_.body[0], ast.Return) \
                    and b_.body[0].value is None:
                return True
            if isinstance(b_, ast.Return) and b_.value is None:
                return True
            return _stmt_inert(b_)
        try:
            if body and all(ok_stmt(b_) for b_ in body) and any(not (isinstance(b_, ast.Expr) and isinstance(b_.value, ast.Constant)) for b_ in body):
                out.add(lname.rpartition('.')[2])
        finally:
            _STDERR_ALIASES.clear()
    return out


def _terminates(body):
    return bool(body) and isinstance(body[-1], (ast.Return, ast.Continue, ast.Break, ast.Raise))


def _rw(st):
    w = {x.id for x in ast.walk(st) if isinstance(x, ast.Name) and isinstance(x.ctx, (ast.Store, ast.Del))}
    r = {x.id for x in ast.walk(st) if isinstance(x, ast.Name) and isinstance(x.ctx, ast.Load)}
    return r, w


def _independent_simple(a, b):
    for st in (a, b):
        if not isinstance(st, ast.Assign):
            return False
        if any(isinstance(x, (ast.Call, ast.Subscript, ast.Attribute)) for t in st.targets for x in ast.walk(t)):
            return False
        if any(isinstance(x, ast.Call) for x in ast.walk(st.value)):
            return False
    r1, w1 = _rw(a)
    r2, w2 = _rw(b)
    return not (w1 & (r2 | w2)) and not (w2 & r1)


def _strip_not(t):
    """Test-position simplification S1/S2 (returns a possibly new node)."""
    while isinstance(t, ast.UnaryOp) and isinstance(t.op, ast.Not) and isinstance(t.operand, ast.UnaryOp) \
            and isinstance(t.operand.op, ast.Not):
        t = t.operand.operand
    return t


def _negate(t):
    """A test equivalent to `not t`, simplified."""
    t = _strip_not(t)
    if isinstance(t, ast.UnaryOp) and isinstance(t.op, ast.Not):
        return t.operand
    if isinstance(t, ast.Compare) and len(t.ops) == 1 and type(t.ops[0]) in INVERT:
        return ast.copy_location(ast.Compare(left=t.left, ops=[INVERT[type(t.ops[0])]()], comparators=t.comparators), t)
    return ast.copy_location(ast.UnaryOp(op=ast.Not(), operand=t), t)


class _Canon(ast.NodeTransformer):
    def __init__(self, ref):
        self.cmp = set(ref.get('cmp', ()))
        self.tests = set(ref.get('tests', ()))
        self.aug = set(ref.get('aug', ()))
        self.subs = set(ref.get('subs', ()))
        self.calls = set(ref.get('calls', ()))
        self.comps = set(ref.get('comps', ()))
        self.nest = {tuple(x) for x in ref.get('nest', ())}
        self.ref_breaks = ref.get('breaks', 0)
        self.ref_continues = ref.get('continues', 0)
        self.els = ref.get('else', {})
        self.stmts = ref.get('stmts', [])
        self.stmt_set = set(self.stmts)
        self.ref_names = set()
        self.loaded = set()
        self.steps = []

    # nested scopes are canonicalised with the reference of their own qualified name (or not at all)
    def visit_FunctionDef(self, n):
        return n

    visit_AsyncFunctionDef = visit_Lambda = visit_ClassDef = visit_FunctionDef

    def visit_Compare(self, n):
        self.generic_visit(n)
        # S35 chained comparison -> conjunction of its links (interior operands pure, so evaluating them twice changes nothing)
        if len(n.ops) > 1 and U(n) not in self.cmp and all(_pure(e) for e in n.comparators[:-1]):
            import copy as _c6
            operands = [n.left] + list(n.comparators)
            links = [ast.Compare(left=_c6.deepcopy(operands[i]), ops=[type(n.ops[i])()], comparators=[_c6.deepcopy(operands[i + 1])])
                     for i in range(len(n.ops))]
            self.steps.append('S35 ' + U(n)[:60])
            return self.visit(_relocate(ast.BoolOp(op=ast.And(), values=links), n))
        if len(n.ops) == 1 and isinstance(n.ops[0], (ast.Lt, ast.LtE, ast.Gt, ast.GtE)) and isinstance(n.left, ast.Tuple) \
                and isinstance(n.comparators[0], ast.Tuple) and len(n.left.elts) == len(n.comparators[0].elts) >= 2 \
                and U(n) not in self.cmp and all(_pure(e) for e in n.left.elts + n.comparators[0].elts):
            import copy as _c5
            strict = ast.Lt if isinstance(n.ops[0], (ast.Lt, ast.LtE)) else ast.Gt

            def lex(ls, rs):
                if len(ls) == 1:
                    return ast.Compare(left=ls[0], ops=[type(n.ops[0])()], comparators=[rs[0]])
                head = ast.Compare(left=ls[0], ops=[strict()], comparators=[rs[0]])
                eq = ast.Compare(left=_c5.deepcopy(ls[0]), ops=[ast.Eq()], comparators=[_c5.deepcopy(rs[0])])
                return ast.BoolOp(op=ast.Or(), values=[head, ast.BoolOp(op=ast.And(), values=[eq, lex(ls[1:], rs[1:])])])
            out = lex(list(n.left.elts), list(n.comparators[0].elts))
            self.steps.append('S29 ' + U(n)[:60])
            return self.visit(_relocate(out, n))
        # S53: `x in <constant collection>` spelled with another collection type (tuple / set / frozenset / list of the same constants)
        # -> the spelling of the reference comparison with the same left operand (membership in a collection of constants does not
        # depend on the collection type: str / int elements, equality-based lookup in all of them)
        if len(n.ops) == 1 and isinstance(n.ops[0], (ast.In, ast.NotIn)) and U(n) not in self.cmp:
            def _elems(e):
                if isinstance(e, ast.Call) and isinstance(e.func, ast.Name) and e.func.id in ('frozenset', 'set', 'tuple', 'list') and len(e.args) == 1:
                    e = e.args[0]
                if isinstance(e, (ast.List, ast.Tuple, ast.Set)) and all(isinstance(x, ast.Constant) and isinstance(x.value, (str, int)) for x in e.elts):
                    return frozenset((type(x.value).__name__, x.value) for x in e.elts)
                return None
            mine = _elems(n.comparators[0])
            if mine is not None:
                for t_ in self.cmp:
                    try:
                        r_ = ast.parse(t_, mode='eval').body
                    except SyntaxError:
                        continue
                    if isinstance(r_, ast.Compare) and len(r_.ops) == 1 and type(r_.ops[0]) is type(n.ops[0]) and U(r_.left) == U(n.left) \
                            and _elems(r_.comparators[0]) == mine:
                        self.steps.append('S53 %s -> %s' % (U(n)[:40], t_[:40]))
                        return _relocate(r_, n)
        if len(n.ops) == 1 and type(n.ops[0]) in MIRROR and U(n) not in self.cmp:
            m = ast.copy_location(ast.Compare(left=n.comparators[0], ops=[MIRROR[type(n.ops[0])]()], comparators=[n.left]), n)
            if U(m) in self.cmp:
                self.steps.append('S3 %s -> %s' % (U(n), U(m)))
                return m
        return n

    def visit_Subscript(self, n):
        self.generic_visit(n)
        # S54  X[:k][i] -> X[i]   for constants 0 <= i < k (same element, same IndexError when X is too short)
        if isinstance(n.slice, ast.Constant) and isinstance(n.slice.value, int) and not isinstance(n.slice.value, bool) and n.slice.value >= 0 \
                and isinstance(n.value, ast.Subscript) and isinstance(n.value.slice, ast.Slice) and n.value.slice.lower is None \
                and n.value.slice.step is None and isinstance(n.value.slice.upper, ast.Constant) and isinstance(n.value.slice.upper.value, int) \
                and n.slice.value < n.value.slice.upper.value:
            self.steps.append('S54 ' + U(n)[:50])
            return _relocate(ast.Subscript(value=n.value.value, slice=n.slice, ctx=n.ctx), n)
        # S46  E.partition(sep)[0] -> E.split(sep)[0]   (equal for every string and non-empty sep) when the reference spells it so
        if isinstance(n.slice, ast.Constant) and n.slice.value == 0 and isinstance(n.value, ast.Call) and isinstance(n.value.func, ast.Attribute) \
                and n.value.func.attr == 'partition' and len(n.value.args) == 1 and not n.value.keywords:
            alt = ast.Subscript(value=ast.Call(func=ast.Attribute(value=n.value.func.value, attr='split', ctx=ast.Load()),
                                               args=n.value.args, keywords=[]), slice=ast.Constant(value=0), ctx=n.ctx)
            if any(U(alt) in t_ for t_ in self.stmts):
                self.steps.append('S46 ' + U(n)[:50])
                return _relocate(alt, n)
        sl = n.slice
        if isinstance(sl, ast.Slice) and sl.step is None and U(n) not in self.subs:
            if sl.lower is None:
                alt_lower = ast.Constant(value=0)
            elif isinstance(sl.lower, ast.Constant) and sl.lower.value == 0 and not isinstance(sl.lower.value, bool):
                alt_lower = None
            else:
                return n
            alt = ast.copy_location(ast.Subscript(value=n.value, slice=ast.Slice(lower=alt_lower, upper=sl.upper, step=None), ctx=n.ctx), n)
            ast.fix_missing_locations(alt)
            if U(alt) in self.subs:
                self.steps.append('S7 %s -> %s' % (U(n), U(alt)))
                return alt
        return n

    def visit_Call(self, n):
        self.generic_visit(n)
        # S43b: re.compile(P).m(args) -> re.m(P, args)   (the module functions compile P and call the same method)
        if isinstance(n.func, ast.Attribute) and n.func.attr in ('findall', 'search', 'match', 'fullmatch', 'split', 'sub', 'subn', 'finditer') \
                and isinstance(n.func.value, ast.Call) and U(n.func.value.func) == 're.compile' and len(n.func.value.args) == 1 \
                and not n.func.value.keywords and not n.keywords and len(n.args) <= (2 if n.func.attr in ('sub', 'subn') else 1):
            # (pos / endpos arguments of the pattern methods have no module-level counterpart: only the plain call is rewritten)
            pat = n.func.value.args[0]
            new = ast.Call(func=ast.Attribute(value=ast.Name(id='re', ctx=ast.Load()), attr=n.func.attr, ctx=ast.Load()),
                           args=[pat] + list(n.args), keywords=[])
            self.steps.append('S43b ' + U(n)[:50])
            return _relocate(new, n)
        # S32: f(a, *(x, y)) -> f(a, x, y)   (a starred tuple/list display is just its elements)
        if any(isinstance(a, ast.Starred) and isinstance(a.value, (ast.Tuple, ast.List)) for a in n.args):
            new_args = []
            for a in n.args:
                if isinstance(a, ast.Starred) and isinstance(a.value, (ast.Tuple, ast.List)):
                    new_args.extend(a.value.elts)
                else:
                    new_args.append(a)
            n.args = new_args
            self.steps.append('S32 starred display splatted')
        if isinstance(n.func, ast.Name) and n.func.id == 'range' and not n.keywords and U(n) not in self.calls:
            alt = None
            if len(n.args) == 1:
                alt = ast.Call(func=n.func, args=[ast.Constant(value=0), n.args[0]], keywords=[])
            elif len(n.args) == 2 and isinstance(n.args[0], ast.Constant) and n.args[0].value == 0 and not isinstance(n.args[0].value, bool):
                alt = ast.Call(func=n.func, args=[n.args[1]], keywords=[])
            if alt is not None:
                ast.copy_location(alt, n)
                ast.fix_missing_locations(alt)
                if U(alt) in self.calls:
                    self.steps.append('S8 %s -> %s' % (U(n), U(alt)))
                    return alt
        return n

    def visit_JoinedStr(self, n):
        self.generic_visit(n)
        if U(n) in self.comps:
            return n
        parts = []
        for v in n.values:
            if isinstance(v, ast.Constant) and isinstance(v.value, str):
                if v.value != '':
                    parts.append(v)
            elif isinstance(v, ast.FormattedValue) and v.format_spec is None and v.conversion in (-1, 115):
                parts.append(ast.Call(func=ast.Name(id='str', ctx=ast.Load()), args=[v.value], keywords=[]))
            else:
                return n
        if not parts:
            return n
        out = parts[0]
        for p_ in parts[1:]:
            out = ast.BinOp(left=out, op=ast.Add(), right=p_)
        self.steps.append('S27 ' + U(n)[:50])
        return _relocate(out, n)

    def visit_UnaryOp(self, n):
        self.generic_visit(n)
        if isinstance(n.op, ast.Not):
            # S1 under a not: `not not not X` -> `not X`
            if isinstance(n.operand, ast.UnaryOp) and isinstance(n.operand.op, ast.Not) and isinstance(n.operand.operand, ast.UnaryOp) \
                    and isinstance(n.operand.operand.op, ast.Not):
                self.steps.append('S1 ' + U(n))
                return self.visit_UnaryOp(n.operand.operand)
            # S36 De Morgan over comparisons, when every inverted link is a comparison the reference makes
            c = n.operand
            if isinstance(c, ast.BoolOp) and U(n) not in self.tests and all(
                    isinstance(v, ast.Compare) and len(v.ops) == 1 and type(v.ops[0]) in INVERT for v in c.values):
                invs = [ast.Compare(left=v.left, ops=[INVERT[type(v.ops[0])]()], comparators=v.comparators) for v in c.values]

                def known(v):
                    if U(v) in self.cmp:
                        return True
                    if type(v.ops[0]) in MIRROR:
                        return U(ast.Compare(left=v.comparators[0], ops=[MIRROR[type(v.ops[0])]()], comparators=[v.left])) in self.cmp
                    return False
                if all(known(v) for v in invs):
                    dual = ast.Or() if isinstance(c.op, ast.And) else ast.And()
                    self.steps.append('S36 ' + U(n)[:60])
                    return self.visit(_relocate(ast.BoolOp(op=dual, values=invs), n))
            # S2
            if isinstance(c, ast.Compare) and len(c.ops) == 1 and type(c.ops[0]) in INVERT and U(n) not in self.tests:
                inv = ast.copy_location(ast.Compare(left=c.left, ops=[INVERT[type(c.ops[0])]()], comparators=c.comparators), n)
                if U(inv) in self.cmp or U(inv) in self.tests:
                    self.steps.append('S2 %s -> %s' % (U(n), U(inv)))
                    return inv
        return n

    def _test(self, t):
        s = _strip_not(t)
        if s is not t:
            self.steps.append('S1 ' + U(t))
        return s

    def _block(self, body):
        out = []
        for st in body:
            r = self.visit(st)
            if isinstance(r, list):
                out.extend(r)
            elif r is not None:
                out.append(r)
        # S34 `return all/any(<generator>)` -> the explicit short-circuit loop
        q_ = []
        for st in out:
            v = st.value if isinstance(st, ast.Return) else None
            if isinstance(v, ast.Call) and isinstance(v.func, ast.Name) and v.func.id in ('all', 'any') and len(v.args) == 1 and not v.keywords \
                    and isinstance(v.args[0], (ast.GeneratorExp, ast.ListComp)) and len(v.args[0].generators) == 1 \
                    and not v.args[0].generators[0].is_async and U(st) not in self.stmt_set:
                g = v.args[0].generators[0]
                is_all = v.func.id == 'all'
                test = ast.UnaryOp(op=ast.Not(), operand=v.args[0].elt) if is_all else v.args[0].elt
                inner = ast.If(test=test, body=[ast.Return(value=ast.Constant(value=not is_all))], orelse=[])
                for cond in reversed(g.ifs):        # a filtered element is not tested at all: the filter guards the test
                    inner = ast.If(test=cond, body=[inner], orelse=[])
                loop = ast.For(target=g.target, iter=g.iter, body=[inner], orelse=[])
                tail = ast.Return(value=ast.Constant(value=is_all))
                _relocate(loop, st)
                _relocate(tail, st)
                self.steps.append('S34 ' + U(st)[:60])
                q_.append(self.visit(loop))
                q_.append(tail)
                continue
            # S37 `return reduce(operator.mul, <iterable>, init)` -> acc = init; for x in <iterable>: acc *= x; return acc
            # (reduce applies mul(acc, x) left to right starting from init: the same sequence of float products)
            if isinstance(v, ast.Call) and U(v.func) in ('reduce', 'functools.reduce') and len(v.args) == 3 and not v.keywords \
                    and U(st) not in self.stmt_set and any(t_.split(' ')[1:2] == ['*='] for t_ in self.stmts) and \
                    (U(v.args[0]) in ('operator.mul', 'mul') or (
                        isinstance(v.args[0], ast.Lambda) and len(v.args[0].args.args) == 2 and isinstance(v.args[0].body, ast.BinOp)
                        and isinstance(v.args[0].body.op, ast.Mult) and U(v.args[0].body.left) == v.args[0].args.args[0].arg
                        and U(v.args[0].body.right) == v.args[0].args.args[1].arg)):
                it = v.args[1]
                acc = '_acc'
                if isinstance(it, ast.Name):
                    # the iterable bound to a name just for this call: a generator / list used nowhere else
                    uses = sum(1 for s2 in out for x_ in ast.walk(s2) if isinstance(x_, ast.Name) and x_.id == it.id and isinstance(x_.ctx, ast.Load))
                    defs = [s2 for s2 in q_ if isinstance(s2, ast.Assign) and len(s2.targets) == 1 and isinstance(s2.targets[0], ast.Name)
                            and s2.targets[0].id == it.id]
                    if uses == 1 and len(defs) == 1 and isinstance(defs[0].value, (ast.GeneratorExp, ast.ListComp)) \
                            and sum(1 for s2 in out for x_ in ast.walk(s2) if isinstance(x_, ast.Name) and x_.id == it.id and isinstance(x_.ctx, ast.Store)) == 1:
                        q_.remove(defs[0])
                        it = defs[0].value
                if isinstance(it, (ast.GeneratorExp, ast.ListComp)) and len(it.generators) == 1 and not it.generators[0].ifs:
                    tgt_, src_, elt_ = it.generators[0].target, it.generators[0].iter, it.elt
                else:
                    tgt_, src_, elt_ = ast.Name(id='_factor', ctx=ast.Store()), it, ast.Name(id='_factor', ctx=ast.Load())
                init = ast.Assign(targets=[ast.Name(id=acc, ctx=ast.Store())], value=v.args[2])
                upd = ast.AugAssign(target=ast.Name(id=acc, ctx=ast.Store()), op=ast.Mult(), value=elt_)
                loop = ast.For(target=tgt_, iter=src_, body=[upd], orelse=[])
                tail = ast.Return(value=ast.Name(id=acc, ctx=ast.Load()))
                for x_ in (init, loop, tail):
                    _relocate(x_, st)
                self.steps.append('S37 ' + U(st)[:60])
                self.loaded = set(self.loaded) | {acc, '_factor'}
                q_.extend([init, loop, tail])
                continue
            q_.append(st)
        out = q_
        # S15 / S16 comprehension and conditional-expression statements the reference does not have
        exp = []
        for st in out:
            if isinstance(st, ast.Assign) and len(st.targets) == 1 and isinstance(st.targets[0], ast.Name) \
                    and isinstance(st.value, ast.ListComp) and len(st.value.generators) == 1 and not st.value.generators[0].is_async \
                    and U(st.value) not in self.comps and U(st) not in self.stmt_set:
                g = st.value.generators[0]
                t = st.targets[0].id
                app = ast.Expr(value=ast.Call(func=ast.Attribute(value=ast.Name(id=t, ctx=ast.Load()), attr='append', ctx=ast.Load()),
                                              args=[st.value.elt], keywords=[]))
                inner = [app]
                for cond in reversed(g.ifs):
                    inner = [ast.If(test=cond, body=inner, orelse=[])]
                loop = ast.For(target=g.target, iter=g.iter, body=inner, orelse=[])
                init = ast.Assign(targets=[ast.Name(id=t, ctx=ast.Store())], value=ast.List(elts=[], ctx=ast.Load()))
                for x in (init, loop):
                    _relocate(x, st)
                self.steps.append('S15 ' + U(st)[:60])
                exp.append(init)
                exp.append(self.visit(loop))
                continue
            exp.append(st)
        out = []
        for st in exp:
            if isinstance(st, ast.Expr) and isinstance(st.value, ast.Call) and isinstance(st.value.func, ast.Attribute) \
                    and st.value.func.attr == 'append' and len(st.value.args) == 1 and not st.value.keywords \
                    and isinstance(st.value.args[0], ast.IfExp) and U(st) not in self.stmt_set:
                ie = st.value.args[0]

                def mk(e):
                    return ast.Expr(value=ast.Call(func=st.value.func, args=[e], keywords=[]))
                new = ast.If(test=ie.test, body=[mk(ie.body)], orelse=[mk(ie.orelse)])
                _relocate(new, st)
                self.steps.append('S16 ' + U(st)[:60])
                out.append(new)
                continue
            # S16b  T = A if c else B  ->  if c: T = A else: T = B   (same for return); same evaluation order: test, value, target
            if isinstance(st, (ast.Assign, ast.Return)) and isinstance(st.value, ast.IfExp) and U(st) not in self.stmt_set \
                    and (isinstance(st, ast.Return) or len(st.targets) == 1):
                import copy as _c7
                ie = st.value

                def mk2(e):
                    if isinstance(st, ast.Return):
                        return ast.Return(value=e)
                    return ast.Assign(targets=[_c7.deepcopy(st.targets[0])], value=e)
                new = ast.If(test=ie.test, body=[mk2(ie.body)], orelse=[mk2(ie.orelse)])
                _relocate(new, st)
                self.steps.append('S16b ' + U(st)[:60])
                out.append(new)
                continue
            out.append(st)
        # S24 functional single-position update -> copy + store (reference function uses copy.copy)
        if any(t_.startswith(('copy.copy(', )) or '= copy.copy(' in t_ for t_ in self.stmts):
            from .lin import lin as _lin, Lin as _Lin

            def _is_fupd(v_):
                if isinstance(v_, ast.BinOp) and isinstance(v_.op, ast.Add) and isinstance(v_.left, ast.BinOp) and isinstance(v_.left.op, ast.Add):
                    a2, m2, b2 = v_.left.left, v_.left.right, v_.right
                    return isinstance(a2, ast.Subscript) and isinstance(b2, ast.Subscript) and isinstance(a2.slice, ast.Slice) \
                        and isinstance(b2.slice, ast.Slice) and U(a2.value) == U(b2.value) and isinstance(m2, ast.List) and len(m2.elts) == 1
                return False
            # S24b: the functional update written in place as the argument of a call - f(X[:p] + [E] + X[p+1:], ...) in a test or
            # a value whose other parts are pure - is first given the name the reference uses for its copy
            ref_copy_names = [t_.split(' = ')[0] for t_ in self.stmts if ' = copy.copy(' in t_ and t_.split(' = ')[0].isidentifier()]
            if ref_copy_names:
                hoisted = []
                for st in out:
                    hosts = _once_first_hosts(st) if isinstance(st, (ast.If, ast.Assign, ast.Return, ast.Expr)) else []
                    done_h = False
                    for h in hosts:
                        calls_ = [x for x in _walk_no_defer(h) if isinstance(x, ast.Call) and x.args and _is_fupd(x.args[0])]
                        if len(calls_) != 1 or ref_copy_names[0] in {y.id for y in ast.walk(st) if isinstance(y, ast.Name)}:
                            continue
                        c_ = calls_[0]
                        others_pure = all(_pure(a) for a in c_.args[1:]) and all(_pure(k.value) for k in c_.keywords) and _pure(c_.func) \
                            and _pure(c_.args[0]) and all(_pure(x) for x in ast.iter_child_nodes(h) if x is not c_ and not any(y is c_ for y in ast.walk(x)))
                        if not others_pure:
                            continue
                        tmp = ref_copy_names[0]
                        pre_ = ast.Assign(targets=[ast.Name(id=tmp, ctx=ast.Store())], value=c_.args[0])
                        c_.args[0] = ast.Name(id=tmp, ctx=ast.Load())
                        hoisted.append(_relocate(pre_, st))
                        self.steps.append('S24b functional update named ' + tmp)
                        done_h = True
                        break
                    hoisted.append(st)
                out = hoisted
            fu = []
            for st in out:
                v = st.value if isinstance(st, ast.Assign) and len(st.targets) == 1 and isinstance(st.targets[0], ast.Name) else None
                done_ = False
                if isinstance(v, ast.BinOp) and isinstance(v.op, ast.Add) and isinstance(v.left, ast.BinOp) and isinstance(v.left.op, ast.Add):
                    a_, m_, b_ = v.left.left, v.left.right, v.right
                    if isinstance(a_, ast.Subscript) and isinstance(b_, ast.Subscript) and isinstance(a_.slice, ast.Slice) \
                            and isinstance(b_.slice, ast.Slice) and U(a_.value) == U(b_.value) and isinstance(m_, ast.List) and len(m_.elts) == 1 \
                            and a_.slice.lower is None and a_.slice.upper is not None and b_.slice.upper is None and b_.slice.lower is not None \
                            and a_.slice.step is None and b_.slice.step is None:
                        pl, ql = _lin(a_.slice.upper), _lin(b_.slice.lower)
                        if pl is not None and ql is not None and ql == pl + _Lin({}, 1):
                            t_ = st.targets[0].id
                            c1 = ast.Assign(targets=[ast.Name(id=t_, ctx=ast.Store())],
                                            value=ast.Call(func=ast.Attribute(value=ast.Name(id='copy', ctx=ast.Load()), attr='copy', ctx=ast.Load()),
                                                           args=[a_.value], keywords=[]))
                            c2 = ast.Assign(targets=[ast.Subscript(value=ast.Name(id=t_, ctx=ast.Load()), slice=a_.slice.upper, ctx=ast.Store())],
                                            value=m_.elts[0])
                            fu.extend([_relocate(c1, st), _relocate(c2, st)])
                            self.steps.append('S24 ' + U(st)[:60])
                            done_ = True
                if not done_:
                    fu.append(st)
            out = fu
        # S51 collect-then-extend:  t = []; [if C:] t.append(E) ...; X.extend(t)   ->   [if C:] X.append(E) ...
        # t is a fresh local used nowhere else; every E and C is pure and does not mention X (so it does not matter that X now grows
        # between their evaluations), nothing else happens between the binding and the extend.
        fn51 = getattr(self, 'fn', None)
        if fn51 is not None:
            i51 = 0
            while i51 < len(out):
                st = out[i51]
                if isinstance(st, ast.Assign) and len(st.targets) == 1 and isinstance(st.targets[0], ast.Name) \
                        and isinstance(st.value, ast.List) and not st.value.elts and st.targets[0].id not in self.ref_names:
                    t51 = st.targets[0].id
                    j51 = None
                    for j in range(i51 + 1, len(out)):
                        e_ = out[j]
                        if isinstance(e_, ast.Expr) and isinstance(e_.value, ast.Call) and isinstance(e_.value.func, ast.Attribute) \
                                and e_.value.func.attr == 'extend' and len(e_.value.args) == 1 and not e_.value.keywords \
                                and isinstance(e_.value.args[0], ast.Name) and e_.value.args[0].id == t51 and _pure(e_.value.func.value):
                            j51 = j
                            break
                    if j51 is not None:
                        xs51 = U(out[j51].value.func.value)
                        n_app = [0]

                        def only_appends(blk):
                            for b_ in blk:
                                if isinstance(b_, ast.Expr) and isinstance(b_.value, ast.Call) and isinstance(b_.value.func, ast.Attribute) \
                                        and b_.value.func.attr == 'append' and isinstance(b_.value.func.value, ast.Name) \
                                        and b_.value.func.value.id == t51 and len(b_.value.args) == 1 and not b_.value.keywords \
                                        and _pure(b_.value.args[0]) and xs51 not in U(b_.value.args[0]) and t51 not in \
                                        {y.id for y in ast.walk(b_.value.args[0]) if isinstance(y, ast.Name)}:
                                    n_app[0] += 1
                                elif isinstance(b_, ast.If) and _pure(b_.test) and xs51 not in U(b_.test) \
                                        and t51 not in {y.id for y in ast.walk(b_.test) if isinstance(y, ast.Name)} \
                                        and only_appends(b_.body) and only_appends(b_.orelse):
                                    pass
                                else:
                                    return False
                            return True
                        total = sum(1 for y in ast.walk(fn51) if isinstance(y, ast.Name) and y.id == t51)
                        if only_appends(out[i51 + 1:j51]) and n_app[0] >= 1 and total == n_app[0] + 2:
                            import copy as _c51
                            for b_ in out[i51 + 1:j51]:
                                for y in ast.walk(b_):
                                    if isinstance(y, ast.Call) and isinstance(y.func, ast.Attribute) and y.func.attr == 'append' \
                                            and isinstance(y.func.value, ast.Name) and y.func.value.id == t51:
                                        y.func.value = _c51.deepcopy(out[j51].value.func.value)
                            self.steps.append('S51 collect-then-extend of ' + t51)
                            del out[j51]
                            del out[i51]
                            continue
                i51 += 1
        # S50 open-an-empty-group-then-fill:
        #     if C: ...; X.append({.., K: [], ..}); ...      X[-1][K].append(V)
        # ->  if C: ...; X.append({.., K: [V], ..}); ...     else: X[-1][K].append(V)
        # when the reference decides on C (or not C) with an if/else.  V is pure, the other statements of the branch bind plain names
        # that V does not read to pure values (so neither X nor V is touched between the two appends).
        q50 = []
        skip50 = False
        for i50, st in enumerate(out):
            if skip50:
                skip50 = False
                continue
            nxt = out[i50 + 1] if i50 + 1 < len(out) else None
            done50 = False
            if isinstance(st, ast.If) and not st.orelse and (self.els.get(U(st.test)) or self.els.get(U(_negate(st.test)))) \
                    and isinstance(nxt, ast.Expr) and isinstance(nxt.value, ast.Call) and isinstance(nxt.value.func, ast.Attribute) \
                    and nxt.value.func.attr == 'append' and len(nxt.value.args) == 1 and not nxt.value.keywords and _pure(nxt.value.args[0]) \
                    and isinstance(nxt.value.func.value, ast.Subscript) and isinstance(nxt.value.func.value.value, ast.Subscript) \
                    and isinstance(nxt.value.func.value.value.slice, ast.UnaryOp) and U(nxt.value.func.value.value.slice) == '-1' \
                    and isinstance(nxt.value.func.value.slice, ast.Constant):
                xs = U(nxt.value.func.value.value.value)
                key = nxt.value.func.value.slice.value
                vnames = {y.id for y in ast.walk(nxt.value.args[0]) if isinstance(y, ast.Name)}
                opens = []
                simple = True
                for b in st.body:
                    if isinstance(b, ast.Expr) and isinstance(b.value, ast.Call) and isinstance(b.value.func, ast.Attribute) \
                            and b.value.func.attr == 'append' and U(b.value.func.value) == xs and len(b.value.args) == 1 \
                            and isinstance(b.value.args[0], ast.Dict):
                        opens.append(b)
                    elif isinstance(b, ast.Assign) and len(b.targets) == 1 and isinstance(b.targets[0], ast.Name) \
                            and b.targets[0].id not in vnames and _pure(b.value) and xs not in U(b.value):
                        pass
                    else:
                        simple = False
                if simple and len(opens) == 1:
                    d = opens[0].value.args[0]
                    slot = [j for j, k in enumerate(d.keys) if isinstance(k, ast.Constant) and k.value == key]
                    if len(slot) == 1 and isinstance(d.values[slot[0]], ast.List) and not d.values[slot[0]].elts \
                            and all(_pure(v_) for v_ in d.values):
                        import copy as _c50
                        d.values[slot[0]] = ast.List(elts=[_c50.deepcopy(nxt.value.args[0])], ctx=ast.Load())
                        st.orelse = [nxt]
                        self.steps.append('S50 empty group + fill -> if/else')
                        q50.append(self.visit_If(st))
                        skip50 = True
                        done50 = True
            if not done50:
                q50.append(st)
        out = q50
        # S49 a generator bound to a name and consumed by the one loop that follows:
        #     g = (E for T in IT if C); for x in g: BODY   ->   for T in IT: if C: x = E; BODY
        # (the generator is lazy: E is evaluated per element right before BODY in both forms; break / continue / return in BODY mean
        # the same for the fused loop)
        q49 = []
        skip49 = False
        for idx49, st in enumerate(out):
            if skip49:
                skip49 = False
                continue
            nxt = out[idx49 + 1] if idx49 + 1 < len(out) else None
            fn49 = getattr(self, 'fn', None)
            if isinstance(st, ast.Assign) and len(st.targets) == 1 and isinstance(st.targets[0], ast.Name) and isinstance(st.value, ast.GeneratorExp) \
                    and len(st.value.generators) == 1 and not st.value.generators[0].is_async and isinstance(nxt, ast.For) and not nxt.orelse \
                    and isinstance(nxt.iter, ast.Name) and nxt.iter.id == st.targets[0].id and isinstance(nxt.target, ast.Name) \
                    and U(st) not in self.stmt_set and fn49 is not None \
                    and sum(1 for y in ast.walk(fn49) if isinstance(y, ast.Name) and y.id == st.targets[0].id) == 2:
                g = st.value.generators[0]
                inner = [ast.Assign(targets=[ast.Name(id=nxt.target.id, ctx=ast.Store())], value=st.value.elt)] + list(nxt.body)
                for cond in reversed(g.ifs):
                    inner = [ast.If(test=cond, body=inner, orelse=[])]
                fused = ast.For(target=g.target, iter=g.iter, body=inner, orelse=[])
                _relocate(fused, nxt)
                self.steps.append('S49 generator fused into its loop')
                q49.append(self.visit(fused))
                skip49 = True
                continue
            q49.append(st)
        out = q49
        # S48 loop rotation:  while True: x = F(); if x is None: return R | break; BODY   (+ `return R` after the loop)
        #                  ->  x = F(); while x is not None: BODY; x = F()              (BODY has no `continue`)
        q48 = []
        for idx48, st in enumerate(out):
            if isinstance(st, ast.While) and isinstance(st.test, ast.Constant) and st.test.value is True and not st.orelse and len(st.body) >= 3 \
                    and isinstance(st.body[0], ast.Assign) and len(st.body[0].targets) == 1 and isinstance(st.body[0].targets[0], ast.Name) \
                    and isinstance(st.body[1], ast.If) and not st.body[1].orelse and len(st.body[1].body) == 1:
                x_ = st.body[0].targets[0].id
                g_ = st.body[1]
                exit_ = g_.body[0]
                nxt_ = out[idx48 + 1] if idx48 + 1 < len(out) else None
                body_ = st.body[2:]
                ok_exit = isinstance(exit_, ast.Break) or (isinstance(exit_, ast.Return) and isinstance(nxt_, ast.Return) and U(exit_) == U(nxt_))
                if U(g_.test) == '%s is None' % x_ and ok_exit and ('%s is not None' % x_) in self.tests \
                        and not any(isinstance(y, ast.Continue) for b_ in body_ for y in ast.walk(b_)) \
                        and not any(isinstance(y, ast.Name) and y.id == x_ and isinstance(y.ctx, ast.Store) for b_ in body_ for y in ast.walk(b_)):
                    import copy as _c48
                    first = st.body[0]
                    again = _c48.deepcopy(first)
                    new_loop = ast.While(test=ast.Compare(left=ast.Name(id=x_, ctx=ast.Load()), ops=[ast.IsNot()], comparators=[ast.Constant(value=None)]),
                                         body=body_ + [again], orelse=[])
                    _relocate(new_loop, st)
                    self.steps.append('S48 loop rotated')
                    q48.extend([first, new_loop])
                    continue
            q48.append(st)
        out = q48
        # S44 `X[i:i + 1] = P`  ->  `del X[i]; X[i:i] = P`   (the reference function deletes and splices; i is in range where the
        # reference form would not raise)
        q44 = []
        for st in out:
            if isinstance(st, ast.Assign) and len(st.targets) == 1 and isinstance(st.targets[0], ast.Subscript) \
                    and isinstance(st.targets[0].slice, ast.Slice) and st.targets[0].slice.step is None \
                    and st.targets[0].slice.lower is not None and st.targets[0].slice.upper is not None and U(st) not in self.stmt_set:
                from .lin import lin as _lin44
                tg = st.targets[0]
                lo_, hi_ = _lin44(tg.slice.lower), _lin44(tg.slice.upper)
                if lo_ is not None and hi_ is not None and not (hi_ - lo_).t and (hi_ - lo_).c == 1 and _pure(tg.value) and _pure(tg.slice.lower):
                    import copy as _c44
                    d_ = ast.Delete(targets=[ast.Subscript(value=_c44.deepcopy(tg.value), slice=_c44.deepcopy(tg.slice.lower), ctx=ast.Del())])
                    a_ = ast.Assign(targets=[ast.Subscript(value=_c44.deepcopy(tg.value),
                                                           slice=ast.Slice(lower=_c44.deepcopy(tg.slice.lower), upper=_c44.deepcopy(tg.slice.lower), step=None),
                                                           ctx=ast.Store())], value=st.value)
                    if U(d_) in self.stmt_set:
                        _relocate(d_, st)
                        _relocate(a_, st)
                        self.steps.append('S44 ' + U(st)[:60])
                        q44.extend([d_, a_])
                        continue
            q44.append(st)
        out = q44
        # S38 a fresh name for a new container that is stored at once (also run as a pre-pass, before the names are normalised)
        fn_ = getattr(self, 'fn', None)
        if fn_ is not None:
            for msg in _fold_container_alias_block(fn_, out, self.ref_names):
                self.steps.append(msg)
        # S10 inert statements that the reference does not have
        def _inert(st_):
            return _stmt_inert(st_, self.ref_names, getattr(self, 'inert_calls', ()))
        kept = []
        keep_inert = os.environ.get('SA_KEEP_INERT') == '1'     # tools/canon_check.py: keep what is written to stderr
        for st in out:
            if keep_inert:
                kept.append(st)
                continue
            if isinstance(st, ast.If) and U(st.test) not in self.tests and _inert(st) and U(st) not in self.stmt_set:
                # a diagnostic: a pure test guarding nothing but messages on stderr
                self.steps.append('S10 ' + U(st)[:60])
                continue
            if isinstance(st, (ast.Assert, ast.For)) and _inert(st) and U(st) not in self.stmt_set:
                self.steps.append('S10 ' + U(st)[:60])
                continue
            if isinstance(st, ast.Expr) and isinstance(st.value, ast.Call) and _inert(st) and U(st) not in self.stmt_set:
                self.steps.append('S10 ' + U(st)[:60])
                continue
            if U(st) not in self.stmt_set:
                if isinstance(st, ast.Expr) and isinstance(st.value, ast.Call) and isinstance(st.value.func, ast.Name) \
                        and st.value.func.id == 'print' and any(k.arg == 'file' and U(k.value) == 'sys.stderr' for k in st.value.keywords) \
                        and all(_pure(a) for a in st.value.args) and all(_pure(k.value) for k in st.value.keywords):
                    self.steps.append('S10 ' + U(st)[:60])
                    continue
                if isinstance(st, ast.Assign) and len(st.targets) == 1 and isinstance(st.targets[0], ast.Name) \
                        and st.targets[0].id not in self.ref_names and st.targets[0].id not in self.loaded and _pure(st.value):
                    self.steps.append('S10 ' + U(st)[:60])
                    continue
            kept.append(st)
        out = kept or [ast.Pass()]
        if len(out) > 1 and any(isinstance(s, ast.Pass) for s in out):
            out = [s for s in out if not isinstance(s, ast.Pass)] or [ast.Pass()]
            self.steps.append('S6 pass removed')
        # S23 break == return E when the loop is directly followed by `return E`
        if self.ref_breaks == 0:
            for j in range(len(out) - 1):
                lp, nxt = out[j], out[j + 1]
                if isinstance(lp, (ast.While, ast.For)) and not lp.orelse and isinstance(nxt, ast.Return) \
                        and (nxt.value is None or _pure(nxt.value)):
                    import copy as _c3

                    def repl(body):
                        res = []
                        for x in body:
                            if isinstance(x, ast.Break):
                                res.append(_relocate(ast.Return(value=_c3.deepcopy(nxt.value)), x))
                                self.steps.append('S23 break -> return')
                                continue
                            if isinstance(x, (ast.For, ast.While, ast.FunctionDef, ast.ClassDef)):
                                res.append(x)
                                continue
                            for f2 in ('body', 'orelse', 'finalbody'):
                                sub = getattr(x, f2, None)
                                if isinstance(sub, list) and sub and isinstance(sub[0], ast.stmt):
                                    setattr(x, f2, repl(sub))
                            for h in getattr(x, 'handlers', []) or []:
                                h.body = repl(h.body)
                            res.append(x)
                        return res
                    lp.body = repl(lp.body)
        # S25 / S26 merged guards split towards the reference
        import copy as _c4
        changed_ = True
        guard_ = 0
        while changed_ and guard_ < 20:
            changed_ = False
            guard_ += 1
            nxt_ = []
            for st in out:
                if isinstance(st, ast.If) and not st.orelse and isinstance(st.test, ast.BoolOp) and U(st.test) not in self.tests:
                    vals = st.test.values
                    if isinstance(st.test.op, ast.Or) and len(st.body) == 1 and isinstance(st.body[0], (ast.Continue, ast.Break, ast.Return, ast.Raise)) \
                            and (not isinstance(st.body[0], ast.Return) or st.body[0].value is None or _pure(st.body[0].value)) \
                            and any(U(_strip_not(v)) in self.tests or U(v) in self.tests for v in vals):
                        for v in vals:
                            nxt_.append(_relocate(ast.If(test=v, body=[_c4.deepcopy(st.body[0])], orelse=[]), st))
                        self.steps.append('S25 ' + U(st.test)[:60])
                        changed_ = True
                        continue
                    rest_t = vals[1] if len(vals) == 2 else ast.BoolOp(op=ast.And(), values=vals[1:])
                    if isinstance(st.test.op, ast.And) and (U(vals[0]), U(rest_t)) in self.nest:
                        rest = vals[1] if len(vals) == 2 else ast.BoolOp(op=ast.And(), values=vals[1:])
                        inner = ast.If(test=rest, body=st.body, orelse=[])
                        outer = ast.If(test=vals[0], body=[inner], orelse=[])
                        ast.copy_location(inner, st)
                        ast.copy_location(outer, st)
                        nxt_.append(outer)
                        self.steps.append('S26 ' + U(st.test)[:60])
                        changed_ = True
                        continue
                nxt_.append(st)
            out = nxt_
        # S11 else hoisting / nesting towards the reference
        i = 0
        while i < len(out):
            st = out[i]
            if isinstance(st, ast.If) and _terminates(st.body):
                want = self.els.get(U(st.test))
                if st.orelse and want == 0 and want is not None:
                    self.steps.append('S11 else of `if %s` hoisted' % U(st.test)[:50])
                    tail = st.orelse
                    st.orelse = []
                    out[i + 1:i + 1] = tail
                elif not st.orelse and want and i + 1 < len(out):
                    want = min(want, len(out) - i - 1)
                    self.steps.append('S11 next %d statement(s) nested under else of `if %s`' % (want, U(st.test)[:50]))
                    st.orelse = out[i + 1:i + 1 + want]
                    del out[i + 1:i + 1 + want]
            i += 1
        # S12 reference order of independent adjacent assignments
        pos = {}
        for k, t in enumerate(self.stmts):
            pos.setdefault(t, k)
        swapped = True
        guard = 0
        while swapped and guard < 200:
            swapped = False
            guard += 1
            for j in range(len(out) - 1):
                a, b = out[j], out[j + 1]
                ta, tb = U(a), U(b)
                if ta in pos and tb in pos and pos[ta] > pos[tb] and _independent_simple(a, b):
                    out[j], out[j + 1] = b, a
                    swapped = True
                    self.steps.append('S12 %s <-> %s' % (ta[:30], tb[:30]))
        return out

    def generic_visit(self, node):
        for field in ('body', 'orelse', 'finalbody'):
            lst = getattr(node, field, None)
            if isinstance(lst, list) and lst and isinstance(lst[0], ast.stmt):
                setattr(node, field, self._block(lst))
        for field, old in ast.iter_fields(node):
            if field in ('body', 'orelse', 'finalbody') and isinstance(old, list) and (not old or isinstance(old[0], ast.stmt)):
                continue
            if isinstance(old, list):
                new = []
                for v in old:
                    if isinstance(v, ast.AST):
                        v = self.visit(v)
                        if v is None:
                            continue
                        if not isinstance(v, ast.AST):
                            new.extend(v)
                            continue
                    new.append(v)
                old[:] = new
            elif isinstance(old, ast.AST):
                new = self.visit(old)
                if new is None:
                    delattr(node, field)
                else:
                    setattr(node, field, new)
        return node

    def visit_If(self, n):
        self.generic_visit(n)
        n.test = self._test(n.test)
        if n.orelse and U(n.test) not in self.tests:
            neg = _negate(n.test)
            if U(neg) in self.tests:
                self.steps.append('S4 if %s -> if %s (branches swapped)' % (U(n.test), U(neg)))
                n.test = neg
                n.body, n.orelse = n.orelse, n.body
        return n

    def _loop_body(self, n):
        # S22c: `if T: X; continue` + REST up to the end of the loop body  ->  `if T: X else: REST`, when the reference decides between
        # two branches on T (or not T) with an if/else (after REST the loop body ends, which is what the `continue` did for X)
        body = n.body
        for i in range(len(body) - 2, -1, -1):
            st = body[i]
            if isinstance(st, ast.If) and not st.orelse and len(st.body) >= 2 and isinstance(st.body[-1], ast.Continue) \
                    and (self.els.get(U(st.test)) or self.els.get(U(_negate(st.test)))) and not n.orelse:
                st.body = st.body[:-1]
                st.orelse = body[i + 1:]
                n.body = body[:i] + [st]
                if U(st.test) not in self.tests and U(_negate(st.test)) in self.tests:
                    st.test = _negate(st.test)
                    st.body, st.orelse = st.orelse, st.body
                self.steps.append('S22c guard-and-continue -> if/else')
                break
        # S22: guard-and-continue whose prefix repeats the tail of the loop body
        for _pass in (1, 2):
            if _pass == 2:
                self._s22b(n)
            changed = True
            while changed:
                changed = False
                body = n.body
                for i, st in reversed(list(enumerate(body))):      # innermost (last) guard first
                    if isinstance(st, ast.If) and not st.orelse and st.body and isinstance(st.body[-1], ast.Continue) and \
                            (self.ref_continues == 0 or (U(st.test) not in self.tests and U(_negate(st.test)) in self.tests)):
                        pre = st.body[:-1]
                        k = len(pre)
                        rest = body[i + 1:]
                        if len(rest) >= k and [U(x) for x in rest[len(rest) - k:]] == [U(x) for x in pre] and \
                                not any(isinstance(y, (ast.Continue, ast.Break)) for x in rest[len(rest) - k:] for y in ast.walk(x)):
                            inner = rest[:len(rest) - k]
                            tail = rest[len(rest) - k:]
                            if inner:
                                st.test = _negate(st.test)
                                st.body = inner
                                n.body = body[:i] + [st] + tail
                            else:
                                n.body = body[:i] + tail
                            self.steps.append('S22 guard-and-continue folded')
                            changed = True
                            break
        return n

    def _s22b(self, n):
        # S22b: `if T: X; continue` + REST (REST does not end with X)  ->  `if not T: REST; continue` + X
        # (REST runs to the end of the loop body, so ending it with `continue` changes nothing; X then runs exactly when T held).
        # Applied from the last guard backwards, when the reference tests `not T` and its loop has a `continue`.
        if self.ref_continues > 0:
            changed = True
            while changed:
                changed = False
                body = n.body
                for i in range(len(body) - 1, -1, -1):
                    st = body[i]
                    if isinstance(st, ast.If) and not st.orelse and len(st.body) >= 2 and isinstance(st.body[-1], ast.Continue) \
                            and U(st.test) not in self.tests and U(_negate(st.test)) in self.tests and body[i + 1:] \
                            and not any(isinstance(y, (ast.Break, ast.Continue, ast.Return)) for x in st.body[:-1] for y in ast.walk(x)):
                        pre = st.body[:-1]
                        rest = body[i + 1:]
                        if [U(x) for x in rest[len(rest) - len(pre):]] == [U(x) for x in pre]:
                            continue        # S22's case
                        new_if = ast.If(test=_negate(st.test), body=rest + ([] if _terminates(rest) else [ast.Continue()]), orelse=[])
                        _relocate(new_if, st)
                        n.body = body[:i] + [new_if] + pre
                        self.steps.append('S22b guard-and-continue inverted')
                        changed = True
                        break
        return n

    def visit_While(self, n):
        self.generic_visit(n)
        n.test = self._test(n.test)
        return self._loop_body(n)

    def visit_For(self, n):
        self.generic_visit(n)
        return self._loop_body(n)

    def visit_Assign(self, n):
        self.generic_visit(n)
        if len(n.targets) == 1 and isinstance(n.value, ast.BinOp) and isinstance(n.value.op, (ast.Add, ast.Sub, ast.Mult)) \
                and isinstance(n.targets[0], (ast.Name, ast.Attribute, ast.Subscript)) and U(n.value.left) == U(n.targets[0]):
            aug = ast.copy_location(ast.AugAssign(target=n.targets[0], op=n.value.op, value=n.value.right), n)
            if U(aug) in self.aug:
                self.steps.append('S5 %s -> %s' % (U(n), U(aug)))
                return aug
        return n


def refnames_of(q):
    from .core import refnames
    return refnames().get(q, ())


def _fold_container_alias_block(fn, out, ref_names):
    """S38 on one statement list: t = []; P = t; ...t...  ->  P = []; ...P...   (P a subscript / attribute place whose parts are
    not re-bound, and whose base object is not handed to a call, in the rest of the block; t bound here and nowhere else and read
    only in the rest of this block: t and P then denote the same object throughout)."""
    import copy as _c8
    steps = []
    # the chained spelling  t = P = <new container>  (one local, one place) is first split into  t = <new container>; P = t
    j_ = 0
    while j_ < len(out):
        c_ = out[j_]
        if isinstance(c_, ast.Assign) and len(c_.targets) == 2 and _builds_container(c_.value) \
                and sum(isinstance(t, ast.Name) for t in c_.targets) == 1 and sum(isinstance(t, (ast.Subscript, ast.Attribute)) for t in c_.targets) == 1:
            nm_ = next(t for t in c_.targets if isinstance(t, ast.Name))
            pl_ = next(t for t in c_.targets if not isinstance(t, ast.Name))
            if nm_.id not in ref_names and _pure(pl_):
                a1 = _relocate(ast.Assign(targets=[ast.Name(id=nm_.id, ctx=ast.Store())], value=c_.value), c_)
                a2 = _relocate(ast.Assign(targets=[pl_], value=ast.Name(id=nm_.id, ctx=ast.Load())), c_)
                out[j_:j_ + 1] = [a1, a2]
                j_ += 2
                continue
        j_ += 1
    k_ = 0
    while k_ + 1 < len(out):
        a_, b_ = out[k_], out[k_ + 1]
        if isinstance(a_, ast.Assign) and len(a_.targets) == 1 and isinstance(a_.targets[0], ast.Name) \
                and a_.targets[0].id not in ref_names and _builds_container(a_.value) \
                and isinstance(b_, ast.Assign) and len(b_.targets) == 1 and isinstance(b_.targets[0], (ast.Subscript, ast.Attribute)) \
                and isinstance(b_.value, ast.Name) and b_.value.id == a_.targets[0].id and _pure(b_.targets[0]):
            t_ = a_.targets[0].id
            place = b_.targets[0]
            rest_ = out[k_ + 2:]
            parts = {x.id for x in ast.walk(place) if isinstance(x, ast.Name)}
            n_st = sum(1 for x in ast.walk(fn) if isinstance(x, ast.Name) and x.id == t_ and isinstance(x.ctx, (ast.Store, ast.Del)))
            n_ld = sum(1 for x in ast.walk(fn) if isinstance(x, ast.Name) and x.id == t_ and isinstance(x.ctx, ast.Load))
            n_in = sum(1 for r_ in rest_ for x in ast.walk(r_) if isinstance(x, ast.Name) and x.id == t_ and isinstance(x.ctx, ast.Load))
            stable = n_st == 1 and n_ld == n_in + 1
            for r_ in rest_:
                for x in ast.walk(r_):
                    if isinstance(x, ast.Name) and isinstance(x.ctx, (ast.Store, ast.Del)) and (x.id in parts or x.id == t_):
                        stable = False
                    if isinstance(x, (ast.Subscript, ast.Attribute)) and isinstance(x.ctx, (ast.Store, ast.Del)) and U(x) == U(place):
                        stable = False
                    if isinstance(x, ast.Call) and isinstance(place, ast.Subscript) and any(
                            isinstance(g_, ast.Name) and g_.id == getattr(place.value, 'id', None)
                            for g_ in list(x.args) + [kw.value for kw in x.keywords]):
                        stable = False
            if stable:
                class _AL(ast.NodeTransformer):
                    def visit_Name(self, n_):
                        if n_.id == t_ and isinstance(n_.ctx, ast.Load):
                            p2 = _c8.deepcopy(place)
                            p2.ctx = ast.Load()
                            return _relocate(p2, n_)
                        return n_
                out[k_:k_ + 2] = [_relocate(ast.Assign(targets=[place], value=a_.value), b_)]
                for j_ in range(k_ + 1, len(out)):
                    out[j_] = _AL().visit(out[j_])
                steps.append('S38 ' + U(out[k_])[:60])
                continue
        k_ += 1
    return steps


def fold_container_aliases(rel, module, refnames):
    """Pre-pass form of S38 (before the local names are normalised: a fresh alias must not be taken for a renamed local)."""
    ref = refshapes()
    done = {}
    for lname, fn in list(module.funcs.items()):
        q = rel + '::' + lname
        if q not in ref:
            continue
        want = set(refnames.get(q, ()))
        msgs = []
        for owner in ast.walk(fn):
            for field in ('body', 'orelse', 'finalbody'):
                blk = getattr(owner, field, None)
                if isinstance(blk, list) and blk and isinstance(blk[0], ast.stmt):
                    msgs += _fold_container_alias_block(fn, blk, want)
        if msgs:
            ast.fix_missing_locations(fn)
            done[lname] = msgs
    return done


def _const_expr(e):
    """a literal scalar, or arithmetic / tuples over such (10**6, ('a', 'b'), -1)"""
    if isinstance(e, ast.Constant):
        return not isinstance(e.value, (bytes,)) or True
    if isinstance(e, ast.UnaryOp) and isinstance(e.op, (ast.USub, ast.UAdd)):
        return _const_expr(e.operand)
    if isinstance(e, ast.BinOp) and isinstance(e.op, (ast.Add, ast.Sub, ast.Mult, ast.Pow, ast.FloorDiv)):
        return _const_expr(e.left) and _const_expr(e.right)
    if isinstance(e, ast.Tuple):
        return all(_const_expr(x) for x in e.elts)
    # immutable collections of constants, and compiled patterns (immutable; re.compile(p).m(s) == re.m(p, s), see S43b)
    if isinstance(e, ast.Call) and isinstance(e.func, ast.Name) and e.func.id in ('frozenset', 'tuple') and len(e.args) == 1 and not e.keywords \
            and isinstance(e.args[0], (ast.Tuple, ast.List, ast.Set)) and all(_const_expr(x) for x in e.args[0].elts):
        return True
    if isinstance(e, ast.Call) and U(e.func) == 're.compile' and len(e.args) == 1 and not e.keywords and isinstance(e.args[0], ast.Constant) \
            and isinstance(e.args[0].value, str):
        return True
    return False


def inline_named_constants(rel, module, refidents):
    """Step S43.  A NEW module-level (or class-level) name bound once to a constant expression - a named constant introduced for
    a magic number or string - is replaced by its value wherever the module reads it (`NAME`, `self.NAME`, `Class.NAME`).  The
    name must not occur in the reference tree, must be bound exactly once in the module and never be the target of a `global`
    declaration, an augmented assignment, a `del` or an attribute store."""
    import copy as _c11
    tree = module.tree
    # module- / class-level `NAME: T = <constant>` is the same binding with an annotation that is never evaluated for its effect
    for owner in [tree] + [c for c in tree.body if isinstance(c, ast.ClassDef)]:
        for i_, st in enumerate(list(owner.body)):
            if isinstance(st, ast.AnnAssign) and st.value is not None and isinstance(st.target, ast.Name) and st.simple and _const_expr(st.value) \
                    and st.target.id not in refidents:
                owner.body[i_] = ast.copy_location(ast.Assign(targets=[st.target], value=st.value), st)
    cands = {}
    for st in tree.body:
        if isinstance(st, ast.Assign) and len(st.targets) == 1 and isinstance(st.targets[0], ast.Name) and _const_expr(st.value):
            cands.setdefault(st.targets[0].id, []).append(('mod', st))
        if isinstance(st, ast.ClassDef):
            for s2 in st.body:
                if isinstance(s2, ast.Assign) and len(s2.targets) == 1 and isinstance(s2.targets[0], ast.Name) and _const_expr(s2.value):
                    cands.setdefault(s2.targets[0].id, []).append(('cls:' + st.name, s2))
    if not cands:
        return {}
    stores = {}
    for x in ast.walk(tree):
        if isinstance(x, ast.Name) and isinstance(x.ctx, (ast.Store, ast.Del)):
            stores[x.id] = stores.get(x.id, 0) + 1
        elif isinstance(x, (ast.Global, ast.Nonlocal)):
            for nm in x.names:
                stores[nm] = stores.get(nm, 0) + 10
        elif isinstance(x, ast.Attribute) and isinstance(x.ctx, (ast.Store, ast.Del)):
            stores[x.attr] = stores.get(x.attr, 0) + 10
        elif isinstance(x, ast.arg):
            stores[x.arg] = stores.get(x.arg, 0) + 10
    done = {}
    for nm, lst in cands.items():
        if len(lst) != 1 or stores.get(nm, 0) != 1 or nm in refidents or nm.startswith('__'):
            continue
        where, st = lst[0]
        val = st.value

        class T(ast.NodeTransformer):
            def __init__(self):
                self.n = 0

            def visit_Name(self, n_):
                if where == 'mod' and n_.id == nm and isinstance(n_.ctx, ast.Load):
                    self.n += 1
                    return _relocate(_c11.deepcopy(val), n_)
                return n_

            def visit_Attribute(self, n_):
                self.generic_visit(n_)
                if where.startswith('cls:') and n_.attr == nm and isinstance(n_.ctx, ast.Load) and isinstance(n_.value, ast.Name) \
                        and n_.value.id in ('self', 'cls', where[4:]):
                    self.n += 1
                    return _relocate(_c11.deepcopy(val), n_)
                return n_
        t = T()
        if where.startswith('cls:'):
            cls = next(c for c in tree.body if isinstance(c, ast.ClassDef) and c.name == where[4:])
            # inside the class body itself the bare name refers to it as well (other class-level statements)
            t.visit(cls)
            cls.body.remove(st)
            if not cls.body:
                cls.body.append(ast.Pass())
        else:
            for i_, b_ in enumerate(tree.body):
                if b_ is not st:
                    tree.body[i_] = t.visit(b_)
            tree.body.remove(st)
        done[nm] = t.n
    if done:
        ast.fix_missing_locations(tree)
    return done


_CLOCKS = {'time.time', 'time.perf_counter', 'time.monotonic', 'time.process_time', 'time.perf_counter_ns', 'time.monotonic_ns',
           'time.time_ns', 'datetime.datetime.now', 'datetime.now'}
_LOG_METHODS = {'debug', 'info', 'warning', 'warn', 'error', 'exception', 'critical', 'log'}
_GHOST_LOGGERS = set()      # names bound to logging.getLogger(..) that the reference tree does not have (filled by drop_ghost_state)
_GHOST_LOGGER_FACTORIES = set()     # new functions that configure and return such a logger


def _is_ghost_logger(e):
    if isinstance(e, ast.Name):
        return e.id in _GHOST_LOGGERS
    if isinstance(e, ast.Call) and isinstance(e.func, ast.Name) and e.func.id in _GHOST_LOGGER_FACTORIES and not e.args and not e.keywords:
        return True
    return False


def _obs_pure(e):
    """Pure for an *observation*: pure, or reads a clock (reading the clock has no effect; its value may only reach diagnostics)."""
    for n in ast.walk(e):
        if isinstance(n, ast.Call):
            if U(n.func) in _CLOCKS and not n.args and not n.keywords:
                continue
            if isinstance(n.func, ast.Attribute) and n.func.attr in _PURE_METHODS:
                continue
            if not (isinstance(n.func, ast.Name) and n.func.id in _PURE_CALLS):
                return False
        elif isinstance(n, (ast.Lambda, ast.Await, ast.Yield, ast.YieldFrom, ast.NamedExpr, ast.ListComp, ast.SetComp, ast.DictComp,
                            ast.GeneratorExp)):
            return False
    return True


def _is_diag_output(st, inert_calls):
    """print(.., file=sys.stderr) / <ghost logger>.info(..) / a call of an inert reporting helper, with observation-pure arguments."""
    if not (isinstance(st, ast.Expr) and isinstance(st.value, ast.Call)):
        return False
    c = st.value
    args_ok = all(_obs_pure(a.value if isinstance(a, ast.Starred) else a) for a in c.args) and all(_obs_pure(k.value) for k in c.keywords)
    if not args_ok:
        return False
    if isinstance(c.func, ast.Name) and c.func.id == 'print':
        return any(k.arg == 'file' and U(k.value) == 'sys.stderr' for k in c.keywords)
    if isinstance(c.func, ast.Attribute) and c.func.attr in _LOG_METHODS and _is_ghost_logger(c.func.value):
        return True
    nm = c.func.id if isinstance(c.func, ast.Name) else (c.func.attr if isinstance(c.func, ast.Attribute) and _pure(c.func.value) else None)
    return nm in inert_calls


def drop_ghost_state(repo, refidents, refnames):
    """Step S52 (repository-wide).  *Ghost state* is state that only diagnostics can see: a local of a reference function, or an
    attribute `self.x`, that the reference tree does not have, whose every write is `ghost = <observation-pure value>` (pure, or a
    clock reading) and whose every read sits (a) in an argument of a diagnostic output (stderr print, logger call, inert reporting
    helper), (b) in the value of another ghost write, (c) in the test of an `if` that guards nothing but ghost writes and diagnostic
    output, or (d) in a `__repr__` / `__str__` the reference tree does not have (assumption A12: the textual form of the project's
    objects is not part of any output).  Counters, timers and "peak" trackers added for observability are of this kind.  All ghost
    writes (and the ifs of kind c) are removed; what they fed - the diagnostics - is removed by S10.  Loggers: a module-level
    name bound to logging.getLogger(..) that the reference tree does not have, in a module whose logging set-up never mentions
    sys.stdout, is a ghost logger (its method calls are diagnostic output).  Returns the number of statements removed."""
    if os.environ.get('SA_KEEP_INERT') == '1':
        return 0
    _GHOST_LOGGERS.clear()
    _GHOST_LOGGER_FACTORIES.clear()
    ref_fns = refshapes()
    stdout_logging = any(isinstance(n, ast.Call) and U(n.func) == 'logging.basicConfig' and 'stdout' in U(n)
                         for m in repo.modules.values() for n in ast.walk(m.tree))
    for rel, m in repo.modules.items():
        if stdout_logging:
            break
        mentions_stdout = any('sys.stdout' in U(st) or 'FileHandler' in U(st) for st in m.tree.body
                              if not isinstance(st, (ast.FunctionDef, ast.AsyncFunctionDef, ast.ClassDef)) and 'logging' in U(st))
        # a new function that gets, configures (never with sys.stdout / a file) and returns a logger
        for lname, fn in m.funcs.items():
            if (rel + '::' + lname) in ref_fns or '.' in lname or lname in refidents or not isinstance(fn, ast.FunctionDef):
                continue
            got = {st.targets[0].id for st in ast.walk(fn) if isinstance(st, ast.Assign) and len(st.targets) == 1
                   and isinstance(st.targets[0], ast.Name) and isinstance(st.value, ast.Call) and U(st.value.func) == 'logging.getLogger'}
            rets = [r for r in ast.walk(fn) if isinstance(r, ast.Return)]
            if got and rets and all(isinstance(r.value, ast.Name) and r.value.id in got for r in rets) \
                    and not any((isinstance(x, ast.Attribute) and x.attr in ('stdout', '__stdout__', 'FileHandler', 'RotatingFileHandler'))
                                or (isinstance(x, ast.Name) and x.id in ('stdout', 'FileHandler')) for x in ast.walk(fn)):
                _GHOST_LOGGER_FACTORIES.add(lname)
    for rel, m in repo.modules.items():
        if stdout_logging:
            break
        mentions_stdout = any('sys.stdout' in U(st) or 'FileHandler' in U(st) for st in m.tree.body
                              if not isinstance(st, (ast.FunctionDef, ast.AsyncFunctionDef, ast.ClassDef)) and 'logging' in U(st))
        if mentions_stdout:
            continue
        for st in ast.walk(m.tree):
            if isinstance(st, ast.Assign) and len(st.targets) == 1 and isinstance(st.targets[0], ast.Name) \
                    and isinstance(st.value, ast.Call) and (U(st.value.func) == 'logging.getLogger' or _is_ghost_logger(st.value)) \
                    and st.targets[0].id not in refidents:
                _GHOST_LOGGERS.add(st.targets[0].id)
    inert_by_mod = {rel: inert_helpers(rel, m) for rel, m in repo.modules.items()}
    all_inert = set().union(*inert_by_mod.values()) if inert_by_mod else set()
    all_inert = {n for n in all_inert if n not in refidents}
    # candidates
    cand_attrs = set()
    for rel, m in repo.modules.items():
        for n in ast.walk(m.tree):
            if isinstance(n, ast.Attribute) and isinstance(n.ctx, ast.Store) and isinstance(n.value, ast.Name) and n.value.id == 'self' \
                    and n.attr not in refidents:
                cand_attrs.add(n.attr)
    # an attribute that is also named by a string (getattr / hasattr / setattr / __dict__ lookups) is not followed: not a candidate
    for rel, m in repo.modules.items():
        for n in ast.walk(m.tree):
            if isinstance(n, ast.Constant) and isinstance(n.value, str) and n.value in cand_attrs:
                cand_attrs.discard(n.value)
    fn_of = {}
    cand_locals = {}        # (rel, lname) -> set(names)
    for rel, m in repo.modules.items():
        for lname, fn in m.funcs.items():
            if not isinstance(fn, (ast.FunctionDef, ast.AsyncFunctionDef)):
                continue
            q = rel + '::' + lname
            if q not in refnames:
                continue
            ref = set(refnames[q])
            ps = {a.arg for a in fn.args.args + fn.args.kwonlyargs + fn.args.posonlyargs} | \
                 ({fn.args.vararg.arg} if fn.args.vararg else set()) | ({fn.args.kwarg.arg} if fn.args.kwarg else set())
            declared = {x for n in ast.walk(fn) if isinstance(n, (ast.Global, ast.Nonlocal)) for x in n.names}
            names = set()
            for n in ast.walk(fn):
                if isinstance(n, ast.Name) and isinstance(n.ctx, ast.Store) and n.id not in ref and n.id not in ps and n.id not in declared:
                    names.add(n.id)
            if names:
                cand_locals[(rel, lname)] = names
    if not cand_attrs and not cand_locals:
        return 0

    def ghost_target(t, locs):
        if isinstance(t, ast.Name):
            return t.id in locs
        if isinstance(t, ast.Attribute) and isinstance(t.value, ast.Name) and t.value.id == 'self':
            return t.attr in cand_attrs
        return False

    def is_ghost_write(st, locs):
        # a diagnostic record kept in a ghost LOCAL container: t.append(<observation-pure>), t[k] = v, t[k] += v
        # (only for a local whose every binding is a NEW container - never an alias of existing state)
        if isinstance(st, ast.Expr) and isinstance(st.value, ast.Call) and isinstance(st.value.func, ast.Attribute) \
                and isinstance(st.value.func.value, ast.Name) and st.value.func.value.id in locs \
                and st.value.func.value.id in own_containers \
                and st.value.func.attr in ('append', 'extend', 'add', 'update', 'insert') and not st.value.keywords \
                and all(_obs_pure(a) for a in st.value.args):
            return True
        if isinstance(st, (ast.Assign, ast.AugAssign)):
            tg = st.targets[0] if isinstance(st, ast.Assign) and len(st.targets) == 1 else getattr(st, 'target', None)
            if isinstance(tg, ast.Subscript) and isinstance(tg.value, ast.Name) and tg.value.id in locs and tg.value.id in own_containers \
                    and _obs_pure(tg.slice) and _obs_pure(st.value):
                return True
        if isinstance(st, ast.Assign):
            return all(ghost_target(t, locs) for t in st.targets) and _obs_pure(st.value)
        if isinstance(st, ast.AugAssign):
            return ghost_target(st.target, locs) and _obs_pure(st.value)
        if isinstance(st, ast.AnnAssign):
            return st.value is not None and ghost_target(st.target, locs) and _obs_pure(st.value)
        return False

    def is_ghost_stmt(st, locs):
        if is_ghost_write(st, locs) or _is_diag_output(st, all_inert):
            return True
        if isinstance(st, ast.If) and _pure(st.test) and st.body and all(is_ghost_stmt(b, locs) for b in st.body) \
                and all(is_ghost_stmt(b, locs) for b in st.orelse):
            return True
        return False

    own_containers = set()

    def new_containers_of(fn):
        binds = {}
        for n in ast.walk(fn):
            if isinstance(n, ast.Assign):
                for t in n.targets:
                    for leaf in (t.elts if isinstance(t, (ast.Tuple, ast.List)) else [t]):
                        if isinstance(leaf, ast.Name):
                            v = n.value
                            fresh = (isinstance(v, (ast.List, ast.Dict, ast.Set)) and not isinstance(t, (ast.Tuple, ast.List))) or \
                                (isinstance(v, ast.Call) and U(v.func) in ('list', 'dict', 'set', 'collections.Counter', 'Counter',
                                                                            'collections.defaultdict', 'defaultdict', 'collections.OrderedDict')
                                 and not isinstance(t, (ast.Tuple, ast.List))
                                 and all(isinstance(a, (ast.Name, ast.Constant)) and U(a) in ('int', 'list', 'float') for a in v.args))
                            binds.setdefault(leaf.id, []).append(fresh)
            elif isinstance(n, ast.Name) and isinstance(n.ctx, ast.Store):
                pass
        stores = {}
        for n in ast.walk(fn):
            if isinstance(n, ast.Name) and isinstance(n.ctx, (ast.Store, ast.Del)):
                stores[n.id] = stores.get(n.id, 0) + 1
        return {k for k, v in binds.items() if all(v) and stores.get(k) == len(v)}

    changed = True
    rounds = 0
    while changed and rounds < 10:
        changed = False
        rounds += 1
        bad_attrs = set()
        for rel, m in repo.modules.items():
            for lname, fn in m.funcs.items():
                if not isinstance(fn, (ast.FunctionDef, ast.AsyncFunctionDef)):
                    continue
                locs = cand_locals.get((rel, lname), set())
                own_containers.clear()
                own_containers.update(new_containers_of(fn))
                fresh_repr = lname.rpartition('.')[2] in ('__repr__', '__str__') and (rel + '::' + lname) not in refnames
                bad_locs = set()

                def visit_block(blk):
                    for st in blk:
                        if is_ghost_stmt(st, locs):
                            # writes whose form is not a plain ghost write were excluded by is_ghost_stmt; reads inside are fine
                            continue
                        # a non-ghost statement: every candidate it reads or writes at its own level is disqualified
                        subs = []
                        for f_ in ('body', 'orelse', 'finalbody'):
                            b_ = getattr(st, f_, None)
                            if isinstance(b_, list) and b_ and isinstance(b_[0], ast.stmt):
                                subs.append(b_)
                        for h in getattr(st, 'handlers', []) or []:
                            subs.append(h.body)
                        own = [x for f_, x in ast.iter_fields(st) if f_ not in ('body', 'orelse', 'finalbody', 'handlers')]
                        if isinstance(st, (ast.FunctionDef, ast.AsyncFunctionDef, ast.ClassDef)):
                            own, subs = [st], []
                        for o in own:
                            for x in (o if isinstance(o, list) else [o]):
                                if not isinstance(x, ast.AST):
                                    continue
                                for y in ast.walk(x):
                                    if isinstance(y, ast.Name) and y.id in locs:
                                        bad_locs.add(y.id)
                                    if isinstance(y, ast.Attribute) and y.attr in cand_attrs and not fresh_repr:
                                        bad_attrs.add(y.attr)
                        for b_ in subs:
                            visit_block(b_)
                visit_block(fn.body)
                if bad_locs & locs:
                    cand_locals[(rel, lname)] = locs - bad_locs
                    changed = True
            # attribute reads outside functions (class bodies, module level)
            for st in m.tree.body:
                if not isinstance(st, (ast.FunctionDef, ast.AsyncFunctionDef, ast.ClassDef)):
                    for y in ast.walk(st):
                        if isinstance(y, ast.Attribute) and y.attr in cand_attrs:
                            bad_attrs.add(y.attr)
        if bad_attrs & cand_attrs:
            cand_attrs -= bad_attrs
            changed = True
    removed = 0
    for rel, m in repo.modules.items():
        touched = False
        for lname, fn in m.funcs.items():
            if not isinstance(fn, (ast.FunctionDef, ast.AsyncFunctionDef)):
                continue
            locs = cand_locals.get((rel, lname), set())
            if not locs and not cand_attrs:
                continue
            own_containers.clear()
            own_containers.update(new_containers_of(fn))

            def strip(blk):
                nonlocal removed, touched
                out = []
                for st in blk:
                    if is_ghost_write(st, locs) or (isinstance(st, ast.If) and is_ghost_stmt(st, locs)
                                                    and any(is_ghost_write(x, locs) for x in ast.walk(st) if isinstance(x, ast.stmt))):
                        removed += 1
                        touched = True
                        continue
                    for f_ in ('body', 'orelse', 'finalbody'):
                        b_ = getattr(st, f_, None)
                        if isinstance(b_, list) and b_ and isinstance(b_[0], ast.stmt) and not isinstance(st, (ast.FunctionDef, ast.AsyncFunctionDef, ast.ClassDef)):
                            nb = strip(b_)
                            setattr(st, f_, nb if nb or f_ != 'body' else [ast.copy_location(ast.Pass(), st)])
                    for h in getattr(st, 'handlers', []) or []:
                        h.body = strip(h.body) or [ast.copy_location(ast.Pass(), h)]
                    out.append(st)
                return out
            nb = strip(fn.body)
            fn.body = nb or [ast.copy_location(ast.Pass(), fn)]
        if touched:
            m.reindex()
    return removed


def restore_instance_methods(repo):
    """Step S55.  A method that does not use `self` and was given `@staticmethod` (its `self` parameter dropped) gets both back when the
    reference has it as an instance method: every call `self.m(..)` / `obj.m(..)` binds the same arguments either way.  Returns the
    number of methods restored."""
    ref = refshapes()
    n = 0
    for rel, m in repo.modules.items():
        touched = False
        for lname, fn in m.funcs.items():
            r = ref.get(rel + '::' + lname)
            if not r or '.' not in lname or not isinstance(fn, ast.FunctionDef) or 'params' not in r:
                continue
            decs = [d for d in fn.decorator_list if isinstance(d, ast.Name) and d.id == 'staticmethod']
            want = list(r['params'])
            cur = [a.arg for a in fn.args.args]
            if decs and want and want[0] == 'self' and len(cur) == len(want) - 1 and 'self' not in cur \
                    and not any(isinstance(x, ast.Name) and x.id == 'self' for x in ast.walk(fn)):
                fn.args.args.insert(0, ast.arg(arg='self', annotation=None))
                fn.decorator_list = [d for d in fn.decorator_list if d not in decs]
                ast.fix_missing_locations(fn)
                n += 1
                touched = True
        if touched:
            m.reindex()
    return n


def strip_local_annotations(module):
    """Step S40.  Inside functions `x: T = v` / `self.a: T = v` -> the plain assignment, and a bare `x: T` is dropped: inside a
    function an annotation is never evaluated (PEP 526), so the statement is the plain assignment.  (Module and class level
    annotations are evaluated and kept.)"""
    n = 0
    for fn in ast.walk(module.tree):
        if not isinstance(fn, (ast.FunctionDef, ast.AsyncFunctionDef)):
            continue
        for owner in ast.walk(fn):
            if isinstance(owner, ast.ClassDef):
                continue
            for field in ('body', 'orelse', 'finalbody'):
                blk = getattr(owner, field, None)
                if not (isinstance(blk, list) and blk and isinstance(blk[0], ast.stmt)):
                    continue
                out = []
                for st in blk:
                    if isinstance(st, ast.AnnAssign) and (isinstance(st.target, ast.Name) or
                                                         (isinstance(st.target, (ast.Attribute, ast.Subscript)) and
                                                          (st.value is not None or _pure(st.target)))):
                        n += 1
                        if st.value is not None:
                            out.append(ast.copy_location(ast.Assign(targets=[st.target], value=st.value), st))
                        continue
                    out.append(st)
                if len(out) != len(blk) or any(a is not b for a, b in zip(out, blk)):
                    blk[:] = out or [ast.copy_location(ast.Pass(), blk[0])]
    if n:
        ast.fix_missing_locations(module.tree)
    return n


def normalise_function_names(repo):
    """Step S41.  A function of the reference tree that is gone while a new one with the same place (module; same class, or a
    method that became a module-level function of the same module), the same number of parameters and a similar body has
    appeared was RENAMED (and possibly moved out of its class): the definition and every reference to the new name (calls,
    attribute accesses, imports) get the reference name - and place - back, repository-wide.  Renamed parameters are mapped
    positionally before bodies are compared.  Only names that occur nowhere in the reference tree are mapped, and only when the
    match is unique."""
    import copy as _c9
    ref = refshapes()
    refn = {}
    for q in ref:
        rel, _, ln = q.partition('::')
        refn.setdefault(rel, set()).add(ln)
    all_ref_simple = {ln.rpartition('.')[2] for s_ in refn.values() for ln in s_}
    mapping = {}
    moved = {}
    for rel, m in repo.modules.items():
        want = refn.get(rel)
        if not want:
            continue
        have = {ln for ln in m.funcs if '<locals>' not in ln}
        gone = sorted(want - have)
        new = sorted(ln for ln in have - want if ln.rpartition('.')[2] not in all_ref_simple)
        if not gone or not new:
            continue
        for g in gone:
            gcls, _, gname = g.rpartition('.')
            r = ref[rel + '::' + g]
            rps = list(r.get('params', ()))
            want_st = {t_ for t_ in r.get('stmts', ()) if not t_.lstrip().startswith(("'", '"'))}      # docstrings are not behaviour
            if not want_st:
                continue
            cands = []
            for nw in new:
                ncls, _, nname = nw.rpartition('.')
                fn = m.funcs[nw]
                ps = [a.arg for a in fn.args.posonlyargs + fn.args.args]
                was_method = False
                if ncls == gcls:
                    if 'params' in r and len(ps) != len(rps):
                        continue
                    pmap = dict(zip(ps, rps)) if 'params' in r else {}
                elif gcls and not ncls and rps and rps[0] in ('self', 'cls') and len(ps) == len(rps) - 1:
                    # a method that never used self, now a function of the same module
                    pmap = dict(zip(ps, rps[1:]))
                    was_method = True
                else:
                    continue
                f2 = _c9.deepcopy(fn)
                if any(k != v for k, v in pmap.items()):
                    for x in ast.walk(f2):
                        if isinstance(x, ast.Name) and x.id in pmap:
                            x.id = pmap[x.id]
                have_st = {U(x) for x in ast.walk(f2) if isinstance(x, (ast.Assign, ast.AugAssign, ast.Return, ast.Expr)) and not
                           (isinstance(x, ast.Expr) and isinstance(x.value, ast.Constant))}
                sim = len(have_st & want_st) / max(1, len(have_st | want_st))
                if sim < 0.5:
                    # the same statements up to the names of locals (a comprehension variable renamed, ...)
                    def anon(txt):
                        try:
                            t_ = ast.parse(txt)
                        except SyntaxError:
                            return txt
                        for x_ in ast.walk(t_):
                            if isinstance(x_, ast.Name):
                                x_.id = '_'
                            elif isinstance(x_, ast.arg):
                                x_.arg = '_'
                        return U(t_)
                    ha, wa = sorted(anon(t_) for t_ in have_st), sorted(anon(t_) for t_ in want_st)
                    if ha == wa:
                        sim = 0.9
                    else:
                        # several helpers renamed at once call each other under their new names, and a formatter re-spells a few
                        # statements: compare the name-free statements as multisets, calls of other renamed / gone helpers blanked
                        import collections as _col
                        moved_names = {x_.rpartition('.')[2] for x_ in new} | {x_.rpartition('.')[2] for x_ in gone}

                        def blank(txt):
                            try:
                                t_ = ast.parse(txt)
                            except SyntaxError:
                                return txt
                            for x_ in ast.walk(t_):
                                if isinstance(x_, ast.Name):
                                    x_.id = '_'
                                elif isinstance(x_, ast.arg):
                                    x_.arg = '_'
                                elif isinstance(x_, ast.Attribute) and x_.attr in moved_names:
                                    x_.attr = '_h'
                            return U(t_)
                        hb, wb = _col.Counter(blank(t_) for t_ in have_st), _col.Counter(blank(t_) for t_ in want_st)
                        inter = sum((hb & wb).values())
                        union = sum((hb | wb).values())
                        if union and inter / union >= 0.6:
                            sim = 0.5 + 0.4 * inter / union
                if sim >= 0.5:
                    cands.append((sim, nw, was_method, pmap))
            if len(cands) > 1:
                # several new functions look similar: the best one must stand out
                cands.sort(key=lambda c_: -c_[0])
                if cands[0][0] - cands[1][0] >= 0.15:
                    cands = cands[:1]
            if len(cands) == 1:
                sim, nw, was_method, pmap = cands[0]
                mapping[(rel, nw)] = g
                if was_method:
                    moved[(rel, nw)] = (g, pmap)
    if not mapping:
        return {}
    simple = {}
    for (rel, nw), g in mapping.items():
        a, b = nw.rpartition('.')[2], g.rpartition('.')[2]
        if a in simple and simple[a] != b:
            return {}
        simple[a] = b
    # functions that left their class: every call must be a plain call from inside a method of that class, else give up on them
    for (rel, nw), (g, pmap) in list(moved.items()):
        m = repo.modules[rel]
        gcls = g.rpartition('.')[0]
        cls = m.classes.get(gcls)
        fn = m.funcs[nw]
        ok = cls is not None
        inside = set()
        if ok:
            for meth in cls.body:
                for x in ast.walk(meth):
                    inside.add(id(x))
        refs = [x for m2 in repo.modules.values() for x in ast.walk(m2.tree)
                if (isinstance(x, ast.Name) and x.id == nw) or (isinstance(x, ast.Attribute) and x.attr == nw) or
                (isinstance(x, ast.alias) and x.name == nw)]
        calls = [x for x in ast.walk(m.tree) if isinstance(x, ast.Call) and isinstance(x.func, ast.Name) and x.func.id == nw]
        if not ok or len(refs) != len(calls) or any(id(c) not in inside for c in calls):
            del mapping[(rel, nw)]
            simple.pop(nw, None)
            del moved[(rel, nw)]
            continue
        # move the definition back into the class as a method and call it through self
        m.tree.body.remove(fn)
        selfname = (ref[rel + '::' + g].get('params') or ['self'])[0]
        fn.args.args.insert(0, ast.arg(arg=selfname))
        cls.body.append(fn)
        for c in calls:
            c.func = ast.copy_location(ast.Attribute(value=ast.Name(id='self', ctx=ast.Load()), attr=nw, ctx=ast.Load()), c.func)
        ast.fix_missing_locations(m.tree)
    if not mapping:
        return {}
    for rel, m in repo.modules.items():
        changed = False
        for x in ast.walk(m.tree):
            if isinstance(x, (ast.FunctionDef, ast.AsyncFunctionDef)) and x.name in simple:
                x.name = simple[x.name]
                changed = True
            elif isinstance(x, ast.Name) and x.id in simple:
                x.id = simple[x.id]
                changed = True
            elif isinstance(x, ast.Attribute) and x.attr in simple:
                x.attr = simple[x.attr]
                changed = True
            elif isinstance(x, ast.alias) and x.name in simple:
                x.name = simple[x.name]
                changed = True
        if changed or any(k[0] == rel for k in moved):
            m.reindex()
    return {'%s::%s' % k: v for k, v in mapping.items()}


def fold_get_guards(fn, shapes):
    """Step S39.  `X.get(K) is None` / `is not None` in a test  ->  `K not in X` / `K in X`, and under such a guard
    `X.get(K)` -> `X[K]`.  Equal whenever no value stored in X is None - the tables this code base keeps in dictionaries hold
    lists, dicts, numbers and strings (assumption A9, DESIGN section 3); applied only when the resulting membership test /
    subscript is one the reference function has."""
    cmps = set(shapes.get('cmp', ())) | set(shapes.get('tests', ()))
    subs = set(shapes.get('subs', ())) | cmps | set(shapes.get('stmts', ()))
    steps = []

    def as_get(e):
        if isinstance(e, ast.Call) and isinstance(e.func, ast.Attribute) and e.func.attr == 'get' and len(e.args) == 1 and not e.keywords \
                and _pure(e.func.value) and _pure(e.args[0]):
            return e.func.value, e.args[0]
        return None

    class Tests(ast.NodeTransformer):
        def visit_Compare(self, n):
            self.generic_visit(n)
            if len(n.ops) == 1 and isinstance(n.ops[0], (ast.Is, ast.IsNot)) and isinstance(n.comparators[0], ast.Constant) \
                    and n.comparators[0].value is None:
                g = as_get(n.left)
                if g is not None:
                    new = ast.Compare(left=g[1], ops=[ast.NotIn() if isinstance(n.ops[0], ast.Is) else ast.In()], comparators=[g[0]])
                    alt = ast.Compare(left=g[1], ops=[ast.In() if isinstance(n.ops[0], ast.Is) else ast.NotIn()], comparators=[g[0]])
                    if U(new) in cmps or U(alt) in cmps:
                        steps.append('S39 %s' % U(n)[:60])
                        return _relocate(new, n)
            return n

    def subst(node, known):
        class G(ast.NodeTransformer):
            def visit_Call(self, c):
                self.generic_visit(c)
                g = as_get(c)
                if g is not None and (U(g[0]), U(g[1])) in known:
                    new = ast.Subscript(value=g[0], slice=g[1], ctx=ast.Load())
                    if U(new) in subs or any(U(new) in t for t in subs):
                        steps.append('S39 %s -> %s' % (U(c)[:40], U(new)[:40]))
                        return _relocate(new, c)
                return c
        return G().visit(node)

    def pair_of(test, positive):
        """the (X, K) made present by `test` being true (positive) / false"""
        if isinstance(test, ast.Compare) and len(test.ops) == 1:
            if isinstance(test.ops[0], ast.In) and positive:
                return (U(test.comparators[0]), U(test.left))
            if isinstance(test.ops[0], ast.NotIn) and not positive:
                return (U(test.comparators[0]), U(test.left))
        return None

    def stored_names(st):
        return {x.id for x in ast.walk(st) if isinstance(x, ast.Name) and isinstance(x.ctx, (ast.Store, ast.Del))}

    def names_of(pair):
        out = set()
        for t in pair:
            try:
                out |= {x.id for x in ast.walk(ast.parse(t, mode='eval')) if isinstance(x, ast.Name)}
            except SyntaxError:
                pass
        return out

    def walk(block, known):
        known = set(known)
        for i, st in enumerate(block):
            if isinstance(st, ast.If):
                st.test = Tests().visit(subst(st.test, known))
                p_t, p_f = pair_of(st.test, True), pair_of(st.test, False)
                walk(st.body, known | ({p_t} if p_t else set()))
                walk(st.orelse, known | ({p_f} if p_f else set()))
                if p_f and _terminates(st.body) and not st.orelse:
                    known.add(p_f)
                if p_t and _terminates(st.orelse) and st.orelse:
                    known.add(p_t)
            elif isinstance(st, (ast.For, ast.While)):
                killed = stored_names(st)
                inner = {p for p in known if not (names_of(p) & killed)}
                if isinstance(st, ast.For):
                    st.iter = subst(st.iter, known)
                else:
                    st.test = Tests().visit(subst(st.test, inner))
                walk(st.body, inner)
                walk(st.orelse, inner)
                known = inner
            elif isinstance(st, ast.Try):
                walk(st.body, known)
                for h in st.handlers:
                    walk(h.body, set())
                walk(st.orelse, set())
                walk(st.finalbody, set())
                known = set()
            elif isinstance(st, ast.With):
                walk(st.body, known)
                known = set()
            elif isinstance(st, (ast.FunctionDef, ast.AsyncFunctionDef, ast.ClassDef)):
                pass
            else:
                block[i] = subst(st, known)
                killed = stored_names(st)
                known = {p for p in known if not (names_of(p) & killed)}
    if any(as_get(x) is not None for x in ast.walk(fn)):
        walk(fn.body, set())
    return steps


def canonicalise(rel, module):
    """Canonicalise every function of `module` that has a reference entry; returns {function: [steps]}."""
    ref = refshapes()
    done = {}
    inert = inert_helpers(rel, module)
    for lname, fn in list(module.funcs.items()):
        r = ref.get(rel + '::' + lname)
        if r is None:
            continue
        c = _Canon(r)
        c.fn = fn
        c.inert_calls = inert
        got = fold_get_guards(fn, r)
        if got:
            c.steps.extend(got)
        c.ref_names = set(refnames_of(rel + '::' + lname))
        c.loaded = {x.id for x in ast.walk(fn) if isinstance(x, ast.Name) and isinstance(x.ctx, ast.Load)}
        c.generic_visit(fn)          # fn itself is a scope node: visit its children
        # S30 guard clause with a bare return at function level
        body = fn.body
        for i_, st_ in enumerate(body):
            if isinstance(st_, ast.If) and not st_.orelse and len(st_.body) == 1 and isinstance(st_.body[0], ast.Return) \
                    and (st_.body[0].value is None or (isinstance(st_.body[0].value, ast.Constant) and st_.body[0].value.value is None)) \
                    and U(st_.test) not in c.tests and U(_negate(st_.test)) in c.tests and i_ + 1 < len(body):
                rest_ = body[i_ + 1:]
                # the function must fall off its end (or end in a bare return) and REST must not return a value either
                ok_ = not any(isinstance(x, ast.Return) and x.value is not None and not (isinstance(x.value, ast.Constant) and x.value.value is None)
                              for r_ in rest_ for x in ast.walk(r_))
                if ok_:
                    st_.test = _negate(st_.test)
                    st_.body = rest_
                    fn.body = body[:i_ + 1]
                    c.steps.append('S30 guard clause folded')
                    break
        if c.steps:
            ast.fix_missing_locations(fn)
            done[lname] = c.steps
    return done


# ---------------------------------------------------------------------------------------------------------------
def _once_first_hosts(st):
    """Expressions of statement `st` that are evaluated exactly once, before anything else of the statement runs."""
    if isinstance(st, (ast.Assign, ast.AugAssign, ast.AnnAssign, ast.Return, ast.Expr)):
        return [st.value] if st.value is not None else []
    if isinstance(st, ast.If):
        return [st.test]
    if isinstance(st, ast.For):
        return [st.iter]
    if isinstance(st, ast.With):
        return [i.context_expr for i in st.items[:1]]
    return []


def _walk_no_defer(e):
    """Sub-expressions of e that are evaluated unconditionally when e is (not under lambda/comprehension/and/or/ifexp arms)."""
    todo = [e]
    while todo:
        n = todo.pop()
        yield n
        if isinstance(n, (ast.Lambda, ast.ListComp, ast.SetComp, ast.DictComp, ast.GeneratorExp)):
            continue
        if isinstance(n, ast.BoolOp):
            todo.append(n.values[0])
            continue
        if isinstance(n, ast.IfExp):
            todo.append(n.test)
            continue
        todo.extend(ast.iter_child_nodes(n))


def _builds_container(v):
    """The value of v is itself a freshly built list / dict / set (display, comprehension, or a +-concatenation of such) - as
    opposed to a scalar computed from one (json.dumps([...]), len([...]), ''.join([...]))."""
    if isinstance(v, (ast.List, ast.Dict, ast.Set, ast.ListComp, ast.DictComp, ast.SetComp, ast.GeneratorExp)):
        return True
    if isinstance(v, ast.BinOp) and isinstance(v.op, ast.Add):
        return _builds_container(v.left) or _builds_container(v.right)
    if isinstance(v, ast.Call) and isinstance(v.func, ast.Name) and v.func.id in ('list', 'dict', 'set', 'sorted', 'Counter'):
        return True
    return False


def _stmt_index(fn):
    """id(expression node) -> (innermost statement, the For statement when the node sits in that loop's iterable else None)."""
    out = {}

    def visit(st):
        for field, val in ast.iter_fields(st):
            vals = val if isinstance(val, list) else [val]
            for child in vals:
                if isinstance(child, ast.stmt):
                    visit(child)
                elif isinstance(child, ast.ExceptHandler):
                    if child.type is not None:
                        for x in ast.walk(child.type):
                            out[id(x)] = (st, None)
                    for b in child.body:
                        visit(b)
                elif isinstance(child, ast.AST):
                    in_iter = st if (isinstance(st, (ast.For, ast.AsyncFor)) and field == 'iter') else None
                    for x in ast.walk(child):
                        out[id(x)] = (st, in_iter)
    for b in fn.body:
        visit(b)
    return out


def _kills_cannot_reach_uses(fn, kill_nodes, use_nodes, def_stmt=None):
    """Path-sensitive part of S9's stability test: True when no statement that changes an input of the temporary's value can be
    followed, on any path of the statement CFG, by a statement that reads the temporary.  The iterable of a `for` is evaluated
    once, on entry: edges from the loop's own body back into its header do not count as reaching that use."""
    try:
        from .cfg import CFG
        cfg = CFG(fn)
    except Exception:
        return False
    idx = _stmt_index(fn)
    kills = set()
    for k in kill_nodes:
        ent = idx.get(id(k))
        if ent is None or cfg.node_of(ent[0]) is None:
            return False
        kills.add(cfg.node_of(ent[0]))
    uses = []
    for u in use_nodes:
        ent = idx.get(id(u))
        if ent is None or cfg.node_of(ent[0]) is None:
            return False
        st, in_iter = ent
        body_nodes = set()
        if in_iter is not None:
            for b in in_iter.body:
                for x in ast.walk(b):
                    if isinstance(x, ast.stmt) and cfg.node_of(x) is not None:
                        body_nodes.add(cfg.node_of(x))
        uses.append((cfg.node_of(st), body_nodes))
    barrier = cfg.node_of(def_stmt) if def_stmt is not None else None     # passing the definition again refreshes the value
    for k in kills:
        for un, blocked in uses:
            seen = set() if barrier is None else {barrier}
            todo = [b for b, lab in cfg.succ[k] if not (b == un and k in blocked)]
            while todo:
                a = todo.pop()
                if a in seen:
                    continue
                seen.add(a)
                if a == un:
                    return False
                for b, lab in cfg.succ[a]:
                    if b == un and a in blocked:
                        continue
                    todo.append(b)
    return True


def inline_fresh_temps(rel, module, refnames):
    """Step S9.  Returns {function: [inlined names]}."""
    ref = refshapes()
    done = {}
    for lname, fn in list(module.funcs.items()):
        q = rel + '::' + lname
        if q not in ref:
            continue
        want = set(refnames.get(q, ()))
        params = {a.arg for a in fn.args.posonlyargs + fn.args.args + fn.args.kwonlyargs}
        # attributes of self that some method other than __init__ (re)binds: reading them through a temporary is only stable if no
        # method is called in between
        rebound_attrs = set()
        cls_name = lname.rpartition('.')[0]
        for ln2, f2 in module.funcs.items():
            if cls_name and ln2.startswith(cls_name + '.') and not ln2.endswith('.__init__'):
                for x in ast.walk(f2):
                    if isinstance(x, ast.Attribute) and isinstance(x.ctx, (ast.Store, ast.Del)) and isinstance(x.value, ast.Name) and x.value.id == 'self':
                        rebound_attrs.add(x.attr)
        # S20: `a, b = E` with fresh a, b and E a plain name / attribute / subscript: treated as a = E[0]; b = E[1]
        for owner in ast.walk(fn):
            for field in ('body', 'orelse', 'finalbody'):
                blk = getattr(owner, field, None)
                if not (isinstance(blk, list) and blk and isinstance(blk[0], ast.stmt)):
                    continue
                k = 0
                while k < len(blk):
                    stx = blk[k]
                    ref_stmts_ = ref[q].get('stmts', ())
                    if isinstance(stx, ast.Assign) and len(stx.targets) == 1 and isinstance(stx.targets[0], ast.Tuple) \
                            and all(isinstance(e, ast.Name) and e.id not in params and
                                    (e.id not in want or any(t_.startswith(e.id + ' = ') for t_ in ref_stmts_)) for e in stx.targets[0].elts) \
                            and not any(isinstance(x, ast.Name) and x.id in {e.id for e in stx.targets[0].elts} for x in ast.walk(stx.value)) \
                            and U(stx) not in ref_stmts_ \
                            and (_simple_arg(stx.value) or (isinstance(stx.value, ast.Subscript) and _pure(stx.value)) or
                                 (isinstance(stx.value, ast.Call) and _pure(stx.value) and not _builds_container(stx.value))) \
                            and not isinstance(stx.value, ast.Constant) and len(stx.targets[0].elts) <= 4:
                        import copy as _cc2
                        rep = []
                        for idx, e in enumerate(stx.targets[0].elts):
                            a_ = ast.Assign(targets=[ast.Name(id=e.id, ctx=ast.Store())],
                                            value=ast.Subscript(value=_cc2.deepcopy(stx.value), slice=ast.Constant(value=idx), ctx=ast.Load()))
                            rep.append(_relocate(a_, stx))
                        blk[k:k + 1] = rep
                        k += len(rep)
                        continue
                    if isinstance(stx, ast.Assign) and len(stx.targets) == 1 and isinstance(stx.targets[0], ast.Tuple) \
                            and isinstance(stx.value, ast.Tuple) and len(stx.value.elts) == len(stx.targets[0].elts) \
                            and all(isinstance(e, ast.Name) and e.id not in params and
                                    (e.id not in want or any(t_.startswith(e.id + ' = ') for t_ in ref_stmts_)) for e in stx.targets[0].elts) \
                            and U(stx) not in ref_stmts_ \
                            and all(_pure(v) for v in stx.value.elts):
                        tn = {e.id for e in stx.targets[0].elts}
                        if not any(isinstance(x, ast.Name) and x.id in tn for v in stx.value.elts for x in ast.walk(v)):
                            rep = [_relocate(ast.Assign(targets=[ast.Name(id=e.id, ctx=ast.Store())], value=v), stx)
                                   for e, v in zip(stx.targets[0].elts, stx.value.elts)]
                            blk[k:k + 1] = rep
                            k += len(rep)
                            continue
                    k += 1
        changed = True
        names = []
        guard = 0
        while changed and guard < 50:
            changed = False
            guard += 1
            stores, loads = {}, {}
            for n in ast.walk(fn):
                if isinstance(n, ast.Name):
                    (stores if isinstance(n.ctx, (ast.Store, ast.Del)) else loads).setdefault(n.id, []).append(n)
                elif isinstance(n, (ast.Global, ast.Nonlocal)):
                    for nm in n.names:
                        stores.setdefault(nm, []).extend([None, None])
            for blk_owner in ast.walk(fn):
                for field in ('body', 'orelse', 'finalbody'):
                    blk = getattr(blk_owner, field, None)
                    if not (isinstance(blk, list) and blk and isinstance(blk[0], ast.stmt)):
                        continue
                    for i in range(len(blk) - 1):
                        st = blk[i]
                        if not (isinstance(st, ast.Assign) and len(st.targets) == 1 and isinstance(st.targets[0], ast.Name)):
                            continue
                        t = st.targets[0].id
                        if t in want or t in params or not loads.get(t):
                            continue
                        if len(stores.get(t, [])) != 1:
                            # bound several times (the same temporary in two loops): this definition owns the reads that follow it in
                            # its block up to the next statement that binds the name again
                            if any(x is None for x in stores[t]):
                                continue
                            region_end = len(blk)
                            for j in range(i + 1, len(blk)):
                                if any(isinstance(x, ast.Name) and x.id == t and isinstance(x.ctx, (ast.Store, ast.Del)) for x in ast.walk(blk[j])):
                                    region_end = j
                                    break
                            mine = [x for j in range(i + 1, region_end) for x in ast.walk(blk[j])
                                    if isinstance(x, ast.Name) and x.id == t and isinstance(x.ctx, ast.Load)]
                            if not mine or not _pure(st.value) or _builds_container(st.value):
                                continue
                            deps_ = {x.id for x in ast.walk(st.value) if isinstance(x, ast.Name)}
                            if any(isinstance(x, ast.Name) and x.id in deps_ and isinstance(x.ctx, (ast.Store, ast.Del))
                                   for j in range(i + 1, region_end) for x in ast.walk(blk[j])):
                                continue
                            if any(isinstance(x, ast.Attribute) for x in ast.walk(st.value)):
                                continue
                            # every read of the name must be owned by exactly one binding in this sense (otherwise a read could see
                            # this value along another path, e.g. on the first iteration of a later loop)
                            owned = set()
                            all_simple = True
                            for own2 in ast.walk(fn):
                                for f2 in ('body', 'orelse', 'finalbody'):
                                    b2 = getattr(own2, f2, None)
                                    if not (isinstance(b2, list) and b2 and isinstance(b2[0], ast.stmt)):
                                        continue
                                    for i2, s2 in enumerate(b2):
                                        if isinstance(s2, ast.Assign) and len(s2.targets) == 1 and isinstance(s2.targets[0], ast.Name) and s2.targets[0].id == t:
                                            e2 = len(b2)
                                            for j2 in range(i2 + 1, len(b2)):
                                                if any(isinstance(x, ast.Name) and x.id == t and isinstance(x.ctx, (ast.Store, ast.Del)) for x in ast.walk(b2[j2])):
                                                    e2 = j2
                                                    break
                                            for j2 in range(i2 + 1, e2):
                                                owned |= {id(x) for x in ast.walk(b2[j2]) if isinstance(x, ast.Name) and x.id == t and isinstance(x.ctx, ast.Load)}
                            n_assign_defs = sum(1 for x in ast.walk(fn) if isinstance(x, ast.Assign) and len(x.targets) == 1
                                                and isinstance(x.targets[0], ast.Name) and x.targets[0].id == t)
                            if n_assign_defs != len(stores[t]) or owned != {id(x) for x in loads[t]}:
                                continue
                            import copy as _cc3
                            mine_ids = {id(x) for x in mine}

                            class RR(ast.NodeTransformer):
                                def visit_Name(self, node):
                                    if id(node) in mine_ids:
                                        return _relocate(_cc3.deepcopy(st.value), node)
                                    return node
                            for j in range(i + 1, region_end):
                                blk[j] = RR().visit(blk[j])
                            del blk[i]
                            names.append(t)
                            changed = True
                            break
                        single_ok = False
                        if len(loads[t]) == 1:
                            for h in _once_first_hosts(blk[i + 1]):
                                if any(x is loads[t][0] for x in _walk_no_defer(h)):
                                    single_ok = True
                        if _builds_container(st.value) and not (single_ok and isinstance(blk[i + 1], ast.Return)
                                                                and blk[i + 1].value is loads[t][0]):
                            continue        # a value that IS a new container keeps its name (S15 / S24 work on the assignment);
                            #                 except `t = <new container>; return t`, which is `return <new container>`
                        if not single_ok:
                            # several uses (or one use that is not evaluated once-and-first): only a pure value whose inputs
                            # stay untouched until the last use
                            if not _pure(st.value):
                                continue
                            if _builds_container(st.value):
                                continue        # a display creates a new (mutable) object at every evaluation: identity matters
                            deps = {x.id for x in ast.walk(st.value) if isinstance(x, ast.Name)}
                            adeps = {U(x) for x in ast.walk(st.value) if isinstance(x, ast.Attribute)}
                            last = None
                            for j in range(i + 1, len(blk)):
                                if any(x in loads[t] for x in ast.walk(blk[j])):
                                    last = j
                            inside = sum(1 for j in range(i + 1, (last or i) + 1) for x in ast.walk(blk[j]) if any(x is u for u in loads[t]))
                            if last is None or inside != len(loads[t]):
                                continue
                            touched = False
                            kill_nodes = []
                            for j in range(i + 1, last + 1):
                                scan = blk[j]
                                if j == last and isinstance(blk[j], ast.Assign) and \
                                        not any(any(x is u for u in loads[t]) for tg_ in blk[j].targets for x in ast.walk(tg_)):
                                    scan = blk[j].value        # the value is evaluated before the targets are bound
                                for x in ast.walk(scan):
                                    if isinstance(x, ast.Name) and isinstance(x.ctx, (ast.Store, ast.Del)) and x.id in deps:
                                        touched = True
                                        kill_nodes.append(x)
                                    if isinstance(x, ast.Call) and isinstance(x.func, ast.Attribute) and isinstance(x.func.value, ast.Name) \
                                            and x.func.value.id in deps and x.func.attr in ('append', 'extend', 'insert', 'pop', 'remove',
                                                                                             'sort', 'reverse', 'clear', 'update'):
                                        touched = True
                                        kill_nodes.append(x)
                                    if adeps:
                                        if isinstance(x, (ast.Attribute, ast.Subscript)) and isinstance(x.ctx, (ast.Store, ast.Del)) \
                                                and any(U(x).startswith(a_) for a_ in adeps):
                                            touched = True
                                            kill_nodes.append(x)
                                        if j < last and isinstance(x, ast.Call) and isinstance(x.func, ast.Attribute) \
                                                and isinstance(x.func.value, ast.Name) and x.func.value.id == 'self' \
                                                and any(a_.split('.')[1] in rebound_attrs for a_ in adeps if a_.startswith('self.') and '.' in a_):
                                            touched = True        # a method call before the last use may rebind the attribute
                                            kill_nodes.append(x)
                            if touched and not _kills_cannot_reach_uses(fn, kill_nodes, loads[t], st):
                                continue
                            import copy as _cc
                            uses = list(loads[t])

                            class RM(ast.NodeTransformer):
                                def visit_Name(self, node):
                                    if any(node is u for u in uses):
                                        return _relocate(_cc.deepcopy(st.value), node)
                                    return node
                            for j in range(i + 1, last + 1):
                                blk[j] = RM().visit(blk[j])
                            del blk[i]
                            names.append(t)
                            changed = True
                            break
                        use = loads[t][0]
                        nxt = blk[i + 1]
                        host = None
                        for h in _once_first_hosts(nxt):
                            if any(x is use for x in _walk_no_defer(h)):
                                host = h
                        if host is None:
                            continue

                        class R(ast.NodeTransformer):
                            def visit_Name(self, node):
                                return _relocate(st.value, node) if node is use else node
                        if isinstance(nxt, ast.If):
                            nxt.test = R().visit(nxt.test)
                        elif isinstance(nxt, ast.For):
                            nxt.iter = R().visit(nxt.iter)
                        elif isinstance(nxt, ast.With):
                            nxt.items[0].context_expr = R().visit(nxt.items[0].context_expr)
                        else:
                            nxt.value = R().visit(nxt.value)
                        del blk[i]
                        names.append(t)
                        changed = True
                        break
                    if changed:
                        break
                if changed:
                    break
        if names:
            ast.fix_missing_locations(fn)
            done[lname] = names
    return done


# ---------------------------------------------------------------------------------------------------------------
# S13  inline helper functions that the reference does not have ("extract helper" refactorings)
def _relocate(node, where):
    """Give every node of an inlined fragment the position of the statement it now belongs to (rules order statements by
    line number)."""
    for n in ast.walk(node):
        if isinstance(n, (ast.expr, ast.stmt, ast.excepthandler, ast.arg, ast.keyword)) or hasattr(n, 'lineno'):
            n.lineno = getattr(where, 'lineno', 1)
            n.end_lineno = getattr(where, 'end_lineno', n.lineno)
            n.col_offset = getattr(where, 'col_offset', 0)
            n.end_col_offset = getattr(where, 'end_col_offset', 0)
    return node


def _simple_arg(e):
    """An argument that can be substituted for a parameter without changing evaluation count/order in any way that
    matters: names, constants, attribute chains, subscripts of those, unary minus of a constant."""
    if isinstance(e, (ast.Name, ast.Constant)):
        return True
    if isinstance(e, ast.Attribute):
        return _simple_arg(e.value)
    if isinstance(e, ast.Subscript):
        return _simple_arg(e.value) and (_simple_arg(e.slice) if not isinstance(e.slice, ast.Slice) else False)
    if isinstance(e, ast.UnaryOp) and isinstance(e.op, ast.USub) and isinstance(e.operand, ast.Constant):
        return True
    return False


class _Subst(ast.NodeTransformer):
    def __init__(self, names):
        self.names = names       # name -> replacement expression (ast) or new name (str)

    def visit_Name(self, n):
        r = self.names.get(n.id)
        if r is None:
            return n
        if isinstance(r, str):
            return ast.copy_location(ast.Name(id=r, ctx=n.ctx), n)
        if isinstance(n.ctx, ast.Load):
            import copy as _c
            return ast.copy_location(_c.deepcopy(r), n)
        return n

    def visit_ExceptHandler(self, n):
        r = self.names.get(n.name)
        if isinstance(r, str):
            n.name = r
        self.generic_visit(n)
        return n


def _helper_shape(fn):
    """(body_without_docstring, return_expr or None) if fn is an inlinable helper, else None."""
    body = list(fn.body)
    if body and isinstance(body[0], ast.Expr) and isinstance(body[0].value, ast.Constant) and isinstance(body[0].value.value, str):
        body = body[1:]
    if not body:
        return None
    for n in ast.walk(fn):
        if isinstance(n, (ast.Yield, ast.YieldFrom, ast.Global, ast.Nonlocal, ast.Lambda, ast.AsyncFunctionDef)):
            return None
        if isinstance(n, (ast.FunctionDef, ast.ClassDef)) and n is not fn:
            return None
    rets = [n for n in ast.walk(fn) if isinstance(n, ast.Return)]
    ret = None
    if rets:
        if len(rets) != 1 or body[-1] is not rets[0]:
            return None
        ret = rets[0].value
        body = body[:-1]
    if fn.args.vararg or fn.args.kwarg or fn.args.kwonlyargs or fn.args.posonlyargs:
        return None
    return body, ret


def _helper_shape_ignoring_decorators(fn):
    return _helper_shape(fn)


def _merge_suffixed_locals(fn, ref_names):
    """Locals of inlined helpers that had to be renamed away from a caller name (`line` -> `line_h5`) get the plain name back when
    their lifetime cannot overlap the plain name's: in source order the suffixed name is first bound, no occurrence of the plain
    name (or of another variant) lies between its first and last occurrence, and the next occurrence of the plain name after it -
    if any - binds it again.  (The reference function re-uses one local for consecutive blocks in exactly this way.)"""
    import re as _re
    occ = []
    for n in ast.walk(fn):
        if isinstance(n, ast.Name) and hasattr(n, 'lineno'):
            occ.append((n.lineno, n.col_offset, n))
    # inlined fragments share a line number: fall back to walk order within a line
    order = {id(n): k for k, n in enumerate(x for x in ast.walk(fn) if isinstance(x, ast.Name))}
    seq = [n for n in ast.walk(fn) if isinstance(n, ast.Name)]
    # source order approximated by a pre-order traversal of the statement list
    seq = []

    def pre(node):
        for ch in ast.iter_child_nodes(node):
            if isinstance(ch, ast.Name):
                seq.append(ch)
            pre(ch)
    pre(fn)
    fam = {}
    for n in seq:
        m = _re.match(r'^(.*)_h(\d+)$', n.id)
        base = m.group(1) if m else n.id
        fam.setdefault(base, []).append(n)
    changed = False
    for base, nodes in fam.items():
        if base not in ref_names:
            continue
        variants = sorted({n.id for n in nodes if n.id != base})
        for v in variants:
            idxs = [k for k, n in enumerate(nodes) if n.id == v]
            first, last = idxs[0], idxs[-1]
            if not isinstance(nodes[first].ctx, ast.Store):
                continue
            if any(nodes[k].id != v for k in range(first, last + 1)):
                continue
            if last + 1 < len(nodes) and not isinstance(nodes[last + 1].ctx, ast.Store):
                continue
            for k in idxs:
                nodes[k].id = base
            changed = True
    return changed


def inline_fresh_helpers(rel, module):
    """Step S13.  Returns {helper: number of call sites inlined}."""
    import copy as _c
    ref = refshapes()
    if not any(k.startswith(rel + '::') for k in ref):
        return {}
    helpers = {}
    for lname, fn in module.funcs.items():
        if (rel + '::' + lname) in ref or '<locals>' in lname or lname.endswith('__init__'):
            continue
        if not isinstance(fn, ast.FunctionDef):
            continue
        sh = _helper_shape(fn)
        if sh is None:
            continue
        cls, _, name = lname.rpartition('.')
        # not recursive
        if any(isinstance(c, ast.Call) and ((isinstance(c.func, ast.Attribute) and c.func.attr == name) or
                                             (isinstance(c.func, ast.Name) and c.func.id == name)) for c in ast.walk(fn)):
            continue
        static = any((isinstance(d, ast.Name) and d.id == 'staticmethod') for d in fn.decorator_list)
        if any(not (isinstance(d, ast.Name) and d.id == 'staticmethod') for d in fn.decorator_list):
            continue
        helpers[(cls, name)] = (fn, sh, static)
    # helpers with several returns can still replace a TAIL call `return helper(..)`: their returns become the caller's
    tail_helpers = {}
    for lname, fn in module.funcs.items():
        if (rel + '::' + lname) in ref or '<locals>' in lname or lname.endswith('__init__') or not isinstance(fn, ast.FunctionDef):
            continue
        cls, _, name = lname.rpartition('.')
        if (cls, name) in helpers:
            continue
        if any(isinstance(n, (ast.Yield, ast.YieldFrom, ast.Global, ast.Nonlocal, ast.Lambda, ast.AsyncFunctionDef)) or
               (isinstance(n, (ast.FunctionDef, ast.ClassDef)) and n is not fn) for n in ast.walk(fn)):
            continue
        if fn.args.vararg or fn.args.kwarg or fn.args.kwonlyargs or fn.args.posonlyargs:
            continue
        if any(isinstance(c, ast.Call) and ((isinstance(c.func, ast.Attribute) and c.func.attr == name) or
                                             (isinstance(c.func, ast.Name) and c.func.id == name)) for c in ast.walk(fn)):
            continue
        if any(not (isinstance(d, ast.Name) and d.id == 'staticmethod') for d in fn.decorator_list):
            continue
        tb = list(fn.body)
        if tb and isinstance(tb[0], ast.Expr) and isinstance(tb[0].value, ast.Constant) and isinstance(tb[0].value.value, str):
            tb = tb[1:]
        if tb:
            tail_helpers[(cls, name)] = (fn, tb, any(isinstance(d, ast.Name) and d.id == 'staticmethod' for d in fn.decorator_list))
    # S13p: read-only properties that the reference class does not have, with a single-expression body: `x.name` -> body[self := x]
    props = {}
    for lname, fn in module.funcs.items():
        if (rel + '::' + lname) in ref or '<locals>' in lname or not isinstance(fn, ast.FunctionDef):
            continue
        if len(fn.decorator_list) == 1 and isinstance(fn.decorator_list[0], ast.Name) and fn.decorator_list[0].id == 'property' \
                and len(fn.args.args) == 1:
            sh = _helper_shape_ignoring_decorators(fn)
            if sh is not None and not sh[0] and sh[1] is not None:
                props[lname.rpartition('.')[2]] = (fn, sh[1], fn.args.args[0].arg, lname.rpartition('.')[0])
    pdone = {}
    if props:
        import copy as _cp

        class PT(ast.NodeTransformer):
            def visit_Attribute(self, n):
                self.generic_visit(n)
                if isinstance(n.ctx, ast.Load) and n.attr in props and isinstance(n.value, ast.Name):
                    fn_, ret, selfname, cls_ = props[n.attr]
                    pdone[n.attr] = pdone.get(n.attr, 0) + 1
                    return _relocate(_Subst({selfname: n.value.id}).visit(_cp.deepcopy(ret)), n)
                return n
        for lname, fn in list(module.funcs.items()):
            if lname.rpartition('.')[2] in props:
                continue
            fn.body = [PT().visit(st) for st in fn.body]
        for nm, (fn_, ret, selfname, cls_) in props.items():
            if nm in pdone and cls_ in module.classes and fn_ in module.classes[cls_].body:
                module.classes[cls_].body.remove(fn_)
    if not helpers and not tail_helpers:
        return pdone
    done = dict(pdone)
    counter = [0]

    def match(call, caller_cls, tail=False):
        f = call.func
        table = tail_helpers if tail else helpers
        if isinstance(f, ast.Attribute) and isinstance(f.value, ast.Name) and f.value.id in ('self', caller_cls) and (caller_cls, f.attr) in table:
            return (caller_cls, f.attr)
        if isinstance(f, ast.Name) and ('', f.id) in table:
            return ('', f.id)
        return None

    def bind(call, fn, static, cls):
        ps = [a.arg for a in fn.args.args]
        if cls and not static:
            ps = ps[1:]
        defaults = dict(zip(ps[len(ps) - len(fn.args.defaults):], fn.args.defaults)) if fn.args.defaults else {}
        if any(isinstance(a, ast.Starred) for a in call.args) or any(k.arg is None for k in call.keywords) or len(call.args) > len(ps):
            return None
        b = dict(zip(ps, call.args))
        for k in call.keywords:
            if k.arg not in ps or k.arg in b:
                return None
            b[k.arg] = k.value
        for p in ps:
            if p not in b:
                if p not in defaults:
                    return None
                b[p] = defaults[p]
        return b

    def expand_stmt(st, caller_fn, caller_cls):
        """Return a list of statements replacing `st`, or None."""
        if isinstance(st, ast.Assign) and len(st.targets) == 1:
            call, kind = st.value, 'assign'
        elif isinstance(st, ast.AugAssign):
            call, kind = st.value, 'aug'
        elif isinstance(st, ast.Expr):
            call, kind = st.value, 'expr'
        elif isinstance(st, ast.Return) and st.value is not None:
            call, kind = st.value, 'return'
        else:
            return None
        nested = None
        is_tail = kind == 'return' and isinstance(call, ast.Call) and match(call, caller_cls) is None and match(call, caller_cls, tail=True) is not None
        if is_tail:
            pass
        elif not isinstance(call, ast.Call) or match(call, caller_cls) is None:
            # a helper call nested in the part of the statement that is evaluated once and first
            for h in _once_first_hosts(st):
                for x in _walk_no_defer(h):
                    if isinstance(x, ast.Call) and match(x, caller_cls) is not None:
                        # nothing with a side effect may be evaluated before it: accept only if every call that precedes
                        # it textually inside the host is an ancestor of it (its own callee/receiver chain)
                        before = [y for y in _walk_no_defer(h) if isinstance(y, ast.Call) and y is not x
                                  and (y.lineno, y.col_offset) < (x.lineno, x.col_offset) and not any(z is x for z in ast.walk(y))]
                        if not before:
                            nested = x
                        break
                if nested is not None:
                    break
            if nested is None:
                return None
            call, kind = nested, 'nested'
        key = match(call, caller_cls, tail=is_tail)
        if key is None:
            return None
        if is_tail:
            fn, body, static = tail_helpers[key]
            ret = None
            kind = 'tail'
        else:
            fn, (body, ret), static = helpers[key]
        if kind == 'nested' and ret is None:
            return None
        b = bind(call, fn, static, key[0])
        if b is None:
            return None
        assigned_in_helper = {n.id for x in body for n in ast.walk(x) if isinstance(n, ast.Name) and isinstance(n.ctx, (ast.Store, ast.Del))}
        caller_names = {n.id for n in ast.walk(caller_fn) if isinstance(n, ast.Name)} | {a.arg for a in caller_fn.args.args}
        subst = {}
        pre = []
        for p, a in b.items():
            if _simple_arg(a) and p not in assigned_in_helper:
                subst[p] = a
            else:
                counter[0] += 1
                nm = p if p not in caller_names else '%s_h%d' % (p, counter[0])
                subst[p] = nm
                pre.append(ast.Assign(targets=[ast.Name(id=nm, ctx=ast.Store())], value=_c.deepcopy(a)))
        tgt_name = st.targets[0].id if kind == 'assign' and isinstance(st.targets[0], ast.Name) else None
        ret_local = ret.id if isinstance(ret, ast.Name) and ret.id in assigned_in_helper else None
        for v in sorted(assigned_in_helper):
            if v in subst:
                continue
            if v == ret_local and tgt_name:
                subst[v] = tgt_name
            elif v in caller_names and v != tgt_name:
                counter[0] += 1
                subst[v] = '%s_h%d' % (v, counter[0])
        sub = _Subst(subst)
        new_body = [sub.visit(_c.deepcopy(x)) for x in body]
        new_ret = sub.visit(_c.deepcopy(ret)) if ret is not None else None
        out = pre + new_body
        if kind == 'assign':
            if new_ret is None:
                new_ret = ast.Constant(value=None)
            if not (tgt_name and isinstance(new_ret, ast.Name) and new_ret.id == tgt_name):
                out.append(ast.Assign(targets=st.targets, value=new_ret))
        elif kind == 'aug':
            out.append(ast.AugAssign(target=st.target, op=st.op, value=new_ret if new_ret is not None else ast.Constant(value=None)))
        elif kind == 'tail':
            if not _terminates(new_body):
                out.append(ast.Return(value=ast.Constant(value=None)))
        elif kind == 'return':
            out.append(ast.Return(value=new_ret))
        elif kind == 'expr':
            if new_ret is not None and any(isinstance(x, ast.Call) for x in ast.walk(new_ret)):
                out.append(ast.Expr(value=new_ret))
        elif kind == 'nested':
            class RN(ast.NodeTransformer):
                def visit_Call(self, c):
                    if c is call:
                        return new_ret
                    self.generic_visit(c)
                    return c
            for field, val in list(ast.iter_fields(st)):
                if field in ('body', 'orelse', 'finalbody', 'handlers'):
                    continue
                if isinstance(val, ast.AST):
                    setattr(st, field, RN().visit(val))
                elif isinstance(val, list):
                    setattr(st, field, [RN().visit(v) if isinstance(v, ast.AST) else v for v in val])
            out.append(st)
        for x in out:
            if x is not st:
                _relocate(x, st)
        done[key[1]] = done.get(key[1], 0) + 1
        return out or [ast.copy_location(ast.Pass(), st)]

    def expand_predicate_if(st, caller_fn, caller_cls):
        """S13q  `if [not] helper(..): A` where A leaves the block (return / raise / continue / break) and the helper is a sequence of
        statements and guards that return True / False: the helper's statements take the place of the test, every return of the
        value that selects A becomes A, every return of the other value becomes "go on after the if" (the rest of the helper moves
        into the else branch of that guard).  Returns the replacing statements or None."""
        if not isinstance(st, ast.If) or st.orelse or not st.body or not isinstance(st.body[-1], (ast.Return, ast.Raise, ast.Continue, ast.Break)):
            return None
        t = st.test
        neg = False
        while isinstance(t, ast.UnaryOp) and isinstance(t.op, ast.Not):
            neg = not neg
            t = t.operand
        if not isinstance(t, ast.Call):
            return None
        key = match(t, caller_cls, tail=True)
        if key is None or match(t, caller_cls) is not None:
            return None
        fn, body, static = tail_helpers[key]
        b = bind(t, fn, static, key[0])
        if b is None:
            return None
        if any(isinstance(x, (ast.Continue, ast.Break)) for y in st.body for x in ast.walk(y)) and \
                any(isinstance(x, (ast.For, ast.While)) for y in body for x in ast.walk(y)):
            return None         # A's continue / break would bind to a loop of the helper
        trigger = not neg       # A runs when the helper returns a value whose truth is `trigger`... (if H: A -> True; if not H: A -> False)

        def const_bool(r):
            if r.value is None:
                return False
            if isinstance(r.value, ast.Constant) and (isinstance(r.value.value, bool) or r.value.value is None):
                return bool(r.value.value)
            return None

        def has_return(x):
            return any(isinstance(y, ast.Return) for y in ast.walk(x))

        def build(stmts):
            out = []
            for i, s_ in enumerate(stmts):
                if isinstance(s_, ast.Return):
                    k = const_bool(s_)
                    if k is None:
                        return None
                    if k == trigger:
                        out.extend(_c.deepcopy(st.body))
                    return out
                if isinstance(s_, ast.If) and not s_.orelse and s_.body and isinstance(s_.body[-1], ast.Return) \
                        and not any(has_return(y) for y in s_.body[:-1]) and not has_return(s_.test):
                    k = const_bool(s_.body[-1])
                    if k is None:
                        return None
                    pre_ = [_c.deepcopy(y) for y in s_.body[:-1]]
                    if k == trigger:
                        out.append(ast.If(test=_c.deepcopy(s_.test), body=pre_ + _c.deepcopy(st.body), orelse=[]))
                        continue
                    rest = build(stmts[i + 1:])
                    if rest is None:
                        return None
                    if pre_:
                        out.append(ast.If(test=_c.deepcopy(s_.test), body=pre_, orelse=rest))
                    elif rest:
                        out.append(ast.If(test=_negate(_c.deepcopy(s_.test)), body=rest, orelse=[]))
                    return out
                if has_return(s_):
                    return None
                out.append(_c.deepcopy(s_))
            # falls off the end: returns None (false)
            if trigger is False:
                out.extend(_c.deepcopy(st.body))
            return out
        if build(body) is None:
            return None
        assigned_in_helper = {n.id for x in body for n in ast.walk(x) if isinstance(n, ast.Name) and isinstance(n.ctx, (ast.Store, ast.Del))}
        caller_names = {n.id for n in ast.walk(caller_fn) if isinstance(n, ast.Name)} | {a.arg for a in caller_fn.args.args}
        subst = {}
        pre = []
        for p_, a in b.items():
            if _simple_arg(a) and p_ not in assigned_in_helper:
                subst[p_] = a
            else:
                counter[0] += 1
                nm = p_ if p_ not in caller_names else '%s_h%d' % (p_, counter[0])
                subst[p_] = nm
                pre.append(ast.Assign(targets=[ast.Name(id=nm, ctx=ast.Store())], value=_c.deepcopy(a)))
        for v in sorted(assigned_in_helper):
            if v not in subst and v in caller_names:
                counter[0] += 1
                subst[v] = '%s_h%d' % (v, counter[0])
        # rename in the helper's statements first, splice the (untouched) statements of A in afterwards
        sub = _Subst(subst)
        new = build([sub.visit(_c.deepcopy(x)) for x in body])
        if new is None:
            return None
        out = pre + new
        for x in out:
            _relocate(x, st)
        done[key[1]] = done.get(key[1], 0) + 1
        return out or [ast.copy_location(ast.Pass(), st)]

    def expand_option_pair(blk, i, caller_fn, caller_cls):
        """S13o  `x = helper(..)` directly followed by `if x is None: A` (A leaves the block), where the helper is statements, guards
        `if C: return None` and a final `return E` with E never None (a fresh copy / container): the helper's statements replace both,
        every `return None` becomes A, the final return becomes `x = E`.  Returns the replacing statements or None."""
        if i + 1 >= len(blk):
            return None
        st, nxt = blk[i], blk[i + 1]
        if not (isinstance(st, ast.Assign) and len(st.targets) == 1 and isinstance(st.targets[0], ast.Name) and isinstance(st.value, ast.Call)):
            return None
        x = st.targets[0].id
        if not (isinstance(nxt, ast.If) and not nxt.orelse and nxt.body and isinstance(nxt.body[-1], (ast.Return, ast.Raise, ast.Continue, ast.Break))
                and U(nxt.test) in ('%s is None' % x, 'not %s' % x, '%s == None' % x)):
            return None
        key = match(st.value, caller_cls, tail=True)
        if key is None or match(st.value, caller_cls) is not None:
            return None
        fn, body, static = tail_helpers[key]
        b = bind(st.value, fn, static, key[0])
        if b is None or not body or not isinstance(body[-1], ast.Return) or body[-1].value is None:
            return None
        if any(isinstance(y, (ast.Continue, ast.Break)) for z in nxt.body for y in ast.walk(z)) and \
                any(isinstance(y, (ast.For, ast.While)) for z in body for y in ast.walk(z)):
            return None
        # E is never None (and, for the `not x` spelling, never falsy... only `is None` / `== None` are accepted unless E is a copy of
        # a non-empty structure - keep it simple: `not x` only when E is a dict display with entries)
        e = body[-1].value
        local_defs = {}
        for z in body[:-1]:
            if isinstance(z, ast.Assign) and len(z.targets) == 1 and isinstance(z.targets[0], ast.Name):
                local_defs.setdefault(z.targets[0].id, []).append(z.value)
        src = e
        if isinstance(e, ast.Name) and len(local_defs.get(e.id, [])) == 1:
            src = local_defs[e.id][0]
        fresh_obj = isinstance(src, (ast.List, ast.Dict, ast.Tuple, ast.Set, ast.ListComp, ast.DictComp)) or \
            (isinstance(src, ast.Call) and U(src.func) in ('copy.copy', 'copy.deepcopy', 'list', 'dict', 'tuple', 'set'))
        if not fresh_obj or U(nxt.test) == 'not %s' % x:
            return None
        mid = body[:-1]
        for z in mid:
            if isinstance(z, ast.If) and not z.orelse and z.body and isinstance(z.body[-1], ast.Return) \
                    and not any(isinstance(y, ast.Return) for w in z.body[:-1] for y in ast.walk(w)):
                r = z.body[-1]
                if not (r.value is None or (isinstance(r.value, ast.Constant) and r.value.value is None)):
                    return None
            elif any(isinstance(y, ast.Return) for y in ast.walk(z)):
                return None
        assigned_in_helper = {n.id for z in body for n in ast.walk(z) if isinstance(n, ast.Name) and isinstance(n.ctx, (ast.Store, ast.Del))}
        caller_names = {n.id for n in ast.walk(caller_fn) if isinstance(n, ast.Name)} | {a.arg for a in caller_fn.args.args}
        subst = {}
        pre = []
        for p_, a in b.items():
            if _simple_arg(a) and p_ not in assigned_in_helper:
                subst[p_] = a
            else:
                counter[0] += 1
                nm = p_ if p_ not in caller_names else '%s_h%d' % (p_, counter[0])
                subst[p_] = nm
                pre.append(ast.Assign(targets=[ast.Name(id=nm, ctx=ast.Store())], value=_c.deepcopy(a)))
        ret_local = e.id if isinstance(e, ast.Name) and e.id in assigned_in_helper else None
        for v in sorted(assigned_in_helper):
            if v in subst:
                continue
            if v == ret_local:
                subst[v] = x
            elif v in caller_names:
                counter[0] += 1
                subst[v] = '%s_h%d' % (v, counter[0])
        sub = _Subst(subst)
        out = list(pre)
        for z in mid:
            z2 = sub.visit(_c.deepcopy(z))
            if isinstance(z2, ast.If) and z2.body and isinstance(z2.body[-1], ast.Return):
                z2.body = z2.body[:-1] + _c.deepcopy(nxt.body)
            out.append(z2)
        new_e = sub.visit(_c.deepcopy(e))
        if not (isinstance(new_e, ast.Name) and new_e.id == x):
            out.append(ast.Assign(targets=[ast.Name(id=x, ctx=ast.Store())], value=new_e))
        for z in out:
            _relocate(z, st)
        done[key[1]] = done.get(key[1], 0) + 1
        return out

    def expand_expr_calls(node, caller_cls):
        """Single-expression helpers called inside larger expressions: substitute the expression."""
        class T(ast.NodeTransformer):
            def visit_FunctionDef(self, n):
                return n
            visit_Lambda = visit_ClassDef = visit_FunctionDef

            def visit_Call(self, c):
                self.generic_visit(c)
                key = match(c, caller_cls)
                if key is None:
                    return c
                fn, (body, ret), static = helpers[key]
                if body or ret is None:
                    return c
                b = bind(c, fn, static, key[0])
                if b is None or not all(_simple_arg(a) for a in b.values()):
                    return c
                done[key[1]] = done.get(key[1], 0) + 1
                return _relocate(_Subst(dict(b)).visit(_c.deepcopy(ret)), c)
        return T().visit(node)

    def rec_block(blk, caller_fn, caller_cls):
        i = 0
        while i < len(blk):
            st = blk[i]
            if isinstance(st, (ast.FunctionDef, ast.ClassDef)):
                i += 1
                continue
            pair = expand_option_pair(blk, i, caller_fn, caller_cls)
            if pair is not None:
                blk[i:i + 2] = pair
                continue
            rep = expand_stmt(st, caller_fn, caller_cls)
            if rep is None:
                rep = expand_predicate_if(st, caller_fn, caller_cls)
            if rep is not None:
                blk[i:i + 1] = rep
                continue          # re-examine (helpers calling helpers)
            for field in ('body', 'orelse', 'finalbody'):
                sub = getattr(st, field, None)
                if isinstance(sub, list) and sub and isinstance(sub[0], ast.stmt):
                    rec_block(sub, caller_fn, caller_cls)
            for h in getattr(st, 'handlers', []) or []:
                rec_block(h.body, caller_fn, caller_cls)
            # expression-level calls in the statement's own expressions
            for field, val in list(ast.iter_fields(st)):
                if field in ('body', 'orelse', 'finalbody', 'handlers'):
                    continue
                if isinstance(val, ast.AST):
                    setattr(st, field, expand_expr_calls(val, caller_cls))
                elif isinstance(val, list):
                    setattr(st, field, [expand_expr_calls(v, caller_cls) if isinstance(v, ast.AST) else v for v in val])
            i += 1

    rn_all = None
    for lname, fn in list(module.funcs.items()):
        cls, _, name = lname.rpartition('.')
        if (cls, name) in helpers or (cls, name) in tail_helpers or '<locals>' in lname:
            continue
        before_ = len(done)
        n_before = sum(done.values())
        rec_block(fn.body, fn, cls)
        ast.fix_missing_locations(fn)
        if sum(done.values()) != n_before:
            if rn_all is None:
                from .core import refnames as _rn
                rn_all = _rn()
            _merge_suffixed_locals(fn, set(rn_all.get(rel + '::' + lname, ())))
    # remove helpers that have no remaining reference in the module
    if done:
        remaining = {n.attr for n in ast.walk(module.tree) if isinstance(n, ast.Attribute)} | \
                    {n.id for n in ast.walk(module.tree) if isinstance(n, ast.Name)}
        for (cls, name), (fn, sh, static) in helpers.items():
            if name in done and name not in remaining:
                owner = module.classes.get(cls) if cls else module.tree
                if owner is not None and fn in owner.body:
                    owner.body.remove(fn)
        for (cls, name), (fn, tb, static) in tail_helpers.items():
            if name in done and name not in remaining:
                owner = module.classes.get(cls) if cls else module.tree
                if owner is not None and fn in owner.body:
                    owner.body.remove(fn)
    return done


# ---------------------------------------------------------------------------------------------------------------
def fold_unpacked_loop_targets(rel, module):
    """Step S14.  Returns {function: [loops rewritten]}."""
    ref = refshapes()
    done = {}
    for lname, fn in list(module.funcs.items()):
        r = ref.get(rel + '::' + lname)
        if not r or not r.get('for'):
            continue
        ref_for = {}
        for it, tg in r['for']:
            ref_for.setdefault(it, []).append(tg)
        stores = {}
        for n in ast.walk(fn):
            if isinstance(n, ast.Name) and isinstance(n.ctx, (ast.Store, ast.Del)):
                stores[n.id] = stores.get(n.id, 0) + 1
        used = {n.id for n in ast.walk(fn) if isinstance(n, ast.Name)} | {a.arg for a in fn.args.args}
        for loop in [n for n in ast.walk(fn) if isinstance(n, ast.For)]:
            it = U(loop.iter)
            if it not in ref_for or U(loop.target) in ref_for[it]:
                continue
            # where does the current target have a tuple and the reference a name?
            for tg in ref_for[it]:
                try:
                    rt = ast.parse(tg, mode='eval').body
                except SyntaxError:
                    continue
                pairs = []     # (current tuple node, reference name, setter)
                ct = loop.target
                if isinstance(rt, ast.Name) and isinstance(ct, ast.Tuple):
                    pairs.append((ct, rt.id, None))
                elif isinstance(rt, ast.Tuple) and isinstance(ct, ast.Tuple) and len(rt.elts) == len(ct.elts):
                    okp = True
                    for k, (a, b) in enumerate(zip(ct.elts, rt.elts)):
                        if isinstance(b, ast.Name) and isinstance(a, ast.Tuple):
                            pairs.append((a, b.id, k))
                        elif not (isinstance(a, ast.Name) and isinstance(b, ast.Name)):
                            okp = False
                    if not okp:
                        continue
                if not pairs:
                    continue
                good = True
                plan = []
                for tup, ename, k in pairs:
                    if not all(isinstance(e, ast.Name) for e in tup.elts):
                        good = False
                        break
                    if ename in used and ename not in [e.id for e in tup.elts]:
                        good = False
                        break
                    end_ = getattr(loop, 'end_lineno', loop.lineno)
                    for e in tup.elts:
                        if stores.get(e.id, 0) == 1:
                            continue
                        # bound elsewhere too: acceptable if not re-bound inside this loop and never read after the loop before being
                        # bound again
                        inner_st = [x for b_ in loop.body + loop.orelse for x in ast.walk(b_)
                                    if isinstance(x, ast.Name) and x.id == e.id and isinstance(x.ctx, (ast.Store, ast.Del))]
                        if inner_st:
                            good = False
                        later = sorted((x.lineno, x.col_offset, isinstance(x.ctx, ast.Load)) for x in ast.walk(fn)
                                       if isinstance(x, ast.Name) and x.id == e.id and x.lineno > end_)
                        if later and later[0][2]:
                            good = False
                    if not good:
                        break
                    plan.append((tup, ename, k))
                if not good:
                    continue
                for tup, ename, k in plan:
                    mapping = {e.id: i for i, e in enumerate(tup.elts)}

                    class R(ast.NodeTransformer):
                        def visit_Name(self, node):
                            if node.id in mapping and isinstance(node.ctx, ast.Load):
                                return ast.copy_location(ast.Subscript(value=ast.Name(id=ename, ctx=ast.Load()),
                                                                       slice=ast.Constant(value=mapping[node.id]), ctx=ast.Load()), node)
                            return node
                    for field in ('body', 'orelse'):
                        setattr(loop, field, [R().visit(x) for x in getattr(loop, field)])
                    new_t = ast.copy_location(ast.Name(id=ename, ctx=ast.Store()), tup)
                    if k is None:
                        loop.target = new_t
                    else:
                        loop.target.elts[k] = new_t
                ast.fix_missing_locations(loop)
                done.setdefault(lname, []).append(it)
                break
    return done


# ---------------------------------------------------------------------------------------------------------------
def unroll_constant_loops(rel, module):
    """Step S18: `for a, b in [(x1, y1), (x2, y2), ...]: BODY` (a literal table, directly or through a local bound once to the
    literal; no break/continue in BODY; not a loop of the reference function) is unrolled into BODY[a:=x1, b:=y1]; BODY[a:=x2,
    b:=y2]; ... - the copy-and-paste form that a "data-driven loop" refactoring replaced."""
    import copy as _c
    ref = refshapes()
    done = {}
    for lname, fn in list(module.funcs.items()):
        r = ref.get(rel + '::' + lname)
        if r is None:
            continue
        ref_for = {(it, tg) for it, tg in r.get('for', [])}
        lits = {}
        nstores = {}
        for n in ast.walk(fn):
            if isinstance(n, ast.Name) and isinstance(n.ctx, (ast.Store, ast.Del)):
                nstores[n.id] = nstores.get(n.id, 0) + 1
            if isinstance(n, ast.Assign) and len(n.targets) == 1 and isinstance(n.targets[0], ast.Name) and isinstance(n.value, (ast.List, ast.Tuple)):
                lits[n.targets[0].id] = n.value
        dlits = {n.targets[0].id: n.value for n in ast.walk(fn) if isinstance(n, ast.Assign) and len(n.targets) == 1
                 and isinstance(n.targets[0], ast.Name) and isinstance(n.value, ast.Dict)}
        dmut = {x.value.id for x in ast.walk(fn) if isinstance(x, ast.Subscript) and isinstance(x.ctx, (ast.Store, ast.Del)) and isinstance(x.value, ast.Name)} | \
               {x.func.value.id for x in ast.walk(fn) if isinstance(x, ast.Call) and isinstance(x.func, ast.Attribute) and isinstance(x.func.value, ast.Name)
                and x.func.attr in ('update', 'pop', 'popitem', 'clear', 'setdefault')}
        mutated = {n.func.value.id for n in ast.walk(fn) if isinstance(n, ast.Call) and isinstance(n.func, ast.Attribute)
                   and isinstance(n.func.value, ast.Name) and n.func.attr in ('append', 'extend', 'insert', 'pop', 'remove', 'sort',
                                                                             'reverse', 'clear')}
        changed = False
        for owner in ast.walk(fn):
            for field in ('body', 'orelse', 'finalbody'):
                blk = getattr(owner, field, None)
                if not (isinstance(blk, list) and blk and isinstance(blk[0], ast.stmt)):
                    continue
                i = 0
                while i < len(blk):
                    st = blk[i]
                    i += 1
                    if not isinstance(st, ast.For) or st.orelse or (U(st.iter), U(st.target)) in ref_for:
                        continue
                    table = st.iter
                    if isinstance(table, ast.Name) and table.id in lits and nstores.get(table.id) == 1 and table.id not in mutated:
                        table = lits[table.id]
                    # `for k, v in {k1: v1, ...}.items()` (a dict display, directly or through a local bound once): the same table
                    if isinstance(table, ast.Call) and isinstance(table.func, ast.Attribute) and table.func.attr == 'items' and not table.args:
                        dsp = table.func.value
                        if isinstance(dsp, ast.Name) and dsp.id in dlits and nstores.get(dsp.id) == 1 and dsp.id not in dmut:
                            dsp = dlits[dsp.id]
                        if isinstance(dsp, ast.Dict) and dsp.keys and all(k_ is not None and isinstance(k_, ast.Constant) for k_ in dsp.keys) \
                                and len({repr(k_.value) for k_ in dsp.keys}) == len(dsp.keys):
                            table = ast.List(elts=[ast.Tuple(elts=[k_, v_], ctx=ast.Load()) for k_, v_ in zip(dsp.keys, dsp.values)], ctx=ast.Load())
                    if not isinstance(table, (ast.List, ast.Tuple)) or not (1 <= len(table.elts) <= 16):
                        continue
                    if any(isinstance(x, (ast.Break, ast.Continue)) for b in st.body for x in ast.walk(b)):
                        continue
                    tg = st.target
                    if isinstance(tg, ast.Name):
                        names = [tg.id]
                        rows = [[e] for e in table.elts]
                    elif isinstance(tg, ast.Tuple) and all(isinstance(e, ast.Name) for e in tg.elts):
                        names = [e.id for e in tg.elts]
                        if not all(isinstance(e, (ast.Tuple, ast.List)) and len(e.elts) == len(names) for e in table.elts):
                            continue
                        rows = [list(e.elts) for e in table.elts]
                    else:
                        continue
                    if not all(_pure(x) for row in rows for x in row):
                        continue
                    # loop variables must not be assigned in the body or used after the loop
                    body_stores = {x.id for b in st.body for x in ast.walk(b) if isinstance(x, ast.Name) and isinstance(x.ctx, ast.Store)}
                    if body_stores & set(names):
                        continue
                    end_ = getattr(st, 'end_lineno', st.lineno)
                    clash = False
                    for nm in names:
                        if nstores.get(nm, 0) == 1:
                            continue
                        # the name is also bound elsewhere: fine if every other binding precedes the loop and nothing reads the name
                        # after the loop (the loop variable would otherwise leak its last value)
                        for x in ast.walk(fn):
                            if isinstance(x, ast.Name) and x.id == nm:
                                inside = st.lineno <= x.lineno <= end_
                                if isinstance(x.ctx, (ast.Store, ast.Del)) and not inside and x.lineno > st.lineno:
                                    clash = True
                                if isinstance(x.ctx, ast.Load) and x.lineno > end_:
                                    clash = True
                    if clash:
                        continue
                    unrolled = []
                    for row in rows:
                        sub = _Subst(dict(zip(names, row)))
                        for b in st.body:
                            unrolled.append(_relocate(sub.visit(_c.deepcopy(b)), st))
                    blk[i - 1:i] = unrolled
                    i += len(unrolled) - 1
                    changed = True
                    done.setdefault(lname, []).append(U(st.target))
        if changed:
            ast.fix_missing_locations(fn)
    return done


# ---------------------------------------------------------------------------------------------------------------
def expand_iter_sentinel_loops(rel, module):
    """Step S21: `for v in iter(F, SENTINEL): BODY`  ->  `v = F(); while v is not SENTINEL (!= for non-None): BODY; v = F()`
    (every `continue` of that loop fetches first), for loops the reference function does not have."""
    import copy as _c
    ref = refshapes()
    done = {}
    for lname, fn in list(module.funcs.items()):
        r = ref.get(rel + '::' + lname)
        if r is None:
            continue
        ref_for = {(it, tg) for it, tg in r.get('for', [])}
        for owner in ast.walk(fn):
            for field in ('body', 'orelse', 'finalbody'):
                blk = getattr(owner, field, None)
                if not (isinstance(blk, list) and blk and isinstance(blk[0], ast.stmt)):
                    continue
                for i, st in enumerate(list(blk)):
                    if not (isinstance(st, ast.For) and isinstance(st.target, ast.Name) and isinstance(st.iter, ast.Call)
                            and isinstance(st.iter.func, ast.Name) and st.iter.func.id == 'iter' and len(st.iter.args) == 2
                            and isinstance(st.iter.args[1], ast.Constant) and (U(st.iter), U(st.target)) not in ref_for):
                        continue
                    v = st.target.id
                    fcall = ast.Call(func=st.iter.args[0], args=[], keywords=[])

                    def fetch():
                        return ast.Assign(targets=[ast.Name(id=v, ctx=ast.Store())], value=_c.deepcopy(fcall))

                    def fix_continues(body):
                        out = []
                        for x in body:
                            if isinstance(x, ast.Continue):
                                out.append(fetch())
                                out.append(x)
                                continue
                            if isinstance(x, (ast.For, ast.While, ast.FunctionDef, ast.ClassDef)):
                                out.append(x)
                                continue
                            for f2 in ('body', 'orelse', 'finalbody'):
                                sub = getattr(x, f2, None)
                                if isinstance(sub, list) and sub and isinstance(sub[0], ast.stmt):
                                    setattr(x, f2, fix_continues(sub))
                            for h in getattr(x, 'handlers', []) or []:
                                h.body = fix_continues(h.body)
                            out.append(x)
                        return out
                    sent = st.iter.args[1]
                    if sent.value is None and ('%s is None' % v) in r.get('tests', ()) and 'True' in r.get('tests', ()):
                        # the reference spells this loop `while True: v = F(); if v is None: <exhausted>; ...`: same form, the else
                        # clause of the for (runs when the iterator is exhausted, skipped by break) is the body of that test
                        guard = ast.If(test=ast.Compare(left=ast.Name(id=v, ctx=ast.Load()), ops=[ast.Is()], comparators=[ast.Constant(value=None)]),
                                       body=list(st.orelse) + [ast.Break()], orelse=[])
                        loop = ast.While(test=ast.Constant(value=True), body=[fetch(), guard] + list(st.body), orelse=[])
                        ast.copy_location(loop, st)
                        for x_ in (loop.body[0], guard):
                            for y_ in ast.walk(x_):
                                if not hasattr(y_, 'lineno'):
                                    ast.copy_location(y_, st)
                        ast.fix_missing_locations(loop)
                        k = [j for j, x in enumerate(blk) if x is st][0]
                        blk[k:k + 1] = [loop]
                        done.setdefault(lname, []).append(v)
                        continue
                    if sent.value is None:
                        test = ast.Compare(left=ast.Name(id=v, ctx=ast.Load()), ops=[ast.IsNot()], comparators=[ast.Constant(value=None)])
                    else:
                        test = ast.Compare(left=ast.Name(id=v, ctx=ast.Load()), ops=[ast.NotEq()], comparators=[sent])
                    loop = ast.While(test=test, body=fix_continues(st.body) + [fetch()], orelse=list(st.orelse))
                    first = fetch()
                    ast.copy_location(first, st)
                    ast.copy_location(loop, st)
                    for x in ast.walk(first):
                        ast.copy_location(x, st)
                    ast.fix_missing_locations(first)
                    ast.fix_missing_locations(loop)
                    # the trailing fetch belongs to the end of the loop
                    last = loop.body[-1]
                    for x in ast.walk(last):
                        x.lineno = getattr(st, 'end_lineno', st.lineno)
                        x.end_lineno = x.lineno
                    k = [j for j, x in enumerate(blk) if x is st][0]
                    blk[k:k + 1] = [first, loop]
                    done.setdefault(lname, []).append(v)
    return done


# ---------------------------------------------------------------------------------------------------------------
def expand_enumerate_counters(rel, module):
    """Step S28: `for i, x in enumerate(X, k)` (k a constant, default 0) -> `i = k` + `for x in X:` + `i += 1` at the end of the body
    (and before every `continue` of that loop), when the reference function loops over X with the target x alone."""
    ref = refshapes()
    done = {}
    for lname, fn in list(module.funcs.items()):
        r = ref.get(rel + '::' + lname)
        if r is None:
            continue
        ref_for = {}
        for it, tg in r.get('for', []):
            ref_for.setdefault(it, []).append(tg)
        nstores = {}
        for n in ast.walk(fn):
            if isinstance(n, ast.Name) and isinstance(n.ctx, (ast.Store, ast.Del)):
                nstores[n.id] = nstores.get(n.id, 0) + 1
        for owner in ast.walk(fn):
            for field in ('body', 'orelse', 'finalbody'):
                blk = getattr(owner, field, None)
                if not (isinstance(blk, list) and blk and isinstance(blk[0], ast.stmt)):
                    continue
                for st in list(blk):
                    if not (isinstance(st, ast.For) and not st.orelse and isinstance(st.iter, ast.Call) and isinstance(st.iter.func, ast.Name)
                            and st.iter.func.id == 'enumerate' and st.iter.args and isinstance(st.target, ast.Tuple)
                            and len(st.target.elts) == 2 and isinstance(st.target.elts[0], ast.Name)):
                        continue
                    inner_it = U(st.iter.args[0])
                    elem = st.target.elts[1]
                    # S28c: enumerate(X, k) -> enumerate(X) with `i += k` as the first statement of the body, when that is how the
                    # reference loop over enumerate(X) counts (i is bound by this loop only, so its value inside the body is the same)
                    k28 = None
                    if len(st.iter.args) == 2 and not st.iter.keywords:
                        k28 = st.iter.args[1]
                    elif len(st.iter.args) == 1 and len(st.iter.keywords) == 1 and st.iter.keywords[0].arg == 'start':
                        k28 = st.iter.keywords[0].value
                    ref_enum = ref_for.get('enumerate(%s)' % inner_it)
                    if k28 is not None and isinstance(k28, ast.Constant) and isinstance(k28.value, int) and k28.value >= 1 and ref_enum \
                            and nstores.get(st.target.elts[0].id, 0) == 1 \
                            and any(('%s += %d' % (tg.strip('()').split(',')[0].strip(), k28.value)) in r.get('aug', ()) for tg in ref_enum):
                        first = ast.AugAssign(target=ast.Name(id=st.target.elts[0].id, ctx=ast.Store()), op=ast.Add(), value=ast.Constant(value=k28.value))
                        _relocate(first, st.body[0])
                        st.body = [first] + st.body
                        st.iter = ast.copy_location(ast.Call(func=st.iter.func, args=[st.iter.args[0]], keywords=[]), st.iter)
                        done.setdefault(lname, []).append(st.target.elts[0].id)
                        continue
                    sentinel = isinstance(st.iter.args[0], ast.Call) and isinstance(st.iter.args[0].func, ast.Name) \
                        and st.iter.args[0].func.id == 'iter' and len(st.iter.args[0].args) == 2
                    if not sentinel and (inner_it not in ref_for or U(elem) not in ref_for[inner_it]):
                        continue
                    start = None
                    if len(st.iter.args) == 2:
                        start = st.iter.args[1]
                    for k in st.iter.keywords:
                        if k.arg == 'start':
                            start = k.value
                    if start is None:
                        start = ast.Constant(value=0)
                    if not isinstance(start, ast.Constant) or not isinstance(start.value, int):
                        continue
                    i = st.target.elts[0].id
                    if nstores.get(i, 0) == 2:
                        # S28b: the counter was initialised to start-1 just before: `i = c` ... `for i, x in enumerate(X, c+1)` is the
                        # counting loop `i = c; for x in X: i += 1; ...` (same value inside the body and after the loop, also when X is empty)
                        kpos = [j for j, x in enumerate(blk) if x is st][0]
                        prior = [b for b in blk[:kpos] if isinstance(b, ast.Assign) and len(b.targets) == 1 and isinstance(b.targets[0], ast.Name)
                                 and b.targets[0].id == i and isinstance(b.value, ast.Constant) and isinstance(b.value.value, int)]
                        reads_between = any(isinstance(x, ast.Name) and x.id == i for b in blk[:kpos] if prior and b.lineno > prior[-1].lineno
                                            for x in ast.walk(b))
                        if len(prior) == 1 and prior[0].value.value + 1 == start.value and not reads_between \
                                and not any(isinstance(x, ast.Continue) for b in st.body for x in ast.walk(b)):
                            first = ast.AugAssign(target=ast.Name(id=i, ctx=ast.Store()), op=ast.Add(), value=ast.Constant(value=1))
                            _relocate(first, st.body[0])
                            st.body = [first] + st.body
                            st.target = elem
                            st.iter = st.iter.args[0]
                            done.setdefault(lname, []).append(i)
                        continue
                    if nstores.get(i, 0) != 1:
                        continue

                    def inc():
                        return ast.AugAssign(target=ast.Name(id=i, ctx=ast.Store()), op=ast.Add(), value=ast.Constant(value=1))

                    def fix(body):
                        out = []
                        for x in body:
                            if isinstance(x, ast.Continue):
                                out.append(_relocate(inc(), x))
                                out.append(x)
                                continue
                            if isinstance(x, (ast.For, ast.While, ast.FunctionDef, ast.ClassDef)):
                                out.append(x)
                                continue
                            for f2 in ('body', 'orelse', 'finalbody'):
                                sub = getattr(x, f2, None)
                                if isinstance(sub, list) and sub and isinstance(sub[0], ast.stmt):
                                    setattr(x, f2, fix(sub))
                            for h in getattr(x, 'handlers', []) or []:
                                h.body = fix(h.body)
                            out.append(x)
                        return out
                    init = ast.Assign(targets=[ast.Name(id=i, ctx=ast.Store())], value=start)
                    _relocate(init, st)
                    last = inc()
                    ast.fix_missing_locations(last)
                    for x in ast.walk(last):
                        x.lineno = getattr(st, 'end_lineno', st.lineno)
                        x.end_lineno = x.lineno
                        x.col_offset = 0
                        x.end_col_offset = 0
                    st.body = fix(st.body) + [last]
                    st.target = elem
                    st.iter = st.iter.args[0]
                    k = [j for j, x in enumerate(blk) if x is st][0]
                    blk.insert(k, init)
                    done.setdefault(lname, []).append(i)
        if lname in done:
            ast.fix_missing_locations(fn)
    return done


# ---------------------------------------------------------------------------------------------------------------
def renumber(module):
    """After the rewriting steps statements produced by inlining / unrolling share the position of the statement they replaced.
    Rules order statements by line number, so every function whose statements are not in strictly increasing line order gets
    synthetic, strictly increasing line numbers (document order); the real position is kept in `_orig_lineno` for reports."""
    changed = False
    for lname, fn in module.funcs.items():
        order = _stmts_in_order(fn)
        mono = all(order[i].lineno < order[i + 1].lineno or
                   (order[i].lineno == order[i + 1].lineno and False) for i in range(len(order) - 1))
        if mono:
            continue
        changed = True
        last = fn.lineno
        for st in order:
            new = st.lineno if st.lineno > last else last + 1

            def own_nodes(n):
                # nodes of the statement itself, not of nested statements
                todo = [n]
                while todo:
                    x = todo.pop()
                    yield x
                    for f_, v in ast.iter_fields(x):
                        if f_ in ('body', 'orelse', 'finalbody', 'handlers') and isinstance(v, list) and v and isinstance(v[0], (ast.stmt, ast.excepthandler)):
                            continue
                        if isinstance(v, ast.AST):
                            todo.append(v)
                        elif isinstance(v, list):
                            todo.extend(y for y in v if isinstance(y, ast.AST))
            if new != st.lineno:
                for x in own_nodes(st):
                    if hasattr(x, 'lineno'):
                        if not hasattr(x, '_orig_lineno'):
                            x._orig_lineno = x.lineno
                        x.lineno = new
                        x.end_lineno = new
            last = new
            for h in getattr(st, 'handlers', []) or []:
                if h.lineno <= last:
                    h._orig_lineno = h.lineno
                    h.lineno = last
    return changed


# ---------------------------------------------------------------------------------------------------------------
def positionalise_keywords(repo):
    """Step S42 (whole repository): `f(a=x, b=y)` -> `f(x, y)` when a, b are the leading parameters of every repository function
    called f (in that order) and the positional spelling is the one the reference function has in that place.  The binding of
    arguments to parameters is unchanged."""
    import copy as _c10
    ref = refshapes()
    by_name = {}
    for rel, m in repo.modules.items():
        for lname, fn in m.funcs.items():
            if '<locals>' in lname or fn.args.vararg or fn.args.kwarg or fn.args.posonlyargs:
                continue
            ps = [a.arg for a in fn.args.args]
            if '.' in lname and ps and ps[0] in ('self', 'cls'):
                ps = ps[1:]
            nm = lname.rpartition('.')[2]
            if nm == '__init__':
                nm = lname.rpartition('.')[0]
            by_name.setdefault(nm, []).append(ps)
    done = {}
    for rel, m in repo.modules.items():
        for lname, fn in m.funcs.items():
            r = ref.get(rel + '::' + lname)
            if not r:
                continue
            blob = '\n'.join(list(r.get('tests', ())) + list(r.get('stmts', ())) + list(r.get('cmp', ())))
            for c in [x for x in ast.walk(fn) if isinstance(x, ast.Call) and x.keywords]:
                f = c.func
                nm = f.attr if isinstance(f, ast.Attribute) else (f.id if isinstance(f, ast.Name) else None)
                sigs = by_name.get(nm)
                if not sigs or any(isinstance(a, ast.Starred) for a in c.args) or any(k.arg is None for k in c.keywords):
                    continue
                kw = {k.arg: k.value for k in c.keywords}
                npos = len(c.args)
                order = None
                for ps in sigs:
                    take = []
                    for p_ in ps[npos:]:
                        if p_ in kw:
                            take.append(p_)
                        else:
                            break
                    if order is None:
                        order = take
                    elif order != take:
                        order = []
                if not order:
                    continue
                new = _c10.deepcopy(c)
                new.args = list(new.args) + [_c10.deepcopy(kw[p_]) for p_ in order]
                new.keywords = [k for k in new.keywords if k.arg not in order]
                if U(new) in blob:
                    c.args, c.keywords = new.args, new.keywords
                    done.setdefault(rel + '::' + lname, []).append(nm)
        if any(k.startswith(rel + '::') for k in done):
            ast.fix_missing_locations(m.tree)
            m.reindex()
    return done


def normalise_signatures(repo):
    """Step S33 (whole repository): a function of the reference tree whose parameter list was PERMUTED, or whose parameters were
    RENAMED position by position, gets its reference parameter list back, and every call site is re-bound accordingly
    (positional arguments re-ordered, keyword names mapped).  Functions whose arity changed are left alone.
    Returns {qualified name: description}."""
    ref = refshapes()
    done = {}
    # simple name -> list of qualified names, to make sure a call is not attributed to a namesake
    by_name = {}
    for rel, m in repo.modules.items():
        for lname in m.funcs:
            by_name.setdefault(lname.rpartition('.')[2], []).append(rel + '::' + lname)
    for rel, m in list(repo.modules.items()):
        for lname, fn in list(m.funcs.items()):
            q = rel + '::' + lname
            r = ref.get(q)
            if not r or 'params' not in r or '<locals>' in lname:
                continue
            if fn.args.vararg or fn.args.kwarg or fn.args.kwonlyargs or fn.args.posonlyargs:
                continue
            cur = [a.arg for a in fn.args.args]
            want = list(r['params'])
            if cur == want or len(cur) != len(want):
                continue
            has_self = bool(cur) and cur[0] in ('self', 'cls') and want and want[0] == cur[0]
            ccur, cwant = (cur[1:], want[1:]) if has_self else (cur, want)
            ndef = len(fn.args.defaults)
            rename = {}
            body_names = {n.id for n in ast.walk(fn) if isinstance(n, ast.Name)}
            fresh_p = [c for c in ccur if c not in cwant]
            gone_p = [w for w in cwant if w not in ccur]
            if len(fresh_p) != len(gone_p):
                continue
            if fresh_p:
                # renamed parameters: new names map onto the disappeared reference names - unambiguous for one rename, positional
                # (same index) for several
                if len(fresh_p) == 1:
                    rename = {fresh_p[0]: gone_p[0]}
                elif all(ccur.index(c) == cwant.index(w) for c, w in zip(fresh_p, gone_p)):
                    rename = dict(zip(fresh_p, gone_p))
                else:
                    continue
                if any(w in body_names for w in rename.values()):
                    continue
            renamed_cur = [rename.get(c, c) for c in ccur]
            if sorted(renamed_cur) != sorted(cwant):
                continue
            kind = 'renamed' if renamed_cur == cwant else ('permuted' if not rename else 'renamed+permuted')
            order = [renamed_cur.index(w) for w in cwant]          # position in cur of each ref param
            # defaults: the reference had `ref_ndef` trailing defaults; a parameter that has a default now but must not have one in
            # the reference order loses it only if every call site passes it (checked below)
            cur_defaults = dict(zip(ccur[len(ccur) - ndef:], fn.args.defaults)) if ndef else {}
            ref_ndef = r.get('ndefaults', ndef)
            want_defaulted = cwant[len(cwant) - ref_ndef:] if ref_ndef else []
            inv0 = {v: k for k, v in rename.items()}
            if any(inv0.get(w, w) not in cur_defaults for w in want_defaulted):
                continue
            must_be_passed = [c for c in cur_defaults if rename.get(c, c) not in want_defaulted]
            name = lname.rpartition('.')[2]
            if len(by_name.get(name, [])) != 1:
                # a namesake exists elsewhere: the calls that are re-bound are those of the defining module and of every module that
                # imports the name FROM the defining module (`from .grammar_io import load_grammar`); the function must be unique there
                if sum(1 for x in by_name[name] if x.startswith(rel + '::')) != 1 or '.' in lname:
                    continue
                mods = [rel]
                unresolved = False
                for r2, m2 in repo.modules.items():
                    if r2 == rel:
                        continue
                    for imp in ast.walk(m2.tree):
                        if isinstance(imp, ast.ImportFrom) and any((al.asname or al.name) == name for al in imp.names):
                            base_dir = os.path.dirname(r2)
                            for _ in range(max(imp.level - 1, 0)):
                                base_dir = os.path.dirname(base_dir)
                            modpath = (imp.module or '').replace('.', '/')
                            cands = [os.path.normpath(os.path.join(base_dir, modpath + '.py'))] if imp.level else \
                                [modpath + '.py', os.path.normpath(os.path.join(base_dir, modpath + '.py'))]
                            if rel in cands:
                                if any(al.asname and al.name == name for al in imp.names):
                                    unresolved = True       # imported under another name: calls are not found by `name`
                                mods.append(r2)
                        elif isinstance(imp, ast.Import) and any(al.name.replace('.', '/') + '.py' == rel for al in imp.names):
                            unresolved = True               # `import pkg.mod` + attribute calls: not followed
                if unresolved:
                    continue
            else:
                mods = list(repo.modules)
            # ---- call sites
            ok = True
            plans = []
            for r2 in mods:
                m2 = repo.modules[r2]
                for c in [x for x in ast.walk(m2.tree) if isinstance(x, ast.Call)]:
                    f = c.func
                    nm = f.attr if isinstance(f, ast.Attribute) else (f.id if isinstance(f, ast.Name) else None)
                    if nm != name:
                        continue
                    if any(isinstance(a, ast.Starred) for a in c.args) or any(k.arg is None for k in c.keywords) or len(c.args) > len(ccur):
                        ok = False
                        break
                    bound = {}
                    for i_, a in enumerate(c.args):
                        bound[ccur[i_]] = (a, True)
                    for k in c.keywords:
                        if k.arg not in ccur or k.arg in bound:
                            ok = False
                            break
                        bound[k.arg] = (k.value, False)
                    if not ok:
                        break
                    plans.append((c, bound))
                if not ok:
                    break
            if not ok:
                continue
            # a call that relies on a default which the reference signature does not have gets the (constant) default made explicit
            for _c, bound_ in plans:
                for c_ in must_be_passed:
                    if c_ not in bound_ and isinstance(cur_defaults.get(c_), ast.Constant):
                        import copy as _c6
                        bound_[c_] = (_c6.deepcopy(cur_defaults[c_]), True)
            if any(c_ not in bound_ for c_ in must_be_passed for _c, bound_ in plans):
                continue
            inv = {v: k for k, v in rename.items()}
            for c, bound in plans:
                new_args, new_kw = [], []
                positional = True
                for w in cwant:
                    cname = inv.get(w, w)
                    if cname not in bound:
                        positional = False
                        continue
                    expr, was_pos = bound[cname]
                    if positional and was_pos:
                        new_args.append(expr)
                    else:
                        positional = False
                        new_kw.append(ast.keyword(arg=w, value=expr))
                c.args = new_args
                c.keywords = new_kw
            # ---- the definition
            args = fn.args.args
            self_arg = args[:1] if has_self else []
            rest = args[1:] if has_self else args
            new_rest = [rest[i_] for i_ in order]
            for a in new_rest:
                a.arg = rename.get(a.arg, a.arg)
            fn.args.defaults = [cur_defaults[inv0.get(w, w)] for w in want_defaulted]
            fn.args.args = self_arg + new_rest
            if rename:
                fn.body = [_Subst({c_: w_ for c_, w_ in rename.items()}).visit(st) for st in fn.body]
            done[q] = '%s: %s -> %s' % (kind, ccur, cwant)
    if done:
        for m in repo.modules.values():
            ast.fix_missing_locations(m.tree)
            m.reindex()
    return done
