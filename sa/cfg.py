"""Statement-level control-flow graph for the statement kinds the repository uses (DESIGN 2.2, A.5).

Nodes: ENTRY, EXIT (normal return / fall off the end), REXIT (leaves by an uncaught raise) and one node per
simple statement; compound statements contribute a header node (`if`/`while` test, `for` iterator,
`with` header, `try` marker).  Edges carry labels: 'T'/'F' (tests), 'item'/'exhausted' (for),
'break', 'continue', 'exc' (statement in a try body -> handler), 'next'.
"""
import ast

import networkx as nx

from .core import U


class Node:
    __slots__ = ('id', 'kind', 'stmt')

    def __init__(self, id, kind, stmt):
        self.id, self.kind, self.stmt = id, kind, stmt

    def __repr__(self):
        if self.stmt is None:
            return '<%s>' % self.kind
        return '<%s L%s %s>' % (self.kind, getattr(self.stmt, 'lineno', '?'), U(self.stmt).split('\n')[0][:50])


class CFG:
    def __init__(self, fn):
        self.nodes = {}
        self.succ = {}
        self.pred = {}
        self._n = 0
        self.entry = self._new('entry', None)
        self.exit = self._new('exit', None)
        self.rexit = self._new('rexit', None)
        self.loops = []      # stack of (header_id, break_collect)
        self.handlers = []   # stack of lists of handler-entry placeholders
        self.stmt_node = {}  # id(ast stmt) -> node id
        body = fn.body if hasattr(fn, 'body') else fn
        outs = self._seq(body, [(self.entry, 'next')])
        for p, lab in outs:
            self._edge(p, self.exit, lab)

    # -- construction ----------------------------------------------------------------------
    def _new(self, kind, stmt):
        i = self._n
        self._n += 1
        self.nodes[i] = Node(i, kind, stmt)
        self.succ[i] = []
        self.pred[i] = []
        if stmt is not None:
            self.stmt_node.setdefault(id(stmt), i)
        return i

    def _edge(self, a, b, lab):
        if (b, lab) not in self.succ[a]:
            self.succ[a].append((b, lab))
            self.pred[b].append((a, lab))

    def _link(self, preds, n):
        for p, lab in preds:
            self._edge(p, n, lab)

    def _exc_targets(self, n):
        """statement n may raise: edge to the innermost enclosing handlers."""
        if self.handlers:
            for h in self.handlers[-1]:
                self._edge(n, h, 'exc')

    def _seq(self, stmts, preds):
        for st in stmts:
            preds = self._stmt(st, preds)
        return preds

    def _stmt(self, st, preds):
        if isinstance(st, ast.If):
            n = self._new('test', st)
            self._link(preds, n)
            self._exc_targets(n)
            t = self._seq(st.body, [(n, 'T')])
            f = self._seq(st.orelse, [(n, 'F')])
            return t + f
        if isinstance(st, (ast.For, ast.AsyncFor)):
            n = self._new('iter', st)
            self._link(preds, n)
            self._exc_targets(n)
            brk = []
            self.loops.append((n, brk))
            body_out = self._seq(st.body, [(n, 'item')])
            self.loops.pop()
            self._link(body_out, n)
            out = self._seq(st.orelse, [(n, 'exhausted')])
            return out + brk
        if isinstance(st, ast.While):
            n = self._new('test', st)
            self._link(preds, n)
            self._exc_targets(n)
            brk = []
            self.loops.append((n, brk))
            body_out = self._seq(st.body, [(n, 'T')])
            self.loops.pop()
            self._link(body_out, n)
            always = isinstance(st.test, ast.Constant) and bool(st.test.value)
            out = [] if always else self._seq(st.orelse, [(n, 'F')])
            return out + brk
        if isinstance(st, ast.Break):
            n = self._new('stmt', st)
            self._link(preds, n)
            if self.loops:
                self.loops[-1][1].append((n, 'break'))
            return []
        if isinstance(st, ast.Continue):
            n = self._new('stmt', st)
            self._link(preds, n)
            if self.loops:
                self._edge(n, self.loops[-1][0], 'continue')
            return []
        if isinstance(st, ast.Return):
            n = self._new('stmt', st)
            self._link(preds, n)
            self._exc_targets(n)
            self._edge(n, self.exit, 'return')
            return []
        if isinstance(st, ast.Raise):
            n = self._new('stmt', st)
            self._link(preds, n)
            if self.handlers:
                for h in self.handlers[-1]:
                    self._edge(n, h, 'exc')
            else:
                self._edge(n, self.rexit, 'raise')
            return []
        if isinstance(st, (ast.With, ast.AsyncWith)):
            n = self._new('with', st)
            self._link(preds, n)
            self._exc_targets(n)
            return self._seq(st.body, [(n, 'next')])
        if isinstance(st, ast.Try) or st.__class__.__name__ == 'TryStar':
            n = self._new('try', st)
            self._link(preds, n)
            hentries = [self._new('handler', h) for h in st.handlers]
            self.handlers.append(hentries)
            body_out = self._seq(st.body, [(n, 'next')])
            self.handlers.pop()
            out = self._seq(st.orelse, body_out)
            for h, hn in zip(st.handlers, hentries):
                out = out + self._seq(h.body, [(hn, 'next')])
            if st.finalbody:
                out = self._seq(st.finalbody, out)
            return out
        if isinstance(st, (ast.FunctionDef, ast.AsyncFunctionDef, ast.ClassDef)):
            n = self._new('def', st)
            self._link(preds, n)
            return [(n, 'next')]
        n = self._new('stmt', st)
        self._link(preds, n)
        self._exc_targets(n)
        return [(n, 'next')]

    # -- queries ---------------------------------------------------------------------------
    def graph(self, drop_labels=()):
        g = nx.DiGraph()
        g.add_nodes_from(self.nodes)
        for a, outs in self.succ.items():
            for b, lab in outs:
                if lab not in drop_labels:
                    g.add_edge(a, b)
        return g

    def node_of(self, stmt):
        return self.stmt_node.get(id(stmt))

    def find(self, pred):
        return [n.id for n in self.nodes.values() if n.stmt is not None and pred(n)]

    def reachable(self, src, drop_labels=(), avoid=()):
        seen = set()
        todo = [src]
        avoid = set(avoid)
        while todo:
            a = todo.pop()
            if a in seen:
                continue
            seen.add(a)
            for b, lab in self.succ[a]:
                if lab in drop_labels or b in avoid:
                    continue
                todo.append(b)
        return seen

    def dominators(self, drop_labels=()):
        return nx.immediate_dominators(self.graph(drop_labels), self.entry)

    def dominates(self, a, b, idom=None):
        idom = idom or self.dominators()
        if b not in idom:
            return True   # b unreachable
        cur = b
        while True:
            if cur == a:
                return True
            nxt = idom.get(cur)
            if nxt is None or nxt == cur:
                return False
            cur = nxt

    CROSSCHECK = False          # thorough tier: re-decide by bounded path enumeration and compare
    STATS = {'paths_enumerated': 0, 'crosschecks': 0}

    def every_path_passes(self, src, dst, through, drop_labels=(), avoid_edges=()):
        """True iff every path src -> dst contains a node of `through` (src/dst themselves excluded unless listed)."""
        r = self._every_path_passes(src, dst, through, drop_labels, avoid_edges)
        if CFG.CROSSCHECK:
            e = self._every_path_passes_enum(src, dst, through, drop_labels, avoid_edges)
            CFG.STATS['crosschecks'] += 1
            if e is not None and e != r:
                from .core import AnalysisError
                raise AnalysisError('must-pass-through verdicts disagree (reachability %s, path enumeration %s) between %r and %r'
                                    % (r, e, self.nodes[src], self.nodes[dst]))
        return r

    def _every_path_passes_enum(self, src, dst, through, drop_labels=(), avoid_edges=(), cap=20000):
        through = set(through)
        avoid_edges = set(avoid_edges)
        if src in through or dst in through:
            return True
        n = 0
        stack = [(src, {src: 1})]
        while stack:
            a, cnt = stack.pop()
            for b, lab in self.succ[a]:
                if lab in drop_labels or (a, lab) in avoid_edges or b in through:
                    continue
                if b == dst:
                    CFG.STATS['paths_enumerated'] += n + 1
                    return False
                if cnt.get(b, 0) >= 2:
                    continue
                n += 1
                if n > cap:
                    CFG.STATS['paths_enumerated'] += n
                    return None
                c2 = dict(cnt)
                c2[b] = c2.get(b, 0) + 1
                stack.append((b, c2))
        CFG.STATS['paths_enumerated'] += n
        return True

    def _every_path_passes(self, src, dst, through, drop_labels=(), avoid_edges=()):
        through = set(through)
        avoid_edges = set(avoid_edges)
        if src in through or dst in through:
            return True
        seen = set()
        todo = [src]
        while todo:
            a = todo.pop()
            if a in seen:
                continue
            seen.add(a)
            if a == dst:
                return False
            for b, lab in self.succ[a]:
                if lab in drop_labels or b in through or (a, lab) in avoid_edges:
                    continue
                todo.append(b)
        return True

    def witness_path(self, src, dst, avoid=(), drop_labels=()):
        avoid = set(avoid)
        prev = {src: None}
        todo = [src]
        while todo:
            a = todo.pop(0)
            if a == dst:
                path = []
                while a is not None:
                    path.append(a)
                    a = prev[a]
                return list(reversed(path))
            for b, lab in self.succ[a]:
                if lab in drop_labels or b in avoid or b in prev:
                    continue
                prev[b] = a
                todo.append(b)
        return None

    def paths(self, src, dst, max_visits=2, cap=10000, drop_labels=()):
        """Enumerate paths src->dst with each node visited at most `max_visits` times (loops unrolled <= that)."""
        out = []
        stack = [(src, [src], {src: 1})]
        while stack and len(out) < cap:
            a, path, cnt = stack.pop()
            for b, lab in self.succ[a]:
                if lab in drop_labels or cnt.get(b, 0) >= max_visits:
                    continue
                if b == dst:
                    out.append(path + [b])
                    continue
                c2 = dict(cnt)
                c2[b] = c2.get(b, 0) + 1
                stack.append((b, path + [b], c2))
        return out

    def describe(self, path):
        return [repr(self.nodes[i]) for i in path]

    def flow(self, init, transfer, entry=None):
        """Forward may-analysis.  state per node = frozenset of abstract values *before* the node.
        transfer(node, value, label) -> iterable of values after taking edge `label` out of node."""
        entry = self.entry if entry is None else entry
        state = {i: set() for i in self.nodes}
        state[entry] = set(init)
        work = [entry]
        while work:
            a = work.pop()
            for b, lab in self.succ[a]:
                new = set()
                for v in state[a]:
                    new.update(transfer(self.nodes[a], v, lab))
                if not new <= state[b]:
                    state[b] |= new
                    work.append(b)
        return state
