"""Front end of the static analyser: parse /repo, index functions, small AST helpers.

Nothing from /repo is ever imported or executed; every fact comes from `ast`.
"""
import ast
import os
import warnings

EXCLUDE_DIRS = {'.git', 'docs', 'Rules', 'unit_tests', 'future_research',
                '__pycache__', 'venv', '.venv', 'build', 'dist'}


class AnalysisError(Exception):
    """The analyser cannot give a verdict (anchor vanished, repo unparsable).  Exit code 2."""


class Module:
    def __init__(self, path, src):
        self.path = path
        self.src = src
        with warnings.catch_warnings():
            warnings.simplefilter('ignore')
            self.tree = ast.parse(src, filename=path)
        self.reindex()

    def reindex(self):
        """(Re)build the function / class / parent indexes; called again after the tree has been canonicalised."""
        self.funcs = {}      # local qualname ("Class.meth" / "func") -> FunctionDef
        self.classes = {}    # name -> ClassDef
        self.parents = {}
        for node in ast.walk(self.tree):
            for ch in ast.iter_child_nodes(node):
                self.parents[id(ch)] = node
        for node in self.tree.body:
            if isinstance(node, (ast.FunctionDef, ast.AsyncFunctionDef)):
                self.funcs[node.name] = node
            elif isinstance(node, ast.ClassDef):
                self.classes[node.name] = node
                for sub in node.body:
                    if isinstance(sub, (ast.FunctionDef, ast.AsyncFunctionDef)):
                        self.funcs[node.name + '.' + sub.name] = sub
        # nested function definitions are units of their own (none exist in the reference closure); they are
        # registered so that effect scans over all_funcs() cannot be evaded by wrapping code in a local def
        for name, f in list(self.funcs.items()):
            todo = list(ast.iter_child_nodes(f))
            while todo:
                n = todo.pop()
                if isinstance(n, (ast.FunctionDef, ast.AsyncFunctionDef)):
                    self.funcs[name + '.<locals>.' + n.name] = n
                    continue
                if isinstance(n, ast.ClassDef):
                    continue
                todo.extend(ast.iter_child_nodes(n))


def local_binding_order(fn, kinds=None):
    """Non-parameter local names of a function in order of first binding (source order), nested scopes excluded.
    If `kinds` is a dict it is filled with name -> kind of that first binding (assign / for / except / with / other)."""
    ps = set(a.arg for a in fn.args.posonlyargs + fn.args.args + fn.args.kwonlyargs)
    if fn.args.vararg:
        ps.add(fn.args.vararg.arg)
    if fn.args.kwarg:
        ps.add(fn.args.kwarg.arg)
    found = []
    kind_of = {}

    def mark(node, kind):
        for x in ast.walk(node):
            if isinstance(x, ast.Name) and isinstance(x.ctx, ast.Store):
                kind_of.setdefault((x.lineno, x.col_offset, x.id), kind)
    for n in walk_local(fn):
        if isinstance(n, (ast.Assign, ast.AnnAssign, ast.AugAssign)):
            for t in (n.targets if isinstance(n, ast.Assign) else [n.target]):
                mark(t, 'assign')
        elif isinstance(n, (ast.For, ast.comprehension)):
            mark(n.target, 'for')
        elif isinstance(n, ast.With):
            for it in n.items:
                if it.optional_vars is not None:
                    mark(it.optional_vars, 'with')
    for n in walk_local(fn):
        if isinstance(n, ast.Name) and isinstance(n.ctx, ast.Store) and n.id not in ps:
            found.append((n.lineno, n.col_offset, n.id, kind_of.get((n.lineno, n.col_offset, n.id), 'other')))
        elif isinstance(n, ast.ExceptHandler) and n.name and n.name not in ps:
            found.append((n.lineno, n.col_offset, n.name, 'except'))
    order = []
    for _, _, name, kind in sorted(found):
        if name not in order:
            order.append(name)
            if kinds is not None:
                kinds[name] = kind
    return order


class _Renamer(ast.NodeTransformer):
    def __init__(self, mapping):
        self.m = mapping

    def visit_Name(self, n):
        if n.id in self.m:
            n.id = self.m[n.id]
        return n

    def visit_ExceptHandler(self, n):
        if n.name in self.m:
            n.name = self.m[n.name]
        self.generic_visit(n)
        return n

    def visit_FunctionDef(self, n):
        return n      # nested scopes untouched

    visit_AsyncFunctionDef = visit_Lambda = visit_ClassDef = visit_FunctionDef


_REFNAMES = None
_REFKINDS = None


def refkinds():
    global _REFKINDS
    if _REFKINDS is None:
        import json
        p = os.path.join(os.path.dirname(os.path.abspath(__file__)), 'refkinds.json')
        try:
            with open(p) as f:
                _REFKINDS = json.load(f)
        except OSError:
            _REFKINDS = {}
    return _REFKINDS


class StmtText(str):
    """Unparsed text of a function in which a needle that is a whole simple statement (`a = b`, `a += b`) only matches a whole
    statement: `x = len(t)` is not "in" a function that says `x = len(t) - 1` (one simple statement per line in ast.unparse)."""
    def __contains__(self, needle):
        if isinstance(needle, str) and (' = ' in needle or ' += ' in needle or ' -= ' in needle) and not needle.rstrip().endswith(':') \
                and '\n' not in needle:
            start = 0
            while True:
                i = str.find(self, needle, start)
                if i < 0:
                    return False
                j = i + len(needle)
                before_ok = i == 0 or self[i - 1] in ' \n\t'
                if before_ok and (j == len(self) or self[j] == '\n'):
                    return True
                start = i + 1
        return str.__contains__(self, needle)


def TU(node):
    return StmtText(U(node))


def refidents():
    """every identifier (name, attribute, parameter) of the reference tree - what is NOT in here is new"""
    if not hasattr(refidents, '_c'):
        import json
        p = os.path.join(os.path.dirname(os.path.abspath(__file__)), 'refidents.json')
        try:
            with open(p) as f:
                refidents._c = set(json.load(f))
        except OSError:
            refidents._c = set()
    return refidents._c


def refnames():
    global _REFNAMES
    if _REFNAMES is None:
        import json
        p = os.path.join(os.path.dirname(os.path.abspath(__file__)), 'refnames.json')
        try:
            with open(p) as f:
                _REFNAMES = json.load(f)
        except OSError:
            _REFNAMES = {}
    return _REFNAMES


def normalise_local_names(rel, module, strict=False):
    """Rename local variables back to the reference names (same number of locals, same binding order): a pure renaming
    of locals is invisible to the rules.  Parameters, attributes and globals are never renamed."""
    ref = refnames()
    renamed = {}
    for lname, fn in module.funcs.items():
        want = ref.get(rel + '::' + lname)
        if not want:
            continue
        ckinds = {}
        cur = local_binding_order(fn, ckinds)
        if cur == want:
            continue
        # only names that are NEW are mapped, onto the reference names that DISAPPEARED, kind by kind (assigned local, loop
        # variable, exception name, with-target) and in order of first binding; a kind whose numbers of new and disappeared
        # names differ is left alone (one of the new names is a temporary, not a renaming)
        wkinds = refkinds().get(rel + '::' + lname, {})
        mapping = {}
        for kind in ('assign', 'for', 'except', 'with', 'other'):
            fresh = [c for c in cur if c not in want and ckinds.get(c) == kind]
            gone = [w for w in want if w not in cur and wkinds.get(w, 'assign') == kind]
            if fresh and len(fresh) == len(gone):
                mapping.update(zip(fresh, gone))
        if not mapping:
            continue
        # no capture: a target name must not already be used in the function for something else
        used = {n.id for n in walk_local(fn) if isinstance(n, ast.Name)} | {a.arg for a in fn.args.args}
        if any(w in used and w not in cur for w in mapping.values()):
            continue
        if strict:
            # first pass (before the temporaries pass): accept the mapping only if it makes the function's simple statements
            # textually identical to the reference ones - i.e. the edit is a pure renaming and nothing else
            import copy as _cp
            from .canon import refshapes, _stmts_in_order
            want_stmts = refshapes().get(rel + '::' + lname, {}).get('stmts')
            trial = _cp.deepcopy(fn)
            rt = _Renamer(mapping)
            trial.body = [rt.visit(st) for st in trial.body]
            got = [ast.unparse(n) for n in _stmts_in_order(trial)
                   if isinstance(n, (ast.Assign, ast.AugAssign, ast.Expr, ast.Return, ast.Raise, ast.Delete, ast.Assert))]
            if want_stmts is None or got != want_stmts:
                continue
        r = _Renamer(mapping)
        fn.body = [r.visit(st) for st in fn.body]
        renamed[lname] = mapping
    return renamed


class Repo:
    def __init__(self, root='/repo', overlay=None):
        self.root = root
        self.overlay = overlay or {}
        self.modules = {}
        self.errors = []
        paths = []
        for dirpath, dirnames, filenames in os.walk(root):
            dirnames[:] = sorted(d for d in dirnames if d not in EXCLUDE_DIRS)
            for fn in sorted(filenames):
                if fn.endswith('.py'):
                    paths.append(os.path.relpath(os.path.join(dirpath, fn), root))
        for p in self.overlay:
            if p not in paths:
                paths.append(p)
        for rel in paths:
            if rel in self.overlay:
                src = self.overlay[rel]
            else:
                with open(os.path.join(root, rel), 'rb') as f:
                    raw = f.read()
                try:
                    src = raw.decode('utf-8')
                except UnicodeDecodeError:
                    src = raw.decode('latin-1')
            src = src.replace('\r\n', '\n').replace('\r', '\n')
            if src.startswith('﻿'):
                src = src[1:]
            try:
                self.modules[rel] = Module(rel, src)
            except SyntaxError as e:
                self.errors.append('%s: %s' % (rel, e))
        # repo-wide pre-passes that must see every module before any per-module normalisation
        if os.environ.get('SA_NO_CANON') != '1':
            from . import canon as _cn0
            ridents = refidents()
            for rel, m_ in self.modules.items():
                if _cn0.strip_local_annotations(m_):
                    m_.reindex()
                if ridents and _cn0.inline_named_constants(rel, m_, ridents):
                    m_.reindex()
            _cn0.restore_instance_methods(self)
            fr = _cn0.normalise_function_names(self)
            if fr:
                self.functions_renamed = fr
            if ridents:
                self.ghost_removed = _cn0.drop_ghost_state(self, ridents, refnames())
        for rel in list(self.modules):
            try:
                if os.environ.get('SA_NO_RENAME') != '1':
                    # first pass: a function whose locals were merely renamed gets its reference names back BEFORE the
                    # temporaries pass (S9), which would otherwise take a renamed local for a fresh temporary
                    rn0 = normalise_local_names(rel, self.modules[rel], strict=True)
                    if rn0:
                        self.renamed = getattr(self, 'renamed', {})
                        self.renamed[rel] = dict(rn0)
                if os.environ.get('SA_NO_CANON') != '1':
                    from . import canon as _cn
                    for _round in range(2):
                        ih = _cn.inline_fresh_helpers(rel, self.modules[rel])
                        if ih:
                            self.modules[rel].reindex()
                            self.helpers_inlined = getattr(self, 'helpers_inlined', {})
                            self.helpers_inlined.setdefault(rel, {}).update(ih)
                        if _cn.fold_container_aliases(rel, self.modules[rel], refnames()):
                            self.modules[rel].reindex()
                        it = _cn.inline_fresh_temps(rel, self.modules[rel], refnames())
                        if it:
                            self.modules[rel].reindex()
                            self.inlined = getattr(self, 'inlined', {})
                            self.inlined.setdefault(rel, {}).update(it)
                        for step in (_cn.expand_enumerate_counters, _cn.expand_iter_sentinel_loops, _cn.unroll_constant_loops,
                                     _cn.fold_unpacked_loop_targets):
                            if step(rel, self.modules[rel]):
                                self.modules[rel].reindex()
                    it = _cn.inline_fresh_temps(rel, self.modules[rel], refnames())
                    if it:
                        self.modules[rel].reindex()
                if os.environ.get('SA_NO_RENAME') != '1':
                    rn = normalise_local_names(rel, self.modules[rel])
                    if rn:
                        self.renamed = getattr(self, 'renamed', {})
                        self.renamed.setdefault(rel, {}).update(rn)
                if os.environ.get('SA_NO_CANON') != '1':
                    from .canon import canonicalise
                    cn = canonicalise(rel, self.modules[rel])
                    if cn:
                        self.modules[rel].reindex()
                        self.canonicalised = getattr(self, 'canonicalised', {})
                        self.canonicalised[rel] = cn
                        # steps that uncover loops / temporaries (S34 any/all, S49 generator fusion, S48 rotation) are followed by one
                        # more round of the structural pre-passes and of the canonicaliser
                        if any(st_.startswith(('S34', 'S49', 'S48')) for steps_ in cn.values() for st_ in steps_):
                            from . import canon as _cn2
                            for step in (_cn2.fold_unpacked_loop_targets,):
                                if step(rel, self.modules[rel]):
                                    self.modules[rel].reindex()
                            if _cn2.inline_fresh_temps(rel, self.modules[rel], refnames()):
                                self.modules[rel].reindex()
                            if os.environ.get('SA_NO_RENAME') != '1' and normalise_local_names(rel, self.modules[rel]):
                                self.modules[rel].reindex()
                            cn2 = canonicalise(rel, self.modules[rel])
                            if cn2:
                                self.modules[rel].reindex()
                                for k_, v_ in cn2.items():
                                    self.canonicalised[rel].setdefault(k_, []).extend(v_)
                    from .canon import renumber
                    renumber(self.modules[rel])
            except SyntaxError as e:
                self.errors.append('%s: %s' % (rel, e))
        self._fi = {}
        if os.environ.get('SA_NO_CANON') != '1':
            from .canon import normalise_signatures
            sg = normalise_signatures(self)
            if sg:
                self.signatures = sg
            from .canon import positionalise_keywords
            pk = positionalise_keywords(self)
            if pk:
                self.positionalised = pk
        self.publish_method_names()

    # -- lookup -----------------------------------------------------------------------------
    def mod(self, rel):
        if rel not in self.modules:
            raise AnalysisError('anchor-missing module %s' % rel)
        return self.modules[rel]

    def has(self, qual):
        rel, _, name = qual.partition('::')
        return rel in self.modules and name in self.modules[rel].funcs

    def fn(self, qual):
        rel, _, name = qual.partition('::')
        m = self.mod(rel)
        if name == '<module>':
            return m.tree
        if name not in m.funcs:
            raise AnalysisError('anchor-missing function %s' % qual)
        return m.funcs[name]

    def cls(self, qual):
        rel, _, name = qual.partition('::')
        m = self.mod(rel)
        if name not in m.classes:
            raise AnalysisError('anchor-missing class %s' % qual)
        return m.classes[name]

    def publish_method_names(self):
        from . import effects
        effects.REPO_METHODS.clear()
        for rel, m in self.modules.items():
            for lname in m.funcs:
                if '.' in lname:
                    effects.REPO_METHODS.add(lname.rpartition('.')[2])

    def all_funcs(self):
        for rel, m in self.modules.items():
            for name, f in m.funcs.items():
                yield rel + '::' + name, f

    def parent(self, rel, node):
        return self.modules[rel].parents.get(id(node))

    def site(self, qual, node=None):
        rel = qual.partition('::')[0]
        if node is not None and hasattr(node, 'lineno'):
            return '%s:%d' % (rel, getattr(node, '_orig_lineno', node.lineno))
        return rel


# ---------------------------------------------------------------------------------------------
# AST helpers
# ---------------------------------------------------------------------------------------------

def U(node):
    """Normalised source text of a node (layout- and comment-independent)."""
    if node is None:
        return 'None'
    if isinstance(node, list):
        return '; '.join(U(n) for n in node)
    try:
        return ast.unparse(node)
    except Exception:
        return ast.dump(node)


# A lambda body is a bare expression evaluated on behalf of the enclosing function: effect scans must see it
# (seed C01-e hid a heap-list append in a lambda), so it is NOT a scope boundary for walk_local.
_SCOPE = (ast.FunctionDef, ast.AsyncFunctionDef, ast.ClassDef)


def walk_local(node):
    """ast.walk that does not descend into nested function/class definitions."""
    todo = [node]
    first = True
    while todo:
        n = todo.pop()
        if not first and isinstance(n, _SCOPE):
            continue
        first = False
        yield n
        todo.extend(reversed(list(ast.iter_child_nodes(n))))


def walk_stmts(body):
    """All statements (recursively) of a statement list, in source order, not entering nested defs."""
    for st in body:
        yield st
        if isinstance(st, _SCOPE):
            continue
        for field in ('body', 'orelse', 'finalbody'):
            sub = getattr(st, field, None)
            if isinstance(sub, list) and sub and isinstance(sub[0], ast.stmt):
                yield from walk_stmts(sub)
        if isinstance(st, ast.Try):
            for h in st.handlers:
                yield from walk_stmts(h.body)
        if hasattr(ast, 'Match') and isinstance(st, getattr(ast, 'Match')):
            for c in st.cases:
                yield from walk_stmts(c.body)


def calls_in(node):
    return [n for n in walk_local(node) if isinstance(n, ast.Call)]


def dotted(node):
    """'a.b.c' for Name/Attribute chains, else None."""
    parts = []
    while isinstance(node, ast.Attribute):
        parts.append(node.attr)
        node = node.value
    if isinstance(node, ast.Name):
        parts.append(node.id)
        return '.'.join(reversed(parts))
    return None


def call_name(call):
    return dotted(call.func) if isinstance(call, ast.Call) else None


NOCONST = object()


def const(node):
    if isinstance(node, ast.Constant):
        return node.value
    if isinstance(node, ast.UnaryOp) and isinstance(node.op, ast.USub) and isinstance(node.operand, ast.Constant) \
            and isinstance(node.operand.value, (int, float)):
        return -node.operand.value
    return NOCONST


def is_const(node, value):
    c = const(node)
    return c is not NOCONST and c == value and type(c) is type(value)


def kwarg(call, name, pos=None):
    for kw in call.keywords:
        if kw.arg == name:
            return kw.value
    if pos is not None and len(call.args) > pos and not any(isinstance(a, ast.Starred) for a in call.args[:pos + 1]):
        return call.args[pos]
    return None


def params(fn):
    a = fn.args
    return [x.arg for x in a.posonlyargs + a.args]


def param_default(fn, name):
    a = fn.args
    names = [x.arg for x in a.posonlyargs + a.args]
    if name in names:
        i = names.index(name) - (len(names) - len(a.defaults))
        if i >= 0:
            return a.defaults[i]
    for k, d in zip(a.kwonlyargs, a.kw_defaults):
        if k.arg == name:
            return d
    return None


def arg_for(call, fn, pname, bound=True):
    """The actual argument expression a call passes for parameter `pname` of `fn` (None if defaulted).
    bound=True: fn is a method called through an instance (skip `self`)."""
    ps = params(fn)
    if bound and ps and ps[0] in ('self', 'cls'):
        ps = ps[1:]
    for kw in call.keywords:
        if kw.arg == pname:
            return kw.value
    if pname in ps:
        i = ps.index(pname)
        if i < len(call.args) and not any(isinstance(a, ast.Starred) for a in call.args[:i + 1]):
            return call.args[i]
    return None


def assigned_names(target):
    out = []
    for n in ast.walk(target):
        if isinstance(n, ast.Name) and isinstance(n.ctx, (ast.Store, ast.Del)):
            out.append(n.id)
    return out


def stores_in(fn):
    """name -> list of (stmt, value-or-None) for every binding of a plain local name in fn."""
    out = {}
    for n in walk_local(fn):
        if isinstance(n, ast.Assign):
            for t in n.targets:
                if isinstance(t, ast.Name):
                    out.setdefault(t.id, []).append((n, n.value))
                else:
                    for nm in assigned_names(t):
                        out.setdefault(nm, []).append((n, None))
        elif isinstance(n, ast.AnnAssign) and isinstance(n.target, ast.Name):
            out.setdefault(n.target.id, []).append((n, n.value))
        elif isinstance(n, ast.AugAssign) and isinstance(n.target, ast.Name):
            out.setdefault(n.target.id, []).append((n, None))
        elif isinstance(n, (ast.For, ast.AsyncFor)):
            for nm in assigned_names(n.target):
                out.setdefault(nm, []).append((n, None))
        elif isinstance(n, (ast.With, ast.AsyncWith)):
            for it in n.items:
                if it.optional_vars is not None:
                    for nm in assigned_names(it.optional_vars):
                        out.setdefault(nm, []).append((n, None))
        elif isinstance(n, ast.ExceptHandler) and n.name:
            out.setdefault(n.name, []).append((n, None))
        elif isinstance(n, ast.NamedExpr) and isinstance(n.target, ast.Name):
            out.setdefault(n.target.id, []).append((n, n.value))
        elif isinstance(n, ast.comprehension):
            for nm in assigned_names(n.target):
                out.setdefault(nm, []).append((n, None))
    return out


def single_def(fn, name, stores=None):
    """The unique defining expression of local `name` in fn, or None."""
    st = (stores or stores_in(fn)).get(name, [])
    if len(st) == 1 and st[0][1] is not None:
        return st[0][1]
    return None


def expand(fn, node, stores=None, depth=3):
    """Replace names that have exactly one definition by that definition (bounded)."""
    stores = stores or stores_in(fn)
    ps = set(params(fn)) if isinstance(fn, (ast.FunctionDef, ast.AsyncFunctionDef)) else set()

    class T(ast.NodeTransformer):
        def __init__(self, d):
            self.d = d

        def visit_Name(self, n):
            if isinstance(n.ctx, ast.Load) and self.d > 0 and n.id not in ps:
                v = single_def(fn, n.id, stores)
                if v is not None:
                    import copy
                    return T(self.d - 1).visit(copy.deepcopy(v))
            return n
    import copy
    return T(depth).visit(copy.deepcopy(node))


def enclosing_stmt_chain(mod, node):
    """List of ancestors from the node up to the function (exclusive)."""
    out = []
    cur = mod.parents.get(id(node))
    while cur is not None and not isinstance(cur, (ast.FunctionDef, ast.AsyncFunctionDef, ast.Module, ast.ClassDef)):
        out.append(cur)
        cur = mod.parents.get(id(cur))
    return out


def enclosing_func(mod, node):
    cur = mod.parents.get(id(node))
    while cur is not None and not isinstance(cur, (ast.FunctionDef, ast.AsyncFunctionDef)):
        cur = mod.parents.get(id(cur))
    return cur


def str_consts(node):
    return [n.value for n in ast.walk(node) if isinstance(n, ast.Constant) and isinstance(n.value, str)]


def subscript_key(node):
    """For x['k'] return ('k'); else NOCONST."""
    if isinstance(node, ast.Subscript):
        return const(node.slice)
    return NOCONST


def same(a, b):
    return U(a) == U(b)


# ---------------------------------------------------------------------------------------------
# path conditions (syntactic): tests that must hold / fail for control to reach a statement
# ---------------------------------------------------------------------------------------------

def _ends_with_jump(body):
    return bool(body) and isinstance(body[-1], (ast.Continue, ast.Break, ast.Return, ast.Raise))


def path_conditions(mod, stmt, stop=None):
    """[(test, polarity)] for `stmt`: enclosing if-tests plus earlier sibling `if C: <jump>` guards, walking
    outwards until `stop` (a loop / function node; default: the enclosing function)."""
    conds = []
    cur = stmt
    while True:
        par = mod.parents.get(id(cur))
        if par is None or par is stop or isinstance(par, (ast.FunctionDef, ast.AsyncFunctionDef, ast.Module)):
            # siblings at the top level of the stop node
            if par is not None:
                _sibling_guards(par, cur, conds)
            break
        if isinstance(par, ast.If):
            if any(cur is s for s in par.body):
                conds.append((par.test, True))
                _sibling_guards_list(par.body, cur, conds)
            elif any(cur is s for s in par.orelse):
                conds.append((par.test, False))
                _sibling_guards_list(par.orelse, cur, conds)
        elif isinstance(par, ast.While):
            if any(cur is s for s in par.body):
                _sibling_guards_list(par.body, cur, conds)
                if par is not stop:
                    conds.append((par.test, True))
        else:
            _sibling_guards(par, cur, conds)
        cur = par
        if cur is stop:
            break
    return conds


def quiet_conditions(mod, stmt, stop=None):
    """path_conditions without the fall-through of guards that RAISE: `if T: raise E` before a statement does make the statement
    conditional on `not T`, but what happens otherwise is a loud abort of the run, not a silent skip of the statement - rules
    about "X is done whenever Y" want the silent conditions only."""
    out = []
    for t, pol in path_conditions(mod, stmt, stop):
        owner = mod.parents.get(id(t))
        while owner is not None and not isinstance(owner, ast.stmt):
            owner = mod.parents.get(id(owner))
        if isinstance(owner, ast.If) and not pol and owner.body and isinstance(owner.body[-1], ast.Raise) and not owner.orelse:
            continue
        out.append((t, pol))
    return out


def _sibling_guards(par, cur, conds):
    for field in ('body', 'orelse', 'finalbody'):
        lst = getattr(par, field, None)
        if isinstance(lst, list) and any(cur is s for s in lst):
            _sibling_guards_list(lst, cur, conds)
            return
    if isinstance(par, ast.Try):
        for h in par.handlers:
            if any(cur is s for s in h.body):
                _sibling_guards_list(h.body, cur, conds)
                return


def _sibling_guards_list(lst, cur, conds):
    for s in lst:
        if s is cur:
            break
        if isinstance(s, ast.If) and _ends_with_jump(s.body) and not s.orelse:
            conds.append((s.test, False))
        elif isinstance(s, ast.If) and not s.orelse:
            # `if A: if B: <jump>` (only that) is the guard `if A and B: <jump>`
            tests = [s.test]
            cur_if = s
            while len(cur_if.body) == 1 and isinstance(cur_if.body[0], ast.If) and not cur_if.body[0].orelse:
                cur_if = cur_if.body[0]
                tests.append(cur_if.test)
                if _ends_with_jump(cur_if.body):
                    conds.append((ast.BoolOp(op=ast.And(), values=tests), False))
                    break
        elif isinstance(s, ast.If) and s.orelse and _ends_with_jump(s.orelse) and not _ends_with_jump(s.body):
            conds.append((s.test, True))
