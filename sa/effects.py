"""Effect classification of call sites (DESIGN 2.5)."""
import ast

from .core import dotted, kwarg, const, NOCONST, U


def _is_stdout_expr(node):
    d = dotted(node)
    return d in ('sys.stdout', 'sys.__stdout__', 'stdout')


# names of methods defined by classes of the analysed repository (filled by core.Repo): a call of such a name is a repo call,
# not an argparse one
REPO_METHODS = set()


def stdout_write(call):
    """Return a short description if this call writes to standard output, else None."""
    d = dotted(call.func)
    if d == 'print' or d == 'builtins.print':
        f = kwarg(call, 'file')
        if f is None:
            return 'print(...) without file='
        if _is_stdout_expr(f):
            return 'print(..., file=sys.stdout)'
        if isinstance(f, ast.Constant) and f.value is None:
            return 'print(..., file=None)'
        return None
    if d in ('sys.stdout.write', 'sys.stdout.writelines', 'sys.__stdout__.write', 'sys.stdout.buffer.write',
             'sys.__stdout__.writelines', 'sys.stdout.buffer.writelines'):
        return d + '(...)'
    if d in ('pprint.pprint', 'pprint', 'pp', 'pprint.pp'):
        f = kwarg(call, 'stream', 1)
        if f is None or _is_stdout_expr(f):
            return d + '(...) to stdout'
        return None
    if d and d.startswith('traceback.print_'):
        f = kwarg(call, 'file')
        if f is not None and _is_stdout_expr(f):
            return d + '(file=sys.stdout)'
        return None
    if isinstance(call.func, ast.Attribute) and call.func.attr in ('print_usage', 'print_help', 'print_version') \
            and call.func.attr not in REPO_METHODS:
        f = kwarg(call, 'file', 0)
        if f is None or _is_stdout_expr(f) or (isinstance(f, ast.Constant) and f.value is None):
            return '%s() writes the argparse text to stdout' % call.func.attr
        return None
    if d in ('contextlib.redirect_stdout', 'redirect_stdout'):
        return 'redirect_stdout(...) swaps the process-wide sys.stdout (other threads write there meanwhile)'
    if d == 'input':
        if call.args and not (isinstance(call.args[0], ast.Constant) and call.args[0].value == ''):
            return 'input(<prompt>) writes the prompt to stdout'
        return None
    if d == 'os.write' and call.args and const(call.args[0]) == 1:
        return 'os.write(1, ...)'
    if d in ('os.system', 'subprocess.call', 'subprocess.run', 'subprocess.check_call', 'os.popen') :
        return d + '(...) may inherit stdout'
    if d in ('logging.basicConfig',):
        s = kwarg(call, 'stream')
        if s is not None and _is_stdout_expr(s):
            return 'logging to stdout'
    if d in ('logging.StreamHandler',) and call.args and _is_stdout_expr(call.args[0]):
        return 'logging.StreamHandler(sys.stdout)'
    return None


NONDET_PREFIX = ('random.', 'uuid.', 'time.', 'datetime.', 'secrets.')
NONDET_EXACT = {'os.urandom', 'os.getpid', 'id', 'hash', 'os.listdir', 'os.scandir', 'glob.glob', 'os.times',
                'datetime.now', 'datetime.datetime.now', 'datetime.utcnow', 'uuid4', 'uuid1', 'time', 'random', 'randint',
                'choice', 'shuffle', 'sample', 'getrandbits', 'SystemRandom', 'token_hex', 'token_bytes', 'perf_counter',
                'monotonic', 'os.getrandom', 'tempfile.mktemp', 'tempfile.mkstemp', 'socket.gethostname', 'platform.node',
                'getpass.getuser', 'os.getlogin'}
# deterministic members of the prefixes above
DET_OK = {'time.sleep', 'random.seed', 'random.Random', 'datetime.timedelta', 'datetime.datetime.strptime', 'datetime.datetime.fromisoformat',
          'datetime.date', 'time.strftime', 'datetime.datetime.fromtimestamp',
          # name-based uuids are pure functions of their arguments
          'uuid.uuid3', 'uuid.uuid5', 'uuid.UUID'}


DRAW_METHODS = {'?.random', '?.randint', '?.choice', '?.choices', '?.shuffle', '?.sample', '?.getrandbits', '?.uniform', '?.randrange'}


def nondet_source(ext_name):
    """ext_name: dotted name of an external callee (without the 'ext:' prefix)."""
    if ext_name in DRAW_METHODS:
        return True
    if ext_name in DET_OK:
        return False
    if ext_name in NONDET_EXACT:
        return True
    return any(ext_name.startswith(p) for p in NONDET_PREFIX)


FS_MUTATORS = {'os.unlink', 'os.remove', 'os.rename', 'os.replace', 'os.makedirs', 'os.mkdir', 'os.rmdir', 'os.removedirs',
               'os.truncate', 'os.chmod', 'os.symlink', 'os.link'}


def open_mode(call):
    """For open()/codecs.open()/io.open() return the mode string ('r' default), else None if not an open."""
    d = dotted(call.func)
    if d not in ('open', 'codecs.open', 'io.open'):
        return None
    m = kwarg(call, 'mode', 1)
    if m is None:
        return 'r'
    c = const(m)
    return c if isinstance(c, str) else '?'


def fs_mutation(call):
    d = dotted(call.func)
    if d is None:
        return None
    m = open_mode(call)
    if m is not None:
        if any(ch in m for ch in 'wax+') or m == '?':
            return 'open(%s, %r)' % (U(call.args[0]) if call.args else '?', m)
        return None
    if d in FS_MUTATORS or d.startswith('shutil.'):
        return d + '(' + ', '.join(U(a) for a in call.args) + ')'
    if d.endswith('.write_text') or d.endswith('.write_bytes') or d.endswith('.unlink') or d.endswith('.mkdir') \
            or d.endswith('.rmdir') or d.endswith('.touch') or d.endswith('.rename'):
        return d + '(...)'
    return None


def open_encoding(call):
    """Encoding argument of an open-like call: node or None (absent)."""
    d = dotted(call.func)
    if d == 'codecs.open':
        return kwarg(call, 'encoding', 2)
    if d in ('open', 'io.open'):
        return kwarg(call, 'encoding', 3)
    return None
