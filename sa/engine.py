"""Rule engine: obligations, verdicts, known findings, evidence, replay (DESIGN 2.6)."""
import json
import os
import time
import traceback

from .core import Repo, AnalysisError
from .resolve import Resolver, CallGraph

VERIF = os.path.dirname(os.path.dirname(os.path.abspath(__file__)))
REPO = os.environ.get('SA_REPO', '/repo')

OK, BAD, UNK = 'discharged', 'violation', 'inconclusive'


class Ctx:
    def __init__(self, repo, prop, tier='quick'):
        self.repo = repo
        self.prop = prop
        self.tier = tier
        self.obs = []
        self._res = None
        self._cg = None
        self.stats = {'functions': set(), 'call_sites': 0, 'paths': 0, 'kernel_states': 0}

    @property
    def resolver(self):
        if self._res is None:
            self._res = Resolver(self.repo)
        return self._res

    @property
    def cg(self):
        if self._cg is None:
            self._cg = CallGraph(self.repo, self.resolver)
        return self._cg

    def fn(self, qual):
        self.stats['functions'].add(qual)
        return self.repo.fn(qual)

    def _add(self, verdict, rule, site, msg, construct=None, facts=None, node=None, nontrivial=True):
        line = None
        if node is not None and hasattr(node, 'lineno'):
            line = '%s:%d' % (site.partition('::')[0], node.lineno)
        self.obs.append({'property': self.prop, 'rule': rule, 'site': site, 'verdict': verdict, 'msg': msg,
                         'construct': construct, 'facts': facts, 'where': line, 'nontrivial': nontrivial})

    def ok(self, rule, site, msg, facts=None, nontrivial=True):
        self._add(OK, rule, site, msg, facts=facts, nontrivial=nontrivial)

    def bad(self, rule, site, construct, msg, facts=None, node=None, firm=False):
        # firm: the construct is wrong whatever the functions around it do (an effect that is present, not a relation between
        # pieces of code) - no downgrade
        if firm:
            self._add(BAD, rule, site, msg, construct=construct, facts=facts, node=node)
            return
        # A function that calls a helper the reference tree does not have (and that could not be inlined, sa/canon.py S13)
        # keeps part of its behaviour in code no rule was confirmed on: a mismatch found there is reported as
        # inconclusive, not as a violation.
        d = self._signature_drift(site)
        if d:
            self._add(UNK, rule, site, 'not decided (the parameter list of %s differs from the one the rules were confirmed on; '
                      'arguments can no longer be bound by role): %s' % (', '.join(sorted(d)), str(construct)[:160]), facts=facts, node=node)
            return
        h = self._uninlined_helpers(site)
        if h:
            self._add(UNK, rule, site, 'not decided (%s now delegates to the new helper %s, which the analysis could not inline): %s'
                      % (site.partition('::')[2] or site, ', '.join(sorted(h)), str(construct)[:160]), facts=facts, node=node)
            return
        self._add(BAD, rule, site, msg, construct=construct, facts=facts, node=node)

    def _signature_drift(self, site):
        """Functions of the reference tree whose ARITY changed and that are `site` itself, called by it, or callers of it."""
        cache = self.__dict__.setdefault('_drift_cache', {})
        if '__all__' not in cache:
            drift = set()
            try:
                from .canon import refshapes
                import ast as _ast
                ref = refshapes()
                for rel, m in self.repo.modules.items():
                    for ln, fn in m.funcs.items():
                        r = ref.get(rel + '::' + ln)
                        if r and 'params' in r and isinstance(fn, _ast.FunctionDef) and len(fn.args.args) != len(r['params']):
                            drift.add(rel + '::' + ln)
            except Exception:
                drift = set()
            cache['__all__'] = drift
        drift = cache['__all__']
        if not drift:
            return set()
        if site in cache:
            return cache[site]
        out = set()
        try:
            import ast as _ast
            rel, _, lname = site.partition('::')
            mod = self.repo.modules.get(rel)
            if site in drift:
                out.add(lname)
            dn = {q.rpartition('::')[2].rpartition('.')[2]: q for q in drift}
            if mod is not None and lname in mod.funcs:
                for c in _ast.walk(mod.funcs[lname]):
                    if isinstance(c, _ast.Call):
                        nm = c.func.attr if isinstance(c.func, _ast.Attribute) else (c.func.id if isinstance(c.func, _ast.Name) else None)
                        if nm in dn:
                            out.add(nm)
            # callers of `site` among the drifted functions
            me = lname.rpartition('.')[2]
            for q in drift:
                r2, _, l2 = q.partition('::')
                f2 = self.repo.modules[r2].funcs.get(l2)
                if f2 is None:
                    continue
                for c in _ast.walk(f2):
                    if isinstance(c, _ast.Call):
                        nm = c.func.attr if isinstance(c.func, _ast.Attribute) else (c.func.id if isinstance(c.func, _ast.Name) else None)
                        if nm == me:
                            out.add(l2)
        except Exception:
            out = set()
        cache[site] = out
        return out

    def _uninlined_helpers(self, site):
        cache = self.__dict__.setdefault('_helper_cache', {})
        if site in cache:
            return cache[site]
        out = set()
        try:
            from .canon import refshapes
            ref = refshapes()
            rel, _, lname = site.partition('::')
            mod = self.repo.modules.get(rel)
            if mod is not None and lname in mod.funcs and ref:
                fresh = {ln.rpartition('.')[2] for ln in mod.funcs if (rel + '::' + ln) not in ref and '<locals>' not in ln}
                if fresh and (rel + '::' + lname) in ref:
                    import ast as _ast
                    for c in _ast.walk(mod.funcs[lname]):
                        if isinstance(c, _ast.Call):
                            nm = c.func.attr if isinstance(c.func, _ast.Attribute) else (c.func.id if isinstance(c.func, _ast.Name) else None)
                            if nm in fresh:
                                out.add(nm)
        except Exception:
            out = set()
        cache[site] = out
        return out

    def unk(self, rule, site, msg, facts=None, node=None):
        self._add(UNK, rule, site, msg, facts=facts, node=node)

    def check(self, cond, rule, site, msg_ok, construct, msg_bad, facts=None, node=None):
        if cond:
            self.ok(rule, site, msg_ok, facts)
        else:
            self.bad(rule, site, construct, msg_bad, facts, node)
        return cond

    def floor(self, rule, site, n, floor, what):
        if n < floor:
            self.unk(rule, site, 'instance floor not met: found %d %s, expected at least %d (confirmed by hand on the '
                                 'pinned tree) - the rule would pass vacuously' % (n, what, floor))
            return False
        return True


def load_known():
    p = os.path.join(VERIF, 'known_findings.json')
    if not os.path.exists(p):
        return {'findings': [], 'fixed': []}
    with open(p) as f:
        return json.load(f)


def is_known(ob, known):
    for k in known.get('findings', []):
        if k['property'] == ob['property'] and k['rule'] == ob['rule'] and k['site'] == ob['site'] \
                and k['construct'] == ob['construct']:
            return k
    return None


def run_property(prop, rules, tier='quick', repo=None, overlay=None, quiet=False):
    """Evaluate all rules of a property; returns (ctx, wall_s)."""
    t0 = time.time()
    repo = repo or Repo(REPO, overlay)
    ctx = Ctx(repo, prop, tier)
    if repo.errors:
        for e in repo.errors:
            ctx.unk(prop + '.parse', 'repo', 'source file does not parse: ' + e)
    for rule_id, func in rules:
        n0 = len(ctx.obs)
        try:
            func(ctx, rule_id)
        except AnalysisError as e:
            ctx.unk(rule_id, 'analyser', str(e))
        except RecursionError:
            ctx.unk(rule_id, 'analyser', 'recursion limit in analyser')
        except Exception as e:   # never let a traceback look like a violation
            tb = traceback.format_exc().strip().split('\n')
            ctx.unk(rule_id, 'analyser', 'internal error %s: %s @ %s' % (type(e).__name__, e, ' | '.join(tb[-4:-1])))
        if len(ctx.obs) == n0:
            ctx.unk(rule_id, 'analyser', 'rule produced no obligation (vacuous)')
    return ctx, time.time() - t0


def summarise(ctx, known):
    viol, kn, unk, okc = [], [], [], 0
    for ob in ctx.obs:
        if ob['verdict'] == BAD:
            k = is_known(ob, known)
            if k:
                kn.append((ob, k))
            else:
                viol.append(ob)
        elif ob['verdict'] == UNK:
            unk.append(ob)
        else:
            okc += 1
    return viol, kn, unk, okc


def fmt(ob):
    s = '%s %s [%s]' % (ob['rule'], ob['site'], ob['where'] or '-')
    if ob['construct']:
        s += ' construct=%r' % ob['construct']
    return s + ' :: ' + ob['msg']


def write_evidence(prop, tier, seed, ctx, wall, known, meta, selftest=None, extra=None):
    viol, kn, unk, okc = summarise(ctx, known)
    obs = ctx.obs
    distinct = {(o['rule'], o['site'], o['construct'] or o['msg']) for o in obs if o['nontrivial']}
    samples = []
    seen_rules = set()
    for o in obs:   # one sample per rule first, then violations
        if o['rule'] not in seen_rules:
            seen_rules.add(o['rule'])
            samples.append({k: o[k] for k in ('rule', 'site', 'verdict', 'msg', 'where', 'construct', 'facts')})
    for o in viol + [x[0] for x in kn] + unk:
        s = {k: o[k] for k in ('rule', 'site', 'verdict', 'msg', 'where', 'construct', 'facts')}
        if s not in samples:
            samples.append(s)
    cov = {
        'explanation': meta['explanation'],
        'rule': 'one obligation per (rule, site) instance extracted from the current /repo sources; an obligation is '
                'non-trivial when the rule had to interpret at least one construct of the site (table row, path, call '
                'site, set element); distinct = distinct (rule, site, construct) triples',
        'obligations': len(obs),
        'discharged': okc,
        'evaluations': len(obs),
        'distinct_nontrivial': len(distinct),
        'samples': samples[:60],
        'checker_cmd': meta['cmd'],
        'trusted_base': meta['trusted_base'],
        'rules': sorted({o['rule'] for o in obs}),
        'functions_analysed': sorted(ctx.stats['functions']),
        'call_sites': ctx.stats['call_sites'],
        'paths_enumerated': ctx.stats['paths'],
        'kernel_states': ctx.stats['kernel_states'],
        'known_findings_reported': [fmt(o) for o, _ in kn],
        'inconclusive': [fmt(o) for o in unk],
        'not_decided': meta.get('not_decided', ''),
        'exhaustive': False,
    }
    if selftest is not None:
        cov['selftest'] = selftest
    if extra:
        cov.update(extra)
    ev = {
        'property_id': prop,
        'tier': tier,
        'seed': seed,
        'level': 'other',
        'coverage': cov,
        'assumptions': meta['assumptions'],
        'wall_s': round(wall, 3),
        'violations': len(viol),
    }
    d = os.path.join(VERIF, 'evidence')
    os.makedirs(d, exist_ok=True)
    tmp = os.path.join(d, prop + '.json.tmp')
    with open(tmp, 'w') as f:
        json.dump(ev, f, indent=1, default=str)
    os.replace(tmp, os.path.join(d, prop + '.json'))
    return ev


def write_replay(prop, idx, ob):
    d = os.path.join(VERIF, 'evidence', 'replay')
    os.makedirs(d, exist_ok=True)
    p = os.path.join(d, '%s-%d.json' % (prop, idx))
    with open(p, 'w') as f:
        json.dump({'property': prop, 'rule': ob['rule'], 'site': ob['site'], 'construct': ob['construct'],
                   'where': ob['where'], 'msg': ob['msg'], 'facts': ob['facts']}, f, indent=1, default=str)
    return p
