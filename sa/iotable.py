"""File <-> open-site table with call-site specialisation (DESIGN A.4).

For every open()/codecs.open() in a set of modules: the file identity (tuple of the constant path components after
the base directory), the mode class, the reader kind (codecs / builtin) and the *encoding class*
(ENC = flows from the ruleset/training encoding option, ASCII, DEFAULT = no encoding argument, LIT(x)).
Paths and encodings that arrive through parameters are resolved by following call sites (bounded depth).
"""
import ast

from .core import U, walk_local, calls_in, call_name, const, NOCONST, params, stores_in, kwarg, arg_for
from .effects import open_mode, open_encoding

ENC_OPTIONS = {('TRAINING_DATASET_DETAILS', 'encoding'), ('training_settings', 'encoding')}
ENC_KEYS = {'encoding', 'alphabet_encoding'}


class IOTable:
    def __init__(self, ctx, modules, depth=4):
        self.ctx = ctx
        self.repo = ctx.repo
        self.res = ctx.resolver
        self.modules = set(modules)
        self.depth = depth
        self.callers = {}     # callee qual -> [(caller qual, call node)]
        for qual, fn in self.repo.all_funcs():
            if qual.partition('::')[0] not in self.modules:
                continue
            for c in calls_in(fn):
                for t in self.res.resolve_call(qual, c, self.modules):
                    if not t.startswith('ext:'):
                        self.callers.setdefault(t, []).append((qual, c))
        self._attr_defs = None

    # -- contexts ------------------------------------------------------------------------------
    def contexts(self, qual, depth=None, seen=()):
        """List of environments {param: (caller qual, arg expr, caller env)} for function `qual`."""
        depth = self.depth if depth is None else depth
        cs = self.callers.get(qual, [])
        if not cs or depth == 0 or qual in seen:
            return [{}]
        fn = self.repo.fn(qual)
        ps = params(fn)
        bound = '.' in qual.partition('::')[2] and ps and ps[0] in ('self', 'cls')
        out = []
        for cq, call in cs:
            for cenv in self.contexts(cq, depth - 1, seen + (qual,)):
                env = {'__caller__': (cq, call)}
                is_init = qual.endswith('.__init__')
                for p in ps[1:] if bound else ps:
                    a = arg_for(call, fn, p, bound=bound)
                    if a is not None:
                        env[p] = (cq, a, cenv)
                out.append(env)
        return out or [{}]

    # -- attribute definitions -------------------------------------------------------------------
    def attr_defs(self):
        if self._attr_defs is None:
            d = {}
            for qual, fn in self.repo.all_funcs():
                if qual.partition('::')[0] not in self.modules:
                    continue
                for n in walk_local(fn):
                    if isinstance(n, ast.Assign) and len(n.targets) == 1 and isinstance(n.targets[0], ast.Attribute):
                        d.setdefault(n.targets[0].attr, []).append((qual, n.value))
                    if isinstance(n, ast.Assign) and len(n.targets) == 1 and isinstance(n.targets[0], ast.Subscript) \
                            and isinstance(const(n.targets[0].slice), str):
                        d.setdefault('[' + const(n.targets[0].slice) + ']', []).append((qual, n.value))
            self._attr_defs = d
        return self._attr_defs

    # -- encoding classes ------------------------------------------------------------------------
    def enc_class(self, qual, node, env, depth=6):
        if node is None:
            return 'DEFAULT'
        if depth == 0:
            return 'UNKNOWN'
        c = const(node)
        if c is None:
            return 'DEFAULT'
        if isinstance(c, str):
            return 'ASCII' if c.lower() in ('ascii', 'us-ascii') else 'LIT(%s)' % c.lower()
        if isinstance(node, ast.Call) and isinstance(node.func, ast.Attribute) and node.func.attr == 'get' and len(node.args) == 2:
            if (const(node.args[0]), const(node.args[1])) in ENC_OPTIONS:
                return 'ENC'
        if isinstance(node, ast.Subscript) and isinstance(const(node.slice), str):
            k = const(node.slice)
            if k in ENC_KEYS:
                # program_info['encoding'] / ruleset_info['encoding'] / grammar['alphabet_encoding']: check a store if any
                defs = self.attr_defs().get('[' + k + ']', [])
                classes = {self.enc_class(q, v, {}, depth - 1) for q, v in defs}
                classes.discard('UNKNOWN')
                if classes and classes != {'ENC'} and 'ENC' not in classes:
                    return sorted(classes)[0]
                return 'ENC'
        if isinstance(node, ast.Attribute):
            defs = self.attr_defs().get(node.attr, [])
            classes = set()
            for q, v in defs:
                # resolve in the defining function under all of its contexts
                for e in self.contexts(q, 2):
                    classes.add(self.enc_class(q, v, e, depth - 1))
            classes.discard('UNKNOWN')
            if len(classes) == 1:
                return classes.pop()
            if classes:
                classes.discard('DEFAULT')   # `self.encoding = None` placeholders
                if len(classes) == 1:
                    return classes.pop()
                return 'MIXED(%s)' % ','.join(sorted(classes))
            return 'UNKNOWN'
        if isinstance(node, ast.Name):
            fn = self.repo.fn(qual) if qual.partition('::')[2] != '<module>' else None
            if fn is not None and node.id in params(fn):
                if node.id in env:
                    cq, a, cenv = env[node.id]
                    return self.enc_class(cq, a, cenv, depth - 1)
                from .core import param_default
                d = param_default(fn, node.id)
                if d is not None and '__caller__' in env:
                    return self.enc_class(qual, d, {}, depth - 1)
                return 'PARAM(%s)' % node.id
            if fn is not None:
                defs = [v for s, v in stores_in(fn).get(node.id, []) if v is not None]
                classes = {self.enc_class(qual, v, env, depth - 1) for v in defs}
                if len(classes) == 1:
                    return classes.pop()
        return 'UNKNOWN'

    # -- paths -----------------------------------------------------------------------------------
    def path_parts(self, qual, node, env, depth=8, at_line=None):
        """List of path components; constants as str, everything else as '<...>' descriptions."""
        if depth == 0:
            return ['<?>']
        c = const(node)
        if isinstance(c, str):
            return [c]
        if isinstance(node, ast.Call) and call_name(node) == 'os.path.join':
            out = []
            for a in node.args:
                out.extend(self.path_parts(qual, a, env, depth - 1, at_line))
            return out
        if isinstance(node, ast.BinOp) and isinstance(node.op, ast.Add):
            l = self.path_parts(qual, node.left, env, depth - 1, at_line)
            r = self.path_parts(qual, node.right, env, depth - 1, at_line)
            if len(l) == 1 and len(r) == 1:
                return [l[0] + r[0]]
            return l[:-1] + [l[-1] + r[0]] + r[1:]
        # pathlib spellings of the same paths: Path(a, b) / 'c', str(<path>), Path(__file__).resolve().parent
        def _is_pathish(e):
            if isinstance(e, ast.BinOp) and isinstance(e.op, ast.Div):
                return True
            if isinstance(e, ast.Call) and call_name(e) in ('Path', 'pathlib.Path', 'PurePath', 'pathlib.PurePath'):
                return True
            if isinstance(e, ast.Attribute) and e.attr == 'parent':
                return True
            if isinstance(e, ast.Call) and isinstance(e.func, ast.Attribute) and e.func.attr in ('resolve', 'absolute', 'joinpath', 'with_name'):
                return _is_pathish(e.func.value)
            if isinstance(e, ast.Name):
                fn_ = self.repo.fn(qual) if qual.partition('::')[2] != '<module>' else None
                if fn_ is not None:
                    sts_ = stores_in(fn_).get(e.id, [])
                    return len(sts_) == 1 and sts_[0][1] is not None and _is_pathish(sts_[0][1])
            return False
        if isinstance(node, ast.BinOp) and isinstance(node.op, ast.Div):
            return self.path_parts(qual, node.left, env, depth - 1, at_line) + self.path_parts(qual, node.right, env, depth - 1, at_line)
        if isinstance(node, ast.Call) and call_name(node) in ('Path', 'pathlib.Path', 'PurePath', 'pathlib.PurePath') and node.args:
            out = []
            for a in node.args:
                out.extend(self.path_parts(qual, a, env, depth - 1, at_line))
            return out
        if isinstance(node, ast.Call) and isinstance(node.func, ast.Attribute) and node.func.attr == 'joinpath' and _is_pathish(node.func.value):
            out = self.path_parts(qual, node.func.value, env, depth - 1, at_line)
            for a in node.args:
                out.extend(self.path_parts(qual, a, env, depth - 1, at_line))
            return out
        if U(node) in ('Path(__file__).resolve().parent', 'pathlib.Path(__file__).resolve().parent', 'Path(__file__).parent.resolve()',
                       'Path(__file__).absolute().parent', 'os.path.dirname(os.path.abspath(__file__))'):
            return ['<%s>' % 'os.path.dirname(os.path.realpath(__file__))'[:30]]
        if isinstance(node, ast.Call) and call_name(node) in ('str', 'os.fspath') and len(node.args) == 1 and _is_pathish(node.args[0]):
            return self.path_parts(qual, node.args[0], env, depth - 1, at_line)
        if isinstance(node, ast.Call) and call_name(node) == 'str':
            return ['<key>']
        if isinstance(node, ast.Call) and isinstance(node.func, ast.Attribute) and node.func.attr == 'get' \
                and len(node.args) == 1 and const(node.args[0]) == 'directory':
            sec = self.section_of(qual, node.func.value, env)
            return ['<dir:%s>' % sec]
        if isinstance(node, ast.Name):
            fn = self.repo.fn(qual) if qual.partition('::')[2] != '<module>' else None
            if fn is not None and node.id in params(fn):
                if node.id in env:
                    cq, a, cenv = env[node.id]
                    line = env['__caller__'][1].lineno if '__caller__' in env else None
                    return self.path_parts(cq, a, cenv, depth - 1, line)
                from .core import param_default
                d = param_default(fn, node.id)
                if d is not None and isinstance(const(d), str):
                    return [const(d)]
                return ['<param:%s>' % node.id]
            if fn is not None:
                sts = stores_in(fn).get(node.id, [])
                defs = [v for s, v in sts if v is not None]
                if len(defs) == 1 and len(sts) == 1:
                    return self.path_parts(qual, defs[0], env, depth - 1, at_line)
                if any(isinstance(s, ast.For) for s, v in sts):
                    return ['<file>']
                if defs and at_line is not None:
                    best = None
                    for s_, v in sts:
                        if v is not None and s_.lineno <= at_line and (best is None or s_.lineno > best[0].lineno):
                            best = (s_, v)
                    if best:
                        return self.path_parts(qual, best[1], env, depth - 1, best[0].lineno)
                if defs:
                    return ['<multi:%s>' % node.id]
        return ['<%s>' % U(node)[:30]]

    def section_of(self, qual, node, env):
        """config object expression -> section name if it is config['SEC'] (possibly through a parameter)."""
        if isinstance(node, ast.Subscript) and isinstance(const(node.slice), str):
            return const(node.slice)
        if isinstance(node, ast.Name) and node.id in env:
            cq, a, cenv = env[node.id]
            return self.section_of(cq, a, cenv)
        return '?'

    # -- open sites ------------------------------------------------------------------------------
    def open_sites(self):
        """[(qual, call, mode, kind, env)] for every open-like call, one record per calling context."""
        out = []
        for qual, fn in self.repo.all_funcs():
            if qual.partition('::')[0] not in self.modules:
                continue
            for c in calls_in(fn):
                m = open_mode(c)
                if m is None:
                    continue
                kind = 'codecs' if call_name(c) == 'codecs.open' else 'builtin'
                for env in self.contexts(qual):
                    out.append((qual, c, m, kind, env))
        return out

    def nearest_def_path(self, qual, call, name, env):
        """For names with several straight-line definitions: the definition that textually precedes the call."""
        fn = self.repo.fn(qual)
        best = None
        for s, v in stores_in(fn).get(name, []):
            if v is not None and s.lineno <= call.lineno and (best is None or s.lineno > best[0].lineno):
                best = (s, v)
        return self.path_parts(qual, best[1], env) if best else ['<?>']

    def file_id(self, qual, call, env):
        if not call.args:
            return ('<?>',)
        a = call.args[0]
        parts = self.path_parts(qual, a, env, at_line=call.lineno)
        # canonical id: the components after the last unknown (base directory) component
        keep = ('<dir:', '<key>', '<file>')
        last = -1
        for i, p_ in enumerate(parts[:-1]):
            if p_.startswith('<') and not p_.startswith(keep):
                last = i
        parts = parts[last + 1:]
        if len(parts) > 2:
            parts = parts[-2:]
        return tuple(parts)
