"""Index / slice domain: integer expressions normalised to  sum(c_i * atom_i) + c0  (DESIGN 2.4)."""
import ast
from fractions import Fraction

from .core import U


class Lin:
    __slots__ = ('t', 'c')

    def __init__(self, terms=None, c=0):
        self.t = {k: v for k, v in (terms or {}).items() if v != 0}
        self.c = c

    def __add__(self, o):
        t = dict(self.t)
        for k, v in o.t.items():
            t[k] = t.get(k, 0) + v
        return Lin(t, self.c + o.c)

    def __neg__(self):
        return Lin({k: -v for k, v in self.t.items()}, -self.c)

    def __sub__(self, o):
        return self + (-o)

    def scale(self, k):
        return Lin({a: v * k for a, v in self.t.items()}, self.c * k)

    def is_const(self):
        return not self.t

    def __eq__(self, o):
        return isinstance(o, Lin) and self.t == o.t and self.c == o.c

    def __hash__(self):
        return hash((tuple(sorted(self.t.items())), self.c))

    def __repr__(self):
        parts = []
        for k, v in sorted(self.t.items()):
            parts.append(('%s' % k) if v == 1 else ('%s*%s' % (v, k)))
        if self.c or not parts:
            parts.append(str(self.c))
        return ' + '.join(parts)


def lin(node, env=None, atom_alias=None):
    """Normalise an ast expression.  `env`: name -> Lin substitution.  Unknown sub-expressions become atoms
    keyed by their normalised text (after `atom_alias` renaming)."""
    env = env or {}
    if node is None:
        return None
    if isinstance(node, ast.Constant) and isinstance(node.value, int) and not isinstance(node.value, bool):
        return Lin({}, node.value)
    if isinstance(node, ast.UnaryOp) and isinstance(node.op, ast.USub):
        v = lin(node.operand, env, atom_alias)
        return None if v is None else -v
    if isinstance(node, ast.UnaryOp) and isinstance(node.op, ast.UAdd):
        return lin(node.operand, env, atom_alias)
    if isinstance(node, ast.BinOp) and isinstance(node.op, (ast.Add, ast.Sub)):
        a, b = lin(node.left, env, atom_alias), lin(node.right, env, atom_alias)
        if a is None or b is None:
            return None
        return a + b if isinstance(node.op, ast.Add) else a - b
    if isinstance(node, ast.BinOp) and isinstance(node.op, ast.Mult):
        a, b = lin(node.left, env, atom_alias), lin(node.right, env, atom_alias)
        if a is not None and b is not None:
            if a.is_const():
                return b.scale(a.c)
            if b.is_const():
                return a.scale(b.c)
    if isinstance(node, ast.Name) and node.id in env:
        return env[node.id]
    key = U(node)
    if atom_alias:
        key = atom_alias(key, node)
    return Lin({key: 1}, 0)


def equal(a, b):
    return a is not None and b is not None and a == b


def diff_const(a, b):
    """a - b if it is a constant, else None."""
    if a is None or b is None:
        return None
    d = a - b
    return d.c if d.is_const() else None
