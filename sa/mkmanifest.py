#!/usr/bin/env python3
"""Regenerate /verif/MANIFEST.json from the rule registry (one check per implemented property)."""
import json
import os
import sys

HERE = os.path.dirname(os.path.abspath(__file__))
sys.path.insert(0, os.path.dirname(HERE))
from sa.props import REGISTRY, META  # noqa: E402

PENDING = 'no static rule set is registered for this property yet in this revision of /verif (see DESIGN.md section 4 for the planned rules)'

BASELINE = "cd /repo && /venv/bin/python -m pytest -ra -q -p no:cacheprovider --timeout=900 --continue-on-collection-errors"


def main():
    props = [json.loads(l)['id'] for l in open(os.path.join(os.path.dirname(HERE), 'properties.jsonl'))]
    checks = []
    na = []
    for p in props:
        if p not in REGISTRY:
            na.append({'property_id': p, 'reason': PENDING})
            continue
        m = META[p]
        checks.append({
            'property_id': p,
            'quick_cmd': 'python3-vt sa/run.py --property %s --tier quick' % p,
            'thorough_cmd': 'python3-vt sa/run.py --property %s --tier thorough --jobs 16' % p,
            'evidence_file': '/verif/evidence/%s.json' % p,
            'replay_cmd_template': 'python3-vt sa/run.py --replay {path}',
            'engine': 'sa',
            'level_claimed': {
                'category': 'other',
                'text': 'Static analysis (no execution of /repo): ' + m['explanation'] + ' Decides these structural '
                        'necessary conditions on every run from the current sources; NOT decided: ' + m['not_decided'],
                'design_ref': 'DESIGN.md section 4, ' + p,
            },
            'level_note': 'Trusted base: ' + '; '.join(m['trusted_base']) + '. Assumptions: ' + '; '.join(m['assumptions']),
            'technique': m.get('technique', 'repo-specific static analysis over the Python ast: ordering-domain '
                                            'tabulation of comparison kernels, CFG path rules, call-graph effect rules'),
        })
    man = {
        'version': 1,
        'setup_cmd': 'python3-vt sa/run.py --self-check',
        'hooks': {
            'guard': 'LAKIW_PCFG_CRACKER_VERIF',
            'enable': 'none needed: the analyser only reads the sources under /repo; no hook or instrumentation exists',
            'baseline_off_cmd': BASELINE,
            'source_commits': [],
            'add_only': True,
        },
        'engines': [{
            'name': 'sa',
            'path': '/verif/sa',
            'serves_properties': [c['property_id'] for c in checks],
            'kind_free_text': 'repo-specific static analyser over the Python ast (python3-vt, stdlib ast + networkx): '
                              'import/callee resolver and call graph, per-function statement CFG with dominators and '
                              'bounded path enumeration, finite ordering domain for comparison kernels, linear '
                              'index/slice domain, effect tables (stdout, file open/encoding, fs mutation, '
                              'nondeterminism sources, configparser keys)',
        }],
        'checks': checks,
        'notes': 'Static-analysis family only. Exit 0 = all obligations discharged (KNOWN-FINDING lines for listed '
                 'findings), 1 = VIOLATION, 2 = ANALYSIS-ERROR (anchor vanished / construct not understood). Known '
                 'findings: /verif/known_findings.json. Seeded defects used to validate the checks: /verif/seeded/.',
        'not_applicable': na,
    }
    with open(os.path.join(os.path.dirname(HERE), 'MANIFEST.json'), 'w') as f:
        json.dump(man, f, indent=1)
    print('MANIFEST.json: %d checks, %d not_applicable' % (len(checks), len(na)))


if __name__ == '__main__':
    main()
