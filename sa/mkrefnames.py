#!/usr/bin/env python3
"""Regenerate sa/refnames.json: for every function of the current /repo tree the local (non-parameter) names in order of
first binding.  Run after a legitimate change of /repo (a fix: commit); the file is only used to undo pure renamings of
locals before the rules look at a function."""
import json
import os
import sys

HERE = os.path.dirname(os.path.abspath(__file__))
sys.path.insert(0, os.path.dirname(HERE))
os.environ['SA_NO_RENAME'] = '1'
os.environ['SA_NO_CANON'] = '1'
from sa.core import Repo, local_binding_order  # noqa: E402

repo = Repo(os.environ.get('SA_REPO', '/repo'))
out = {}
kinds_out = {}
for q, fn in repo.all_funcs():
    k = {}
    names = local_binding_order(fn, k)
    if names:
        out[q] = names
        kinds_out[q] = k
with open(os.path.join(HERE, 'refkinds.json'), 'w') as f:
    json.dump(kinds_out, f, indent=0, sort_keys=True)
with open(os.path.join(HERE, 'refnames.json'), 'w') as f:
    json.dump(out, f, indent=0, sort_keys=True)
print('refnames.json: %d functions' % len(out))

# reference shapes for sa/canon.py
import ast  # noqa: E402
from sa.canon import shapes_of  # noqa: E402
shapes = {}
nonscalar = []
for q, fn in repo.all_funcs():
    sh = shapes_of(fn)
    shapes[q] = sh
    for n in ast.walk(fn):
        if isinstance(n, ast.AugAssign) and isinstance(n.value, (ast.List, ast.ListComp, ast.Dict, ast.Set, ast.Tuple)):
            nonscalar.append('%s: %s' % (q, ast.unparse(n)))
with open(os.path.join(HERE, 'refshapes.json'), 'w') as f:
    json.dump(shapes, f, indent=0, sort_keys=True)
print('refshapes.json: %d functions' % len(shapes))
# every identifier of the reference tree (names, attributes, parameters, defs): what is not in here is NEW (sa/canon.py S43)
idents = set()
for rel, m in repo.modules.items():
    for n in ast.walk(m.tree):
        if isinstance(n, ast.Name):
            idents.add(n.id)
        elif isinstance(n, ast.Attribute):
            idents.add(n.attr)
        elif isinstance(n, ast.arg):
            idents.add(n.arg)
        elif isinstance(n, (ast.FunctionDef, ast.AsyncFunctionDef, ast.ClassDef)):
            idents.add(n.name)
        elif isinstance(n, ast.alias):
            idents.add((n.asname or n.name).split('.')[0])
with open(os.path.join(HERE, 'refidents.json'), 'w') as f:
    json.dump(sorted(idents), f, indent=0)
print('refidents.json: %d identifiers' % len(idents))
if nonscalar:
    print('WARNING: augmented assignments on containers (step S5 of sa/canon.py assumes none):')
    for x in nonscalar:
        print('   ' + x)
    sys.exit(1)
