"""Ordering domain: abstract interpretation of comparison kernels (DESIGN.md section 2.3, A.1).

A *term* is a tracked value, identified by the set of source spellings that denote it.  An
abstract state `sigma` assigns LT/EQ/GT to tracked pairs of terms.  Conditions are evaluated in
Kleene three-valued logic; statements are walked and the set of terminal *outcomes* reachable
under sigma is returned.  Nothing is executed: no value of any term is ever constructed.
"""
import ast
import itertools

from .core import U, const, NOCONST

LT, EQ, GT = 'LT', 'EQ', 'GT'
FLIP = {LT: GT, GT: LT, EQ: EQ}


class Terms:
    """spelling -> term id, plus constant terms."""

    def __init__(self, spellings=None):
        self.sp = dict(spellings or {})

    def add(self, spelling, term):
        self.sp[spelling] = term

    def of(self, node):
        s = U(node)
        if s in self.sp:
            return self.sp[s]
        c = const(node)
        if c is not NOCONST and not isinstance(c, (str, bytes)) and c is not None and not isinstance(c, bool):
            return ('const', c)
        return None


def rel_of(sigma, a, b):
    if a is None or b is None:
        return None
    if a == b:
        return EQ
    if isinstance(a, tuple) and isinstance(b, tuple) and a[0] == 'const' and b[0] == 'const':
        return LT if a[1] < b[1] else (GT if a[1] > b[1] else EQ)
    if (a, b) in sigma:
        return sigma[(a, b)]
    if (b, a) in sigma:
        return FLIP[sigma[(b, a)]]
    return None


def _cmp(op, rel):
    if rel is None:
        return None
    if isinstance(op, ast.Lt):
        return rel == LT
    if isinstance(op, ast.LtE):
        return rel in (LT, EQ)
    if isinstance(op, ast.Gt):
        return rel == GT
    if isinstance(op, ast.GtE):
        return rel in (GT, EQ)
    if isinstance(op, ast.Eq):
        return rel == EQ
    if isinstance(op, ast.NotEq):
        return rel != EQ
    return None


def eval_cond(node, sigma, terms, facts=None):
    """Kleene evaluation: True / False / None (unknown).
    `facts`: optional dict spelling -> bool for opaque boolean sub-conditions fixed by the caller."""
    if facts is not None:
        s = U(node)
        if s in facts:
            return facts[s]
    if isinstance(node, ast.Constant):
        return bool(node.value)
    t0 = terms.of(node) if not isinstance(node, (ast.Compare, ast.BoolOp, ast.UnaryOp, ast.Constant)) else None
    if t0 is not None and not isinstance(t0, tuple):
        r = rel_of(sigma, t0, ('const', 0))      # truthiness of a numeric term
        return None if r is None else (r != EQ)
    if isinstance(node, ast.UnaryOp) and isinstance(node.op, ast.Not):
        v = eval_cond(node.operand, sigma, terms, facts)
        return None if v is None else (not v)
    if isinstance(node, ast.BoolOp):
        vals = [eval_cond(v, sigma, terms, facts) for v in node.values]
        if isinstance(node.op, ast.And):
            if any(v is False for v in vals):
                return False
            if all(v is True for v in vals):
                return True
            return None
        if any(v is True for v in vals):
            return True
        if all(v is False for v in vals):
            return False
        return None
    if isinstance(node, ast.Compare):
        left = node.left
        res = True
        for op, right in zip(node.ops, node.comparators):
            v = _cmp(op, rel_of(sigma, terms.of(left), terms.of(right)))
            if v is False:
                return False
            if v is None:
                res = None
            left = right
        return res
    return None


class Hooks:
    """Customisation points for `outcomes`."""

    def __init__(self, allow_def=()):
        # spellings whose (single) defining assignment lies inside the tabulated statements
        self.allow_def = set(allow_def)

    def event(self, stmt):
        """Return a short string if the statement is an event of interest, else None."""
        return None

    def kills(self, stmt, terms):
        """True if the statement re-binds a tracked spelling (makes the tabulation unsound)."""
        for n in ast.walk(stmt):
            if isinstance(n, (ast.Name, ast.Attribute, ast.Subscript)) and isinstance(getattr(n, 'ctx', None), ast.Store):
                if U(n) in terms.sp and U(n) not in self.allow_def:
                    return True
        return False

    def loop(self, stmt):
        """How to treat a nested loop: return an event string; the walk continues after the loop."""
        return 'loop'

    def ret(self, node, sigma, terms, facts):
        if node is None:
            return 'None'
        c = const(node)
        if c is not NOCONST:
            return repr(c)
        if isinstance(node, (ast.Compare, ast.BoolOp)) or (isinstance(node, ast.UnaryOp) and isinstance(node.op, ast.Not)):
            v = eval_cond(node, sigma, terms, facts)
            return 'unknown' if v is None else repr(v)
        return 'expr'


def outcomes(stmts, sigma, terms, hooks=None, facts=None, trail=()):
    """Set of (kind, detail, trail) reachable by walking `stmts` under sigma.
    kind in {'return','continue','break','fall','raise','unknown'}"""
    hooks = hooks or Hooks()
    out = set()

    def walk(stmts, i, trail):
        while i < len(stmts):
            st = stmts[i]
            if isinstance(st, ast.If):
                v = eval_cond(st.test, sigma, terms, facts)
                branches = []
                if v is not False:
                    branches.append(st.body)
                if v is not True:
                    branches.append(st.orelse)
                for br in branches:
                    walk(list(br) + list(stmts[i + 1:]), 0, trail)
                return
            if isinstance(st, ast.Return):
                out.add(('return', hooks.ret(st.value, sigma, terms, facts), trail))
                return
            if isinstance(st, ast.Continue):
                out.add(('continue', '', trail))
                return
            if isinstance(st, ast.Break):
                out.add(('break', '', trail))
                return
            if isinstance(st, ast.Raise):
                out.add(('raise', '', trail))
                return
            if isinstance(st, (ast.For, ast.While, ast.AsyncFor)):
                ev = hooks.loop(st)
                if ev:
                    trail = trail + (ev,)
                i += 1
                continue
            if isinstance(st, (ast.Try, ast.With, ast.AsyncWith)) or st.__class__.__name__ in ('Match', 'TryStar'):
                ev = hooks.event(st)
                if ev:
                    trail = trail + (ev,)
                    i += 1
                    continue
                out.add(('unknown', st.__class__.__name__, trail))
                return
            if hooks.kills(st, terms):
                out.add(('unknown', 'rebinds ' + U(st)[:60], trail))
                return
            ev = hooks.event(st)
            if ev:
                trail = trail + (ev,)
            i += 1
        out.add(('fall', '', trail))

    walk(list(stmts), 0, trail)
    return out


def sigmas(pairs, domains=None):
    """All assignments of LT/EQ/GT (or the given per-pair domain) to the tracked pairs."""
    doms = [(domains or {}).get(p, (LT, EQ, GT)) for p in pairs]
    for combo in itertools.product(*doms):
        yield dict(zip(pairs, combo))


def tabulate(stmts, pairs, terms, hooks=None, domains=None, facts=None, consistent=None):
    """decision table: tuple(sorted sigma items) -> set of outcomes."""
    table = {}
    for s in sigmas(pairs, domains):
        if consistent is not None and not consistent(s):
            continue
        table[tuple(s[p] for p in pairs)] = outcomes(stmts, s, terms, hooks, facts)
    return table


def show_table(pairs, table):
    rows = []
    for key, outs in sorted(table.items()):
        rows.append({'state': dict((('%s?%s' % p), r) for p, r in zip(pairs, key)),
                     'outcomes': sorted('%s %s%s' % (k, d, (' after ' + '+'.join(t)) if t else '') for k, d, t in outs)})
    return rows
