"""Registry of property rule sets."""
import importlib

REGISTRY = {}
META = {}

for _i in range(1, 21):
    _id = 'C%02d' % _i
    try:
        _m = importlib.import_module('sa.props.c%02d' % _i)
    except ModuleNotFoundError as _e:
        if ('c%02d' % _i) in str(_e):
            continue
        raise
    REGISTRY[_id] = _m.rules
    META[_id] = _m.META
