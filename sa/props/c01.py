"""C01 - guesses are emitted in non-increasing probability order (DESIGN section 4, C01)."""
import ast

from ..core import (U, walk_local, calls_in, call_name, dotted, const, NOCONST, params, stores_in, single_def,
                    expand, walk_stmts, AnalysisError)
from ..order import Terms, tabulate, show_table, LT, EQ, GT, Hooks
from ..lin import lin, Lin
from ..effects import nondet_source
from .common import (PG, PGF, PQ, PQF, QI, GIO, find_prob_call, position_loops, neighbour_in_loop, analyse_step,
                     guard_offsets, implies_nonzero_or_negative, resolve_range_src, copy_depth)


# ---------------------------------------------------------------------------------------------
def queue_item_prob_spellings(ctx, recv_self, recv_other):
    """Spellings of 'the probability of the wrapped item' for both receivers, from QueueItem.__init__."""
    init = ctx.fn(QI + '__init__')
    ps = params(init)
    item_param = ps[1] if len(ps) > 1 else None
    attrs_item, attrs_prob = set(), set()
    for n in walk_local(init):
        if isinstance(n, ast.Assign) and len(n.targets) == 1 and isinstance(n.targets[0], ast.Attribute) \
                and isinstance(n.targets[0].value, ast.Name) and n.targets[0].value.id == 'self':
            if isinstance(n.value, ast.Name) and n.value.id == item_param:
                attrs_item.add(n.targets[0].attr)
            elif U(n.value) == "%s['prob']" % item_param:
                attrs_prob.add(n.targets[0].attr)
    sp = {}
    for recv, term in ((recv_self, 'A'), (recv_other, 'B')):
        for a in attrs_item:
            sp["%s.%s['prob']" % (recv, a)] = term
        for a in attrs_prob:
            sp['%s.%s' % (recv, a)] = term
    return sp


def _inexact_compare(stmts, terms):
    """A comparison whose operand merely *contains* a tracked spelling (arithmetic, abs(), round(), ...)."""
    for st in stmts:
        for n in ast.walk(st):
            if isinstance(n, ast.Compare):
                for opnd in [n.left] + list(n.comparators):
                    if terms.of(opnd) is None or (isinstance(terms.of(opnd), tuple)):
                        inner = [m for m in ast.walk(opnd) if isinstance(m, ast.expr) and U(m) in terms.sp]
                        if inner and U(opnd) not in terms.sp:
                            return U(n)[:100]
            if isinstance(n, ast.Call) and call_name(n) in ('math.isclose', 'isclose'):
                if any(U(m) in terms.sp for a in n.args for m in ast.walk(a)):
                    return U(n)[:100]
    return None


def r1_heap_order(ctx, rule):
    qual = QI + '__lt__'
    fn = ctx.fn(qual)
    ps = params(fn)
    if len(ps) != 2:
        ctx.unk(rule, qual, '__lt__ does not take (self, other)')
        return
    sp = queue_item_prob_spellings(ctx, ps[0], ps[1])
    if not sp:
        ctx.unk(rule, qual, 'cannot find how QueueItem stores the item / its probability')
        return
    terms = Terms(sp)
    stores = stores_in(fn)
    body = [s for s in fn.body if not (isinstance(s, ast.Expr) and isinstance(s.value, ast.Constant))]
    # inline single-definition locals into the returned expression
    body2 = []
    for s in body:
        if isinstance(s, ast.Return) and s.value is not None:
            s = ast.Return(value=expand(fn, s.value, stores))
        body2.append(s)
    pairs = [('A', 'B')]
    table = tabulate([s for s in body2 if not isinstance(s, ast.Assign)], pairs, terms)
    ctx.stats['kernel_states'] += len(table)
    facts = {'pairs': 'A = probability of self, B = probability of other', 'table': show_table(pairs, table)}
    want = {(GT,): "True", (LT,): "False"}
    good = True
    for key, exp in want.items():
        outs = table[key]
        vals = {d for k, d, t in outs if k == 'return'}
        if any(k != 'return' for k, d, t in outs) or 'unknown' in vals or 'expr' in vals:
            inexact = _inexact_compare(body2, terms)
            if inexact:
                ctx.bad(rule, qual, 'inexact comparison: ' + inexact,
                        'the heap order must be decided by an exact comparison of the two probabilities; comparing '
                        'through arithmetic (a tolerance) makes distinct probabilities tie and pop out of order', facts, fn)
            else:
                ctx.unk(rule, qual, 'cannot evaluate __lt__ for state A %s B' % key[0], facts)
            return
        if vals != {exp}:
            good = False
            ctx.bad(rule, qual, 'A %s B -> %s' % (key[0], sorted(vals)),
                    'heapq pops the minimum under __lt__; for the most probable item to be popped first, '
                    'self<other must be %s when prob(self) %s prob(other)' % (exp, '>' if key[0] == GT else '<'),
                    facts, fn)
    if good:
        ctx.ok(rule, qual, 'QueueItem.__lt__ orders by strictly higher probability first (tie answer unconstrained)', facts)


# ---------------------------------------------------------------------------------------------
HEAP_OK_CALLS = {'heapq.heappush', 'heapq.heappop', 'len', 'heapq.heapify', 'heappush', 'heappop', 'heapify',
                 'heapq.heappushpop', 'heapq.heapreplace', 'bool'}
MUTATORS = {'append', 'extend', 'insert', 'pop', 'remove', 'sort', 'reverse', 'clear', '__setitem__', '__delitem__'}


def r2_heap_ownership(ctx, rule):
    repo = ctx.repo
    closure = ctx.resolver.closure(['pcfg_guesser.py', 'prince_ling.py'])
    n_push = n_pop = 0
    uses = 0
    for qual, fn in repo.all_funcs():
        rel = qual.partition('::')[0]
        if rel not in closure:
            continue
        mod = repo.modules[rel]
        for n in walk_local(fn):
            if isinstance(n, ast.Attribute) and n.attr == 'p_queue':
                uses += 1
                ctx.stats['functions'].add(qual)
                par = mod.parents.get(id(n))
                # store of a fresh list
                if isinstance(n.ctx, ast.Store):
                    if isinstance(par, ast.Assign) and isinstance(par.value, ast.List) and not par.value.elts:
                        continue
                    ctx.bad(rule, qual, 'rebinds p_queue: ' + U(par)[:80],
                            'the heap list is re-bound to something other than a fresh empty list', node=n)
                    continue
                if isinstance(par, ast.Call) and n in par.args:
                    d = call_name(par)
                    if d in HEAP_OK_CALLS:
                        if d.endswith('heappush'):
                            n_push += 1
                            if par.args and par.args[0] is n and len(par.args) == 2:
                                v = par.args[1]
                                if not (isinstance(v, ast.Call) and call_name(v) == 'QueueItem'):
                                    ctx.bad(rule, qual, 'pushes ' + U(v)[:60],
                                            'a value that is not a QueueItem wrapper is pushed on the heap (ordering '
                                            'would not be by probability)', node=par)
                        if d.endswith('heappop'):
                            n_pop += 1
                        continue
                    ctx.bad(rule, qual, 'passes p_queue to ' + str(d),
                            'the heap list escapes to a function that is not a heapq primitive', node=par)
                    continue
                if isinstance(par, ast.Attribute) and par.value is n:
                    gp = mod.parents.get(id(par))
                    if isinstance(gp, ast.Call) and gp.func is par and par.attr in MUTATORS:
                        ctx.bad(rule, qual, 'p_queue.%s(...)' % par.attr,
                                'the heap list is mutated outside heapq (heap invariant, hence pop order, is lost)',
                                node=gp)
                        continue
                    if par.attr in MUTATORS:
                        ctx.bad(rule, qual, 'p_queue.%s' % par.attr, 'mutator of the heap list is taken', node=par)
                        continue
                    continue
                if isinstance(par, ast.Subscript) and par.value is n and isinstance(par.ctx, (ast.Store, ast.Del)):
                    ctx.bad(rule, qual, 'subscript store/del on p_queue',
                            'the heap list is mutated outside heapq', node=par)
                    continue
                if isinstance(par, ast.Delete):
                    ctx.bad(rule, qual, 'del p_queue', 'heap deleted', node=par)
                    continue
                if isinstance(par, ast.AugAssign):
                    ctx.bad(rule, qual, 'augmented assignment on p_queue', 'heap list mutated outside heapq', node=par)
                    continue
                if isinstance(par, ast.Assign) and par.value is n:
                    ctx.bad(rule, qual, 'alias of p_queue: ' + U(par)[:60],
                            'the heap list is aliased; mutations through the alias cannot be tracked', node=par)
                    continue
                # reads (bool tests, comparisons, iteration) are harmless
    if not ctx.floor(rule, PQF, n_push, 1, 'heappush sites on p_queue'):
        return
    if not ctx.floor(rule, PQF, n_pop, 1, 'heappop sites on p_queue'):
        return
    if not any(o['rule'] == rule and o['verdict'] != 'discharged' for o in ctx.obs):
        ctx.ok(rule, PQF + '::PcfgQueue', 'p_queue is touched only by heapq.heappush/heappop/len and its initial []; '
               'every pushed value is QueueItem(...)', {'uses': uses, 'pushes': n_push, 'pops': n_pop})


# ---------------------------------------------------------------------------------------------
def summarise_find_prob(ctx, rule, qual=PG + '_find_prob'):
    """Symbolic summary of _find_prob: returns dict or reports and returns None."""
    fn = ctx.fn(qual)
    ps = params(fn)
    if len(ps) != 3:
        ctx.unk(rule, qual, 'unexpected signature')
        return None
    pt_p, base_p = ps[1], ps[2]
    body = [s for s in fn.body if not (isinstance(s, ast.Expr) and isinstance(s.value, ast.Constant))]
    # accepted shape: acc = base ; for item in pt: ... acc *= G[item[0]][item[1]]['prob'] ; return acc
    acc = None
    init_ok = False
    loop = None
    ret = None
    for s in body:
        if isinstance(s, ast.Assign) and len(s.targets) == 1 and isinstance(s.targets[0], ast.Name) and loop is None:
            if acc is None or s.targets[0].id == acc:
                acc = s.targets[0].id
                init_ok = isinstance(s.value, ast.Name) and s.value.id == base_p
                init_txt = U(s.value)
        elif isinstance(s, ast.For) and loop is None:
            loop = s
        elif isinstance(s, ast.Return):
            ret = s
        elif isinstance(s, ast.Assign) and loop is not None:
            return {'shape': 'statement after loop: ' + U(s)}
    if loop is None or ret is None or acc is None:
        # math.prod / reduce form
        if ret is not None and isinstance(ret.value, ast.BinOp) and isinstance(ret.value.op, ast.Mult):
            return {'shape': 'product-expression', 'text': U(ret.value)}
        return {'shape': 'unrecognised'}
    facts = {'accumulator': acc, 'init': init_txt, 'loop_iter': U(loop.iter), 'returns': U(ret.value)}
    facts['init_ok'] = init_ok
    facts['iter_ok'] = isinstance(loop.iter, ast.Name) and loop.iter.id == pt_p
    facts['ret_ok'] = isinstance(ret.value, ast.Name) and ret.value.id == acc
    # loop body: locals single-def from the loop var, one update of acc
    lv = loop.target.id if isinstance(loop.target, ast.Name) else None
    local = {}
    updates = []
    other = []
    for s in walk_stmts(loop.body):
        if isinstance(s, ast.Assign) and len(s.targets) == 1 and isinstance(s.targets[0], ast.Name):
            if s.targets[0].id == acc:
                updates.append(('assign', s))
            else:
                local[s.targets[0].id] = s.value
        elif isinstance(s, ast.AugAssign) and isinstance(s.target, ast.Name) and s.target.id == acc:
            updates.append(('aug', s))
        elif isinstance(s, (ast.If, ast.Continue, ast.Break, ast.Return, ast.For, ast.While, ast.Try)):
            other.append(s.__class__.__name__)
        elif isinstance(s, ast.Expr) and isinstance(s.value, ast.Constant):
            pass
        else:
            other.append(U(s)[:40])
    facts['other_statements_in_loop'] = other

    def inl(node):
        import copy

        class T(ast.NodeTransformer):
            def visit_Name(self, n):
                if isinstance(n.ctx, ast.Load) and n.id in local:
                    return T().visit(copy.deepcopy(local[n.id]))
                return n
        return T().visit(copy.deepcopy(node))
    factor = None
    upd_ok = False
    if len(updates) == 1:
        kind, s = updates[0]
        if kind == 'aug' and isinstance(s.op, ast.Mult):
            factor = inl(s.value)
            upd_ok = True
        elif kind == 'assign' and isinstance(s.value, ast.BinOp) and isinstance(s.value.op, ast.Mult):
            l, r = s.value.left, s.value.right
            if isinstance(l, ast.Name) and l.id == acc:
                factor, upd_ok = inl(r), True
            elif isinstance(r, ast.Name) and r.id == acc:
                factor, upd_ok = inl(l), True
        facts['update'] = U(s)
    facts['n_updates'] = len(updates)
    facts['update_is_multiplication'] = upd_ok
    if factor is not None and lv:
        facts['factor'] = U(factor)
        facts['factor_ok'] = U(factor) == "self.grammar[%s[0]][%s[1]]['prob']" % (lv, lv)
    else:
        facts['factor_ok'] = False
    # purity: no attribute/subscript stores, no calls except none
    impure = []
    for n in walk_local(fn):
        if isinstance(n, (ast.Attribute, ast.Subscript)) and isinstance(n.ctx, (ast.Store, ast.Del)):
            impure.append(U(n))
        if isinstance(n, ast.Call):
            impure.append('call ' + U(n)[:40])
        if isinstance(n, (ast.Global, ast.Nonlocal)):
            impure.append('global')
    facts['impure'] = impure
    facts['shape'] = 'fold'
    return facts


def r3b_prob_pure(ctx, rule):
    qual = PG + '_find_prob'
    f = summarise_find_prob(ctx, rule, qual)
    if f is None:
        return
    if f.get('impure') is None:
        fn = ctx.repo.fn(qual)
        imp = [U(n) for n in walk_local(fn) if isinstance(n, (ast.Attribute, ast.Subscript))
               and isinstance(n.ctx, (ast.Store, ast.Del))]
        f['impure'] = imp
    if f['impure']:
        ctx.bad(rule, qual, 'side effects: %s' % f['impure'][:3],
                '_find_prob must be a pure function: every parent recomputes its co-parents\' probabilities with it '
                'and the adoption decision needs all of them to see the same values', f, ctx.repo.fn(qual))
    else:
        ctx.ok(rule, qual, '_find_prob has no stores to attributes/subscripts/globals and calls nothing', f)


def r3_prob_fold(ctx, rule):
    qual = PG + '_find_prob'
    f = summarise_find_prob(ctx, rule, qual)
    if f is None:
        return
    if f['shape'] != 'fold':
        ctx.unk(rule, qual, 'probability function is not a recognised left fold: %s' % f)
        return
    checks = [('init_ok', 'accumulator does not start from the base-structure probability parameter (init = %s)' % f.get('init')),
              ('iter_ok', 'loop does not run over the parse-tree parameter in list order (iter = %s)' % f.get('loop_iter')),
              ('update_is_multiplication', 'accumulator update is not a single multiplication (%s)' % f.get('update')),
              ('factor_ok', 'factor is not the probability of the chosen group G[type][index][\'prob\'] (%s)' % f.get('factor')),
              ('ret_ok', 'does not return the accumulator (%s)' % f.get('returns'))]
    bad = False
    for key, msg in checks:
        if not f.get(key):
            bad = True
            ctx.bad(rule, qual, key + ' fails: ' + str(f.get({'init_ok': 'init', 'iter_ok': 'loop_iter',
                                                              'update_is_multiplication': 'update',
                                                              'factor_ok': 'factor', 'ret_ok': 'returns'}[key])),
                    msg, f, ctx.repo.fn(qual))
    if f['other_statements_in_loop']:
        bad = True
        ctx.bad(rule, qual, 'extra control flow in the fold: %s' % f['other_statements_in_loop'],
                'the product loop contains statements other than the multiplication (a skipped or conditional '
                'factor makes the attached probability differ from the product)', f, ctx.repo.fn(qual))
    if f['impure']:
        bad = True
        ctx.bad(rule, qual, 'side effects: %s' % f['impure'][:3],
                '_find_prob must be a pure function of (pt, base_prob, grammar): co-parents recompute each other\'s '
                'probabilities with it', f, ctx.repo.fn(qual))
    if not bad:
        ctx.ok(rule, qual, 'prob = base_prob * PRODUCT_i grammar[type_i][index_i][prob], left to right, pure', f)


# ---------------------------------------------------------------------------------------------
def pt_item_dicts(fn):
    """dict displays / stepwise constructions with 'pt', 'prob', 'base_prob' entries in fn.
    Returns list of dict(key -> value node, node)."""
    out = []
    for n in walk_local(fn):
        if isinstance(n, ast.Dict):
            d = {}
            for k, v in zip(n.keys, n.values):
                c = const(k) if k is not None else NOCONST
                if isinstance(c, str):
                    d[c] = v
            if 'pt' in d or 'prob' in d:
                out.append({'keys': d, 'node': n, 'name': None})
    # attach later stores  name['prob'] = ...
    stores = stores_in(fn)
    for rec in out:
        # find name bound to this dict
        for name, lst in stores.items():
            for st, val in lst:
                if val is rec['node']:
                    rec['name'] = name
        if rec['name']:
            for n in walk_local(fn):
                if isinstance(n, ast.Assign) and len(n.targets) == 1 and isinstance(n.targets[0], ast.Subscript) \
                        and isinstance(n.targets[0].value, ast.Name) and n.targets[0].value.id == rec['name']:
                    c = const(n.targets[0].slice)
                    if isinstance(c, str):
                        rec['keys'].setdefault(c, n.value)
    return out


def r4_prob_pt_coupling(ctx, rule):
    sites = [PG + 'initalize_base_structures', PG + 'find_children', PG + '_recursive_restore_prob_order']
    n = 0
    for qual in sites:
        fn = ctx.fn(qual)
        ps = params(fn)
        recs = [r for r in pt_item_dicts(fn) if 'pt' in r['keys']]
        if not recs:
            ctx.unk(rule, qual, 'no pt_item construction found')
            continue
        for r in recs:
            n += 1
            k = r['keys']
            facts = {kk: U(v) for kk, v in k.items()}
            if 'prob' not in k or 'base_prob' not in k:
                ctx.bad(rule, qual, 'pt_item without prob/base_prob: %s' % sorted(k),
                        'a queued item lacks its probability or base probability', facts, r['node'])
                continue
            fp = find_prob_call(k['prob'])
            if fp is None:
                ctx.bad(rule, qual, "'prob' = " + U(k['prob'])[:80],
                        "the probability attached to a pre-terminal is not computed by _find_prob from its own parse "
                        "tree (incremental or cached values can differ by an ulp from the co-parents' recomputation "
                        "and break order and the adoption tie-break)", facts, k['prob'])
                continue
            x, b = fp
            pt_txt = U(k['pt'])
            name = r['name']
            x_ok = U(x) == pt_txt or (name and U(x) == "%s['pt']" % name)
            # the list stored under 'pt' may be an (initially empty) list literal filled afterwards
            if not x_ok and isinstance(k['pt'], ast.List) and name and U(x) == "%s['pt']" % name:
                x_ok = True
            b_txt = U(k['base_prob'])
            b_ok = U(b) == b_txt or (name and U(b) == "%s['base_prob']" % name)
            if not x_ok:
                ctx.bad(rule, qual, "prob computed from %s but 'pt' is %s" % (U(x), pt_txt),
                        'the probability is computed from a different parse tree than the one queued', facts, k['prob'])
                continue
            if not b_ok:
                ctx.bad(rule, qual, "prob uses base %s but 'base_prob' is %s" % (U(b), b_txt),
                        'probability and stored base probability disagree', facts, k['prob'])
                continue
            # base_prob propagated unchanged from the parent / the base structure
            parent_item = ps[1] if len(ps) > 1 else None
            if qual.endswith('initalize_base_structures'):
                prop_ok = bool(isinstance(k['base_prob'], ast.Subscript) and const(k['base_prob'].slice) == 'prob')
            else:
                prop_ok = U(k['base_prob']) == "%s['base_prob']" % parent_item
            if not prop_ok:
                ctx.bad(rule, qual, "'base_prob' = " + b_txt,
                        'the base-structure probability is not propagated unchanged to the child', facts, k['base_prob'])
                continue
            ctx.ok(rule, qual, "'prob' = _find_prob(<the queued pt>, <the stored base_prob>); base_prob propagated", facts)
    ctx.floor(rule, PGF, n, 3, 'pt_item constructions')


# ---------------------------------------------------------------------------------------------
def successor_sites(ctx, rule, quals):
    """Analyse the successor construction in each function; returns list of (qual, nb, verdict facts)."""
    out = []
    for qual in quals:
        fn = ctx.fn(qual)
        mod = ctx.repo.modules[qual.partition('::')[0]]
        stores = stores_in(fn)
        found = False
        for loop, pos, item, src, start in position_loops(fn):
            nb = neighbour_in_loop(fn, loop, pos, item, src, stores)
            if nb is None:
                continue
            if not resolve_range_src(fn, nb, stores):
                continue
            # alias: src may be a local alias of pt_item['pt']
            analyse_step(fn, nb, stores)
            found = True
            out.append((qual, fn, mod, nb, start))
        if not found:
            ctx.unk(rule, qual, 'no neighbour construction (copy + one-position replacement in a position loop) found')
    return out


def check_successor(ctx, rule, qual, fn, mod, nb, want_step=1):
    facts = {'loop_over': nb.src, 'position_var': nb.pos, 'copy': U(nb.copy_stmt) if nb.copy_stmt else None,
             'store': U(nb.store_stmt), 'step': repr(nb.step), 'type_preserved': nb.type_ok}
    ok = True
    if nb.step is None or not nb.step.is_const():
        ctx.unk(rule, qual, 'cannot normalise the stored index', facts, nb.store_stmt)
        return False
    if nb.step.c != want_step:
        ok = False
        ctx.bad(rule, qual, 'index step %+d (store %s)' % (nb.step.c, U(nb.store_stmt)),
                'a %s must differ from the node by exactly %+d at one position' %
                ('child' if want_step > 0 else 'parent', want_step), facts, nb.store_stmt)
    if not nb.type_ok:
        ok = False
        ctx.bad(rule, qual, 'type component changed: ' + U(nb.store_stmt),
                'the variable type at the position must be kept', facts, nb.store_stmt)
    return ok


def r5_successor(ctx, rule):
    sites = successor_sites(ctx, rule, [PG + 'find_children', PG + '_recursive_restore_prob_order'])
    n = 0
    for qual, fn, mod, nb, start in sites:
        n += 1
        ok = check_successor(ctx, rule, qual, fn, mod, nb, +1)
        # guard: the store is reached only if ITEM[1] + 1 != len(self.grammar[ITEM[0]])
        target = Lin({'ITEM[1]': 1, 'len(self.grammar[ITEM[0]])': -1}, 1)   # I + 1 - LEN  (<= 0 invariant)
        gfacts = guard_offsets(mod, fn, nb, nb.store_stmt, None)
        good = [g for g in gfacts if implies_nonzero_or_negative(g[0], g[1], g[2], target)]
        related = [g for g in gfacts if 'len(self.grammar[ITEM[0]])' in g[0].t]
        facts = {'guards': [(repr(g[0]), g[1], g[2], g[3]) for g in gfacts]}
        if good:
            if ok:
                ctx.ok(rule, qual, 'child = copy(parent) with index+1 at one position, guarded by '
                       'index+1 < number of groups', dict(facts, store=U(nb.store_stmt)))
        elif related:
            ctx.bad(rule, qual, 'bound guard %s (polarity %s)' % (related[0][3], related[0][2]),
                    'the guard that stops at the last group of a variable is off: it must exclude exactly '
                    'index + 1 == len(groups)', facts, nb.store_stmt)
        else:
            ctx.bad(rule, qual, 'no bound guard before ' + U(nb.store_stmt),
                    'a child is built without checking that the variable has a further group', facts, nb.store_stmt)
    ctx.floor(rule, PGF, n, 2, 'successor constructions')


# ---------------------------------------------------------------------------------------------
def r6_loader_order(ctx, rule):
    n = 0
    for qual, listname in ((GIO + '_load_from_file', None), (GIO + '_load_base_structures', None)):
        fn = ctx.fn(qual)
        ps = params(fn)
        tgt = ps[0]
        appends = 0
        bad = False
        for c in calls_in(fn):
            if isinstance(c.func, ast.Attribute):
                recv = U(c.func.value)
                if recv == tgt or recv.startswith(tgt + '['):
                    m = c.func.attr
                    if m == 'append':
                        if recv == tgt:
                            appends += 1
                    elif m in ('insert', 'reverse', 'pop', 'remove', 'clear', 'extend'):
                        if recv == tgt:
                            bad = True
                            ctx.bad(rule, qual, '%s.%s(...)' % (tgt, m),
                                    'the loader must keep the file order of the groups (descending probability); '
                                    '%s reorders or drops entries' % m, node=c)
                    elif m == 'sort':
                        if recv == tgt:
                            key = next((k.value for k in c.keywords if k.arg == 'key'), None)
                            rev = next((k.value for k in c.keywords if k.arg == 'reverse'), None)
                            okk = key is not None and "['prob']" in U(key) and rev is not None and const(rev) is True
                            if not okk:
                                bad = True
                                ctx.bad(rule, qual, U(c)[:80], 'groups re-sorted other than descending by prob', node=c)
            d = call_name(c)
            if d in ('sorted', 'reversed', 'random.shuffle') and c.args and U(c.args[0]) == tgt:
                bad = True
                ctx.bad(rule, qual, U(c)[:80], 'groups reordered', node=c)
        # stores by index / slicing
        for nn in walk_local(fn):
            if isinstance(nn, ast.Subscript) and isinstance(nn.ctx, (ast.Store, ast.Del)) and U(nn.value) == tgt:
                if isinstance(nn.slice, ast.Slice) or True:
                    bad = True
                    ctx.bad(rule, qual, U(nn), 'positional store into the group list', node=nn)
        n += appends
        if appends == 0:
            ctx.unk(rule, qual, 'no append to %s found' % tgt)
        elif not bad:
            ctx.ok(rule, qual, '%s is filled by append only, in file order' % tgt, {'appends': appends})
    ctx.floor(rule, GIO, n, 2, 'append sites')
    # group lists are built only by the order-preserving loader: no post-processing in _load_terminals / load_grammar
    for qual in (GIO + '_load_terminals', GIO + 'load_grammar', GIO + '_load_from_multiple_files'):
        fn = ctx.fn(qual)
        g = params(fn)[1] if qual.endswith('_load_terminals') else ('grammar')
        probs = []
        for c in calls_in(fn):
            d = call_name(c)
            if isinstance(c.func, ast.Attribute) and c.func.attr in ('append', 'insert', 'sort', 'reverse', 'extend', 'pop') \
                    and U(c.func.value).startswith(g + '['):
                probs.append(U(c)[:70])
            if d in ('sorted', 'reversed') and c.args and (U(c.args[0]).startswith(g + '[') or True) and qual.endswith('_load_terminals'):
                probs.append(U(c)[:70])
        for nn in walk_local(fn):
            if isinstance(nn, ast.Assign) and isinstance(nn.targets[0], ast.Subscript) and U(nn.targets[0].value) == g:
                v = nn.value
                okv = (isinstance(v, ast.List) and (not v.elts or (len(v.elts) == 1 and isinstance(v.elts[0], (ast.Name, ast.Dict)))))   # a one-group list is trivially ordered
                if not okv:
                    probs.append(U(nn)[:70])
        if probs:
            for pr in probs:
                ctx.bad(rule, qual, 'group list post-processed: ' + pr,
                        'group lists must keep the file order (descending probability); index 0 is assumed to be the most '
                        'probable group and index+1 never more probable - rebuilding or re-sorting a list after loading (e.g. by '
                        'level number) breaks that', None, fn)
        else:
            ctx.ok(rule, qual, 'grammar lists are only filled by _load_from_file (file order) or the all-lower template')


# ---------------------------------------------------------------------------------------------
def r7_determinism(ctx, rule):
    cg = ctx.cg
    closure = ctx.resolver.closure(['pcfg_guesser.py'])
    entries = [PQ + '__init__', PQ + 'next', GIO + 'load_grammar', PG + '__init__', PG + 'create_guesses',
               PG + '_recursive_guesses', PG + 'omen_generate_guesses']
    for e in entries:
        ctx.fn(e)
    par = cg.reach(entries, closure, stop={PG + '_honeyword_recursive_guess', PG + 'random_walk'})
    bad = False
    ncalls = 0
    for q in par:
        if q in (PG + '_honeyword_recursive_guess', PG + 'random_walk'):
            continue
        ctx.stats['functions'].add(q)
        for call, tgts in cg.calls(q, closure):
            ncalls += 1
            for t in tgts:
                if t.startswith('ext:') and nondet_source(t[4:]):
                    bad = True
                    ctx.bad(rule, q, 'calls ' + t[4:], 'a nondeterminism source is reachable from the true-probability-'
                            'order generator (path: %s)' % ' -> '.join(cg.path_to(par, q)), node=call)
        fn = ctx.repo.fn(q)
        for n in walk_local(fn):
            if isinstance(n, (ast.For, ast.comprehension)):
                it = n.iter
                if isinstance(it, ast.Call) and call_name(it) in ('set', 'frozenset'):
                    bad = True
                    ctx.bad(rule, q, 'iterates ' + U(it)[:60], 'iteration order of a set is not deterministic across runs', node=it)
                if isinstance(it, (ast.Set, ast.SetComp)):
                    bad = True
                    ctx.bad(rule, q, 'iterates a set display', 'iteration order of a set of strings depends on hash randomisation', node=it)
    ctx.stats['call_sites'] += ncalls
    if not bad:
        ctx.ok(rule, PQ + 'next', 'no random/time/uuid/hash/set-iteration source reachable from queue init, next, '
               'loader and guess expansion', {'reachable_functions': len(par), 'call_sites': ncalls})


def r8_uniform_scale(ctx, rule):
    """All base-structure probabilities are loaded through one loop-invariant transformation of the file value."""
    qual = GIO + '_load_base_structures'
    fn = ctx.fn(qual)
    tgt = params(fn)[0]
    mod = ctx.repo.modules[qual.partition('::')[0]]
    loops = []
    for n in walk_local(fn):
        if isinstance(n, (ast.For, ast.While)):
            if any(isinstance(c.func, ast.Attribute) and c.func.attr == 'append' and U(c.func.value) == tgt
                   for c in calls_in(n)):
                # innermost such loop
                loops.append(n)
    if not loops:
        ctx.unk(rule, qual, 'no loop that appends to %s' % tgt)
        return
    loop = loops[-1]
    # the expression stored under 'prob'
    prob_expr = None
    for d in pt_like_dicts(loop):
        if 'prob' in d:
            prob_expr = d['prob']
    if prob_expr is None:
        ctx.unk(rule, qual, "no {'prob': ...} record built in the loading loop")
        return
    top = list(loop.body)

    def top_index(node):
        cur = node
        while cur is not None and not any(cur is t for t in top):
            cur = mod.parents.get(id(cur))
        return next((i for i, t in enumerate(top) if t is cur), None)
    stored_in_loop = {}
    for n in ast.walk(loop):
        if isinstance(n, ast.Name) and isinstance(n.ctx, ast.Store):
            stored_in_loop.setdefault(n.id, []).append(n)
    loopvars = {n.id for n in ast.walk(loop.target) if isinstance(n, ast.Name)} if isinstance(loop, ast.For) else set()
    seen, carried = set(), []
    todo = [(prob_expr, top_index(prob_expr))]
    while todo:
        e, at = todo.pop()
        if at is None:
            at = len(top)
        for n in ast.walk(e):
            if isinstance(n, ast.Name) and isinstance(n.ctx, ast.Load) and (n.id, at) not in seen:
                seen.add((n.id, at))
                if n.id not in stored_in_loop:
                    continue          # loop-invariant
                # latest unconditional top-level definition before the use
                d = None
                for i in range(at - 1, -1, -1):
                    t = top[i]
                    if isinstance(t, ast.Assign) and any(isinstance(x, ast.Name) and x.id == n.id and isinstance(x.ctx, ast.Store)
                                                         for tg_ in t.targets for x in ast.walk(tg_)):
                        d = (t, i)
                        break
                if d is not None:
                    # any conditional store between the definition and the use makes it path-dependent
                    todo.append((d[0].value, d[1]))
                    continue
                if n.id in loopvars:
                    continue
                carried.append(n.id)
    seen = {a for a, _ in seen}
    facts = {'prob_expression': U(prob_expr), 'feeding_names': sorted(seen), 'loop_carried': sorted(set(carried))}
    # the loop variable itself is re-bound per line; a name that is assigned both outside and inside the loop carries
    # state from one line to the next
    carried = sorted(set(carried) - {getattr(loop.target, 'id', None)})
    if carried:
        ctx.bad(rule, qual, 'loop-carried scale: ' + ', '.join(carried),
                'the probability of a base structure depends on lines read earlier in the same pass (the scaling '
                'factor changes while loading): structures before and after are scaled differently, which breaks '
                'probability order and the rescaling promise of --skip_brute', facts, loop)
    else:
        ctx.ok(rule, qual, 'each base probability is a loop-invariant function of its own line', facts)


def pt_like_dicts(node):
    out = []
    for n in walk_local(node):
        if isinstance(n, ast.Dict):
            d = {}
            for k, v in zip(n.keys, n.values):
                c = const(k) if k is not None else NOCONST
                if isinstance(c, str):
                    d[c] = v
            out.append(d)
    return out


def r9_exact_float_discipline(ctx, rule, prefixes=('lib_guesser/pcfg_grammar.py', 'lib_guesser/priority_queue.py', 'lib_guesser/grammar_io.py')):
    """Generic: in the guesser core probabilities are compared exactly - no tolerance, rounding or formatting."""
    n = 0
    bad = False
    for q, fn in ctx.repo.all_funcs():
        if not q.startswith(tuple(prefixes)):
            continue
        for node in walk_local(fn):
            if isinstance(node, ast.Compare):
                n += 1
                for opnd in [node.left] + list(node.comparators):
                    t = U(opnd)
                    if 'prob' in t and isinstance(opnd, (ast.BinOp, ast.Call)) and not t.startswith('self._find_prob('):
                        inner = call_name(opnd) if isinstance(opnd, ast.Call) else None
                        if isinstance(opnd, ast.BinOp) and isinstance(opnd.op, (ast.Sub, ast.Add)) or inner in ('abs', 'round', 'math.fabs', 'math.floor'):
                            bad = True
                            ctx.bad(rule, q, 'probability compared through arithmetic: ' + U(node)[:80],
                                    'probabilities must be compared exactly: order, adoption ties, restore regions and group '
                                    'membership are all defined on exact equality; a tolerance makes distinct values tie', None, node)
            if isinstance(node, ast.Call) and call_name(node) in ('math.isclose', 'isclose', 'round') and any('prob' in U(a) for a in node.args):
                n += 1
                bad = True
                ctx.bad(rule, q, 'inexact probability operation: ' + U(node)[:80], 'probabilities must not be rounded or compared '
                        'with a tolerance in the generator core', None, node)
    if ctx.floor(rule, prefixes[0], n, 10, 'comparisons in the guesser core') and not bad:
        ctx.ok(rule, prefixes[0], 'no tolerance / rounding on probabilities among %d comparisons of the guesser core' % n)


def _mask_insertion(ctx, rule):
    # a structure whose late alpha segment gets no capitalisation transition carries a probability without that mask factor and is
    # popped ahead of more probable pre-terminals (seed C01-h)
    from . import c03
    return c03.r3_mask_insertion(ctx, rule)


def r11_sections_not_aliased(ctx, rule):
    """Each grammar section has its own list (seed C01-i bound grammar['E'] and grammar['W'] to one list by a chained assignment: the
    list is not in descending order at the seam and W pre-terminals are priced with e-mail probabilities)."""
    from .common import no_aliased_containers
    no_aliased_containers(ctx, rule, ['lib_guesser/', 'lib_scorer/'], 100, "the loaders fill every section of the grammar by appending to the list they are handed; one list bound to two sections makes each of them hold the records of both files, in neither file's order and priced with the other file's probabilities")


def _options_forwarded(ctx, rule):
    # the attached probabilities are the products "the loaded ruleset and flags define" only if the flags reach the loader
    # (seed C01-j: the PRINCE base-structure folder was dropped on the way from PcfgGrammar.__init__ to load_grammar)
    from . import c14
    return c14.r13_options_forwarded(ctx, rule)


def _loader_stateless(ctx, rule):
    # the emitted sequence is a function of the ruleset and the flags only if the loader keeps nothing between two loads (seed
    # C01-k: a module-level cache of the terminals keyed by the ruleset directory alone, so the second load ignored --all_lower)
    from . import c14
    return c14.r8_loader_stateless(ctx, rule)

def _shared_rule(mod, name, **kw):
    def run(ctx, rule):
        import importlib
        return getattr(importlib.import_module('sa.props.' + mod), name)(ctx, rule, **kw)
    return run


def r20_records_are_fresh(ctx, rule):
    from .common import no_reused_record
    no_reused_record(ctx, rule, ['lib_guesser/pcfg_grammar.py', 'lib_guesser/priority_queue.py'], 10, 'the queue keeps the very dictionary it is '
                     'handed (QueueItem holds a reference): a record refilled on the next pass rewrites the entry that is already queued - its '
                     'pre-terminal and probability become those of the last sibling, so pops come out of order, twice or not at all')


def rules(tier):
    return [('C01.R1', r1_heap_order), ('C01.R2', r2_heap_ownership), ('C01.R3', r3_prob_fold),
            ('C01.R4', r4_prob_pt_coupling), ('C01.R5', r5_successor), ('C01.R6', r6_loader_order),
            ('C01.R7', r7_determinism), ('C01.R8', r8_uniform_scale),
            ('C01.R9', r9_exact_float_discipline), ('C01.R10', _mask_insertion), ('C01.R11', r11_sections_not_aliased), ('C01.R12', _options_forwarded), ('C01.R13', _loader_stateless),
            # C01-cb: max_probability taken from base_prob instead of prob - the resumed run starts above where it stopped
            ('C01.R14', _shared_rule('c08', 'r4_saved_position')),
            # C01-ca: skip_case restored from the skip_brute key - the resumed run continues in another grammar
            ('C01.R15', _shared_rule('c08', 'r11_restore_is_verbatim')),
            # C01-db: on an exact tie neither parent adopts (< became <=): the child and its sub-tree are never emitted
            ('C01.R16', _shared_rule('c02', 'r1_adoption_kernel')),
            # C01-da: the saved queue position written with 15 significant digits no longer round-trips
            ('C01.R17', _shared_rule('plumbing', 'float_text_exact')),
            # mutation sweep: next() returning None with one item left
            ('C01.R18', _shared_rule('plumbing', 'generator_glue')),
            # C01-ea: is_parent_around builds the candidate parent on the child's own list - the restored node keeps its probability but not its tree
            ('C01.R19', _shared_rule('c02', 'r4_copy_before_mutate')),
            # C01-fb: one child_item dict for every child of the restore walk
            ('C01.R20', r20_records_are_fresh),
            # C01-ga: terminal probabilities clamped to epsilon on load
            ('C01.R21', _shared_rule('plumbing', 'loader_prob_verbatim'))]


META = {
    'explanation': 'Static decision of the necessary structural conditions for non-increasing pop order: the heap '
                   'comparison kernel tabulated over the orderings of the two probabilities; heap list ownership '
                   '(only heapq touches it); _find_prob summarised as base * product of group probabilities (pure); '
                   'every queued item carries _find_prob of its own parse tree; children are +1 successors under the '
                   'end-of-variable guard; loaders keep file order; no nondeterminism source reachable.',
    'trusted_base': ['python ast', 'resolver/call graph of sa/resolve.py', 'heapq uses only __lt__',
                     'paper argument DESIGN.md section 4 C01'],
    'assumptions': ['A1: IEEE-754 multiplication of non-negative doubles is monotone',
                    'A2: ruleset lists are sorted by non-increasing probability (well-formed ruleset)'],
    'not_decided': 'float monotonicity (A1) and sortedness of hand-made rulesets (A2) are assumed, not checked',
}

META['explanation'] += ' ' + 'Further: no comparison operand in the guesser core is rounded/formatted/offset (exact-float discipline); lambda bodies are scanned as part of the enclosing function (heap ownership).'
META['explanation'] += ' ' + 'Round 14: the terminal loaders store float(<field>) as read (no clamp, no line skipped by the value of its probability); a record handed to the queue or to a callback is a new object on every pass.'
