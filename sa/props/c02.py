"""C02 - every pre-terminal exactly once (DESIGN section 4, C02)."""
import ast

from ..core import (U, walk_local, calls_in, call_name, const, NOCONST, params, stores_in, single_def, expand,
                    walk_stmts, arg_for, path_conditions)
from ..order import Terms, tabulate, show_table, outcomes, LT, EQ, GT, Hooks
from ..lin import lin, Lin
from .common import (PG, PGF, PQ, PQF, find_prob_call, position_loops, neighbour_in_loop, analyse_step, guard_offsets,
                     implies_nonzero_or_negative, resolve_range_src, copy_depth)
from . import c01


def adoption_call(ctx):
    """The single call of _are_you_my_child in find_children and the roles of its parameters."""
    fc = ctx.fn(PG + 'find_children')
    kernel = ctx.fn(PG + '_are_you_my_child')
    calls = [c for c in calls_in(fc) if call_name(c) == 'self._are_you_my_child']
    return fc, kernel, calls


def r1_adoption_kernel(ctx, rule):
    qual = PG + '_are_you_my_child'
    fc, kernel, calls = adoption_call(ctx)
    if len(calls) != 1:
        ctx.unk(rule, PG + 'find_children', 'expected exactly one call of _are_you_my_child, found %d' % len(calls))
        return
    call = calls[0]
    fstores = stores_in(fc)
    # roles from the call site: which parameter receives the loop position, which the caller's own probability
    loops = list(position_loops(fc))
    pos_names = {p for _, p, _, _, _ in loops}
    fc_params = params(fc)
    item_p = fc_params[1] if len(fc_params) > 1 else None
    role = {}
    for pname in params(kernel)[1:]:
        a = arg_for(call, kernel, pname)
        if a is None:
            continue
        ea = expand(fc, a, fstores)
        if isinstance(a, ast.Name) and a.id in pos_names:
            role['pos'] = pname
        elif U(ea) == "%s['prob']" % item_p:
            role['prob'] = pname
        elif U(ea) == "%s['base_prob']" % item_p:
            role['base'] = pname
        else:
            role.setdefault('child', pname)
    if not {'pos', 'prob', 'base', 'child'} <= set(role):
        ctx.unk(rule, qual, 'cannot determine parameter roles from the call site %s (found %s)' % (U(call), role))
        return
    # the loop over the other parents
    kstores = stores_in(kernel)
    kloops = [(l, p, i, s, st) for l, p, i, s, st in position_loops(kernel)
              if (s == role['child'] or (isinstance(s, tuple)))]
    if len(kloops) != 1:
        ctx.unk(rule, qual, 'expected one loop over the child positions, found %d' % len(kloops))
        return
    loop, pos, item, src, start = kloops[0]
    nb = neighbour_in_loop(kernel, loop, pos, item, src, kstores)
    if nb is None or not resolve_range_src(kernel, nb, kstores) or nb.src != role['child']:
        ctx.unk(rule, qual, 'no co-parent construction over the child parameter found')
        return
    analyse_step(kernel, nb, kstores)
    # the co-parent's probability: name assigned from self._find_prob(new, base)
    other_prob = None
    for st in walk_stmts(loop.body):
        if isinstance(st, ast.Assign) and len(st.targets) == 1 and isinstance(st.targets[0], ast.Name):
            fp = find_prob_call(st.value)
            if fp and U(fp[0]) == nb.new:
                other_prob = st.targets[0].id
                base_arg = U(fp[1])
    facts = {'roles': role, 'loop_pos': pos, 'co_parent': nb.new, 'co_parent_prob': other_prob}
    if other_prob is None:
        # maybe compared inline
        ctx.unk(rule, qual, 'the co-parent probability is not computed by _find_prob(<co-parent>, ...)', facts)
        return
    terms = Terms({other_prob: 'Pother', role['prob']: 'Pself', pos: 'pos', role['pos']: 'selfpos'})
    pairs = [('Pother', 'Pself'), ('pos', 'selfpos')]
    # after the loop: must return True
    body = [s for s in kernel.body if not (isinstance(s, ast.Expr) and isinstance(s.value, ast.Constant))]
    idx = next((i for i, s in enumerate(body) if s is loop), None)
    if idx is None:
        ctx.unk(rule, qual, 'the co-parent loop is not a top-level statement of the kernel')
        return
    after = outcomes(body[idx + 1:], {}, terms)
    # the loop examines EVERY co-parent: it is left only by the `return False` of a co-parent that out-ranks this one (a `break` - e.g.
    # in place of the `continue` that skips the parent's own position - would let the kernel adopt without asking the co-parents to the right)
    # (the front end turns such a break into the `return True` that follows the loop - S23 - so the same slip also shows as a
    # position that is skipped by RETURNING: a guard that does not look at the co-parent's probability must `continue`)
    for g_ in loop.body:
        if isinstance(g_, ast.If) and not any(isinstance(x, ast.Name) and x.id == other_prob for x in ast.walk(g_.test)) \
                and any(isinstance(x, ast.Return) for b_ in g_.body + g_.orelse for x in ast.walk(b_)):
            ctx.bad(rule, qual, 'a position is skipped by returning: if %s: %s' % (U(g_.test)[:40], U(g_.body[-1])[:30]),
                    'a position without a co-parent (the parent\'s own position, an index of 0) says nothing about the positions to its right: the '
                    'loop must go on to them', facts, g_, firm=True)
            return
    brk = [x for b in loop.body for x in ast.walk(b) if isinstance(x, ast.Break)]
    if brk:
        ctx.bad(rule, qual, 'the co-parent loop is left by break (line %d)' % brk[0].lineno,
                'co-parents to the right are never asked: two parents adopt the same child, which is then emitted twice', facts, brk[0], firm=True)
        return
    # before the loop: bindings; a shortcut `if <the child has one position only>: return True` (the loop would find no co-parent:
    # its only position is the parent's own); anything else that can leave the kernel before the co-parents are examined is not decided
    before_ok = True
    for s_ in body[:idx]:
        if isinstance(s_, ast.Assign):
            continue
        if isinstance(s_, ast.If) and not s_.orelse and len(s_.body) == 1 and isinstance(s_.body[0], ast.Return) \
                and const(s_.body[0].value) is True and U(s_.test).replace(' ', '') in (
                    'len(%s)==1' % role.get('child', 'child'), 'len(%s)==1and%s==0' % (role.get('child', 'child'), role['pos']),
                    '%s==0andlen(%s)==1' % (role['pos'], role.get('child', 'child'))):
            continue
        if any(isinstance(x, (ast.Return, ast.Raise)) for x in ast.walk(s_)):
            ctx.unk(rule, qual, 'the kernel can return before the co-parents are examined: %s' % U(s_)[:70].replace('\n', ' '), facts)
            return
        before_ok = False
    if {(k, d) for k, d, t in after} != {('return', 'True')} or loop.orelse or not before_ok:
        ctx.bad(rule, qual, 'after examining all co-parents: %s' % sorted((k, d) for k, d, t in after),
                'a parent that no co-parent out-ranks must adopt the child (return True after the loop)', facts, kernel)
        return
    # tabulate one iteration of the loop for a *real* co-parent (pos != selfpos, index != 0)
    ndefs = sum(1 for st in walk_stmts(loop.body) for n in ast.walk(st)
                if isinstance(n, ast.Name) and isinstance(n.ctx, ast.Store) and n.id == other_prob)
    if ndefs != 1:
        ctx.unk(rule, qual, 'co-parent probability assigned %d times in the loop' % ndefs, facts)
        return
    # conditions under which the co-parent exists at all (e.g. index != 0): fixed to "exists"
    from ..order import eval_cond
    mod = ctx.repo.modules[PGF]
    exist = {}
    for test, pol in path_conditions(mod, nb.store_stmt, stop=loop):
        if eval_cond(test, {('Pother', 'Pself'): LT, ('pos', 'selfpos'): LT}, terms) is None:
            exist[U(test)] = pol
    facts['co_parent_exists_when'] = exist
    table = tabulate(loop.body, pairs, terms, hooks=Hooks(allow_def={other_prob}),
                     domains={('pos', 'selfpos'): (LT, GT, EQ)}, facts=exist)
    ctx.stats['kernel_states'] += len(table)
    facts['table'] = show_table(pairs, table)

    def verdict(key):
        outs = table[key]
        kinds = set()
        for k, d, t in outs:
            if k == 'return' and d == 'False':
                kinds.add('reject')
            elif k in ('continue', 'fall'):
                kinds.add('pass')
            elif k == 'return' and d == 'True':
                kinds.add('accept-early')
            else:
                kinds.add('unknown:%s %s' % (k, d))
        return kinds
    # the caller itself must be skipped
    problems = []
    for pr in (LT, EQ, GT):
        v = verdict((pr, EQ))
        if v - {'pass'}:
            # only a problem if the state is feasible: pos == selfpos is the caller itself
            problems.append(('self-skip', 'co-parent position == own position with prob %s -> %s' % (pr, sorted(v))))
    req = {(LT, LT): {'reject'}, (LT, GT): {'reject'}, (GT, LT): {'pass'}, (GT, GT): {'pass'}}
    for key, want in req.items():
        v = verdict(key)
        if any(x.startswith('unknown') for x in v):
            ctx.unk(rule, qual, 'cannot evaluate the kernel for state %s' % (key,), facts)
            return
        if v != want:
            problems.append(('order', 'prob(other)%sprob(self), pos(other)%spos(self) -> %s, required %s'
                             % (key[0], key[1], sorted(v), sorted(want))))
    t1, t2 = verdict((EQ, LT)), verdict((EQ, GT))
    if any(x.startswith('unknown') for x in t1 | t2):
        ctx.unk(rule, qual, 'cannot evaluate the tie rows', facts)
        return
    if not ((t1 == {'reject'} and t2 == {'pass'}) or (t1 == {'pass'} and t2 == {'reject'})):
        problems.append(('tie-break', 'tie rows: other-left -> %s, other-right -> %s; required exactly one of them to '
                         'reject and the other to pass (antisymmetric tie-break)' % (sorted(t1), sorted(t2))))
    if problems:
        for kind, txt in problems:
            ctx.bad(rule, qual, '%s: %s' % (kind, txt),
                    'among the parents of a child exactly one - the minimum under a strict total order on '
                    '(probability, position) - may adopt it; otherwise sub-trees are lost or duplicated', facts, loop)
    else:
        ctx.ok(rule, qual, 'adoption = unique minimum over (prob, position): lower-prob co-parent rejects, higher passes, '
               'ties broken antisymmetrically by position, caller skipped, True after all co-parents', facts)
    return nb, loop, role, other_prob


def r2_predecessor(ctx, rule):
    n = 0
    for qual in (PG + '_are_you_my_child', PG + 'is_parent_around'):
        fn = ctx.fn(qual)
        mod = ctx.repo.modules[PGF]
        stores = stores_in(fn)
        found = False
        for loop, pos, item, src, start in position_loops(fn):
            nb = neighbour_in_loop(fn, loop, pos, item, src, stores)
            if nb is None or not resolve_range_src(fn, nb, stores):
                continue
            analyse_step(fn, nb, stores)
            found = True
            n += 1
            ok = c01.check_successor(ctx, rule, qual, fn, mod, nb, -1)
            # guard: skip exactly ITEM[1] == 0
            target = Lin({'ITEM[1]': -1}, 0)      # -I  (<= 0 invariant); need I != 0
            gf = guard_offsets(mod, fn, nb, nb.store_stmt, None)
            good = [g for g in gf if implies_nonzero_or_negative(g[0], g[1], g[2], target)]
            # any other guard on the index alone would skip real parents
            idx_only = [g for g in gf if set(g[0].t) == {'ITEM[1]'} and g not in good]
            facts = {'guards': [(repr(g[0]), g[1], g[2], g[3]) for g in gf], 'store': U(nb.store_stmt)}
            if not good:
                ctx.bad(rule, qual, 'no index==0 skip before ' + U(nb.store_stmt),
                        'a position with index 0 has no parent; it must be skipped (and only it)', facts, nb.store_stmt)
            elif idx_only:
                ctx.bad(rule, qual, 'extra index guard ' + idx_only[0][3],
                        'positions other than index 0 are skipped: some parents are never considered', facts, nb.store_stmt)
            elif start is not None or (isinstance(loop.iter, ast.Call) and call_name(loop.iter) == 'enumerate'
                                       and U(loop.iter.args[0]) not in [nb.src] + nb.src_alts):
                ctx.bad(rule, qual, 'loop does not cover all positions: ' + U(loop.iter),
                        'every position of the child must be examined for a parent', facts, loop)
            elif ok:
                ctx.ok(rule, qual, 'parent = copy(child) with index-1 at one position; positions with index 0 skipped, '
                       'nothing else', facts)
        if not found:
            ctx.unk(rule, qual, 'no predecessor construction found')
    ctx.floor(rule, PGF, n, 2, 'predecessor constructions')


def r3_coparent_prob(ctx, rule):
    qual = PG + '_are_you_my_child'
    fn = ctx.fn(qual)
    fc, kernel, calls = adoption_call(ctx)
    if len(calls) != 1:
        ctx.unk(rule, qual, 'call site not unique')
        return
    call = calls[0]
    # which kernel parameter receives pt_item['base_prob'] ?
    fc_params = params(fc)
    item_p = fc_params[1]
    base_param = None
    for pname in params(kernel)[1:]:
        a = arg_for(call, kernel, pname)
        if a is not None and U(expand(fc, a)) == "%s['base_prob']" % item_p:
            base_param = pname
    fps = [find_prob_call(c) for c in calls_in(fn)]
    fps = [f for f in fps if f]
    facts = {'base_param': base_param, 'find_prob_calls': [(U(x), U(b)) for x, b in fps]}
    if not fps:
        ctx.bad(rule, qual, 'no _find_prob call', 'co-parent probabilities are not recomputed with the shared '
                'probability function', facts, fn)
        return
    bad = [f for f in fps if U(f[1]) != base_param]
    if base_param is None or bad:
        ctx.bad(rule, qual, 'co-parent prob uses base %s' % (U(bad[0][1]) if bad else '?'),
                "co-parents must be evaluated with the same base probability the caller's own prob was computed with",
                facts, fn)
        return
    ctx.ok(rule, qual, 'co-parent probability = _find_prob(co-parent, base_prob of the calling parent)', facts)


def r4_copy_before_mutate(ctx, rule):
    """Every subscript store into a parse-tree list that flows from a parameter must hit a fresh copy."""
    n = 0
    for qual in (PG + 'find_children', PG + '_are_you_my_child', PG + '_recursive_restore_prob_order',
                 PG + 'is_parent_around'):
        fn = ctx.fn(qual)
        stores = stores_in(fn)
        ps = set(params(fn))
        for loop, pos, item, src, start in position_loops(fn):
            nb = neighbour_in_loop(fn, loop, pos, item, src, stores)
            if nb is None:
                continue
            resolve_range_src(fn, nb, stores)
            n += 1
            facts = {'new': nb.new, 'copy': U(nb.copy_stmt) if nb.copy_stmt else None, 'depth': nb.copy_depth,
                     'source': nb.copy_src}
            if nb.copy_stmt is None:
                ctx.bad(rule, qual, 'store into %s without a copy in the same iteration' % nb.new,
                        'the neighbour is built by mutating a list that is shared with the node it is derived from; '
                        'queue items would be corrupted', facts, nb.store_stmt)
                continue
            if nb.copy_depth < 1:
                ctx.bad(rule, qual, 'no copy: ' + U(nb.copy_stmt),
                        'the neighbour aliases the list it is derived from (dropping the copy corrupts queued parse '
                        'trees)', facts, nb.copy_stmt)
                continue
            if nb.copy_src not in [nb.src] + nb.src_alts:
                ctx.bad(rule, qual, 'copies %s, iterates %s' % (nb.copy_src, nb.src),
                        'the neighbour is not a copy of the node whose positions are enumerated', facts, nb.copy_stmt)
                continue
            # the copy must happen in the same iteration, before the store (same loop body, earlier statement)
            body_order = [id(s) for s in walk_stmts(loop.body)]
            if body_order.index(id(nb.copy_stmt)) > body_order.index(id(nb.store_stmt)):
                ctx.bad(rule, qual, 'copy after store', 'store precedes the copy', facts, nb.store_stmt)
                continue
            ctx.ok(rule, qual, 'one-position replacement hits a fresh shallow copy made in the same iteration', facts)
    ctx.floor(rule, PGF, n, 4, 'copy-then-replace sites')


def r5_all_children_pushed(ctx, rule):
    qual = PG + 'find_children'
    fn = ctx.fn(qual)
    stores = stores_in(fn)
    loops = [x for x in position_loops(fn)]
    if len(loops) != 1:
        ctx.unk(rule, qual, 'expected one position loop, found %d' % len(loops))
        return
    loop, pos, item, src, start = loops[0]
    nb = neighbour_in_loop(fn, loop, pos, item, src, stores)
    if nb is None:
        ctx.unk(rule, qual, 'no child construction')
        return
    resolve_range_src(fn, nb, stores)
    ps = params(fn)
    facts = {'loop': U(loop.iter)}
    ok = True
    # all positions of the parent's parse tree
    full = (isinstance(loop.iter, ast.Call) and call_name(loop.iter) == 'enumerate'
            and (U(loop.iter.args[0]) in [nb.src] + nb.src_alts) and len(loop.iter.args) == 1)
    if not full:
        full = isinstance(src, tuple) and start is None
    srcs = [nb.src] + nb.src_alts
    if not full or "%s['pt']" % ps[1] not in srcs:
        ok = False
        ctx.bad(rule, qual, 'candidate positions: ' + U(loop.iter), 'children must be offered at every position of the '
                "popped node's parse tree", facts, loop)
    # no break / return inside the loop
    for st in walk_stmts(loop.body):
        if isinstance(st, (ast.Break, ast.Return)):
            ok = False
            ctx.bad(rule, qual, '%s inside the position loop' % st.__class__.__name__.lower(),
                    'the loop over positions is left early: later children are never created', facts, st)
    # approved child appended to the returned list
    ret = [s for s in fn.body if isinstance(s, ast.Return)]
    retname = U(ret[-1].value) if ret else None
    appended = None
    child_item_names = {r['name'] for r in c01.pt_item_dicts(fn) if U(r['keys'].get('pt')) == nb.new}
    for c in calls_in(loop):
        if isinstance(c.func, ast.Attribute) and c.func.attr == 'append' and U(c.func.value) == retname and c.args:
            a = c.args[0]
            if (isinstance(a, ast.Name) and a.id in child_item_names) or isinstance(a, ast.Dict):
                appended = c
    facts['returns'] = retname
    if appended is None:
        ok = False
        ctx.bad(rule, qual, 'approved child not appended to ' + str(retname),
                'a child approved by the adoption test must be returned', facts, loop)
    else:
        # the append is guarded only by the adoption call (+ the bound guard)
        mod = ctx.repo.modules[PGF]
        stmt = mod.parents.get(id(appended))
        while stmt is not None and not isinstance(stmt, ast.stmt):
            stmt = mod.parents.get(id(stmt))
        conds = path_conditions(mod, stmt, stop=loop)
        extra = []
        adopt = False
        for test, pol in conds:
            while isinstance(test, ast.UnaryOp) and isinstance(test.op, ast.Not):
                test, pol = test.operand, not pol          # (not X, False) is (X, True)
            if isinstance(test, ast.Call) and call_name(test) == 'self._are_you_my_child' and pol:
                adopt = True
            elif 'len(self.grammar' in U(nb.inline(test)) if hasattr(nb, 'inline') else 'len(self.grammar' in U(test):
                pass
            else:
                extra.append(U(test))
        analyse_step(fn, nb, stores)
        extra = [e for e in extra if 'len(self.grammar' not in e and 'parent_index' not in e]
        conds_txt = [(U(t), p) for t, p in conds]
        facts['append_conditions'] = conds_txt
        if not adopt:
            ok = False
            ctx.bad(rule, qual, 'append not guarded by the adoption test: %s' % conds_txt,
                    'children must be pushed iff _are_you_my_child approves', facts, appended)
    # PcfgQueue.next pushes every element
    nq = PQ + 'next'
    nfn = ctx.fn(nq)
    pushes_all = False
    for n in walk_local(nfn):
        if isinstance(n, ast.For) and isinstance(n.iter, ast.Call) and call_name(n.iter) == 'self.pcfg.find_children':
            tv = n.target.id if isinstance(n.target, ast.Name) else None
            body_calls = [c for c in calls_in(n)]
            direct = [s for s in n.body]
            for s in direct:
                if isinstance(s, ast.Expr) and isinstance(s.value, ast.Call):
                    c = s.value
                    d = call_name(c)
                    if d == 'self.insert_queue' and c.args and U(c.args[0]) == tv:
                        pushes_all = True
                    if d == 'heapq.heappush' and len(c.args) == 2 and tv in U(c.args[1]):
                        pushes_all = True
            if any(isinstance(s, (ast.Break, ast.Return, ast.Continue, ast.If)) for s in walk_stmts(n.body)):
                pushes_all = False
    # ... and they are the children of the item popped in THIS call, pushed before the call returns: the emptiness test of the next
    # call must see them (seed C17-fb expanded the previous item lazily, after `if len(self.p_queue) == 0: return None` - when the
    # item popped last was the only heap entry and still has children, the queue reports exhaustion and the tail is never emitted)
    def _is_pop(v):
        return isinstance(v, ast.Call) and call_name(v) == 'heapq.heappop'
    pops = [st for st in nfn.body if isinstance(st, ast.Assign) and len(st.targets) == 1 and isinstance(st.targets[0], ast.Name)
            and (_is_pop(st.value) or (isinstance(st.value, ast.Attribute) and st.value.attr == 'pt_item' and _is_pop(st.value.value)))]
    nstores = stores_in(nfn)
    for n in walk_local(nfn):
        if isinstance(n, ast.For) and isinstance(n.iter, ast.Call) and call_name(n.iter) == 'self.pcfg.find_children' and n.iter.args:
            arg = n.iter.args[0]
            if isinstance(arg, ast.Name) and len(nstores.get(arg.id, [])) == 1 and nstores[arg.id][0][1] is not None:
                arg = nstores[arg.id][0][1]
            if len(pops) != 1:
                ok = False
                ctx.unk(rule, nq, 'expected one top-level `x = heapq.heappop(..)` in next(), found %d' % len(pops))
            elif U(arg) == pops[0].targets[0].id + ('.pt_item' if _is_pop(pops[0].value) else '') or \
                    (not _is_pop(pops[0].value) and U(arg) == U(pops[0].value)):
                if n not in nfn.body or nfn.body.index(n) < nfn.body.index(pops[0]):
                    ok = False
                    ctx.unk(rule, nq, 'the loop that pushes the children is not an unconditional statement of next() after the pop')
            elif isinstance(arg, ast.Attribute) and U(arg).startswith('self.'):
                ok = False
                ctx.bad(rule, nq, 'children pushed for %s, not for the item popped in this call' % U(arg),
                        'the children of a popped pre-terminal enter the queue before next() returns it: pushed by a later call they are '
                        'missing whenever the queue is examined in between (the emptiness test, a save) - a chain that is the only heap '
                        'entry ends early', None, n, firm=True)
            else:
                ok = False
                ctx.unk(rule, nq, 'children pushed for %s - not recognisably the item popped in this call' % U(arg)[:50])
    push_unconditional(ctx, rule)
    if not pushes_all:
        ok = False
        ctx.bad(rule, nq, 'not every child returned by find_children is pushed',
                'PcfgQueue.next must push all approved children unconditionally', None, nfn)
    if ok:
        ctx.ok(rule, qual, 'every position offered, no early exit, approved child appended, next() pushes all', facts)


def push_unconditional(ctx, rule):
    """PcfgQueue.insert_queue pushes whatever it is given (it is also the restore callback)."""
    q = PQ + 'insert_queue'
    fn = ctx.fn(q)
    body = [s for s in fn.body if not (isinstance(s, ast.Expr) and isinstance(s.value, ast.Constant))]
    p = params(fn)[1]
    good = len(body) == 1 and isinstance(body[0], ast.Expr) and isinstance(body[0].value, ast.Call) \
        and call_name(body[0].value) == 'heapq.heappush' and U(body[0].value.args[1]) == 'QueueItem(%s)' % p
    if good:
        ctx.ok(rule, q, 'insert_queue pushes its argument unconditionally')
    else:
        ctx.bad(rule, q, 'insert_queue: ' + ' ; '.join(U(s)[:50] for s in body),
                'every adopted child (and every restored candidate) must enter the queue; a filter here (e.g. a probability '
                'floor that also catches probability 0.0) silently drops pre-terminals', None, fn)


def r6_seeding(ctx, rule):
    qual = PG + 'initalize_base_structures'
    fn = ctx.fn(qual)
    facts = {}
    ok = True
    outer = [n for n in fn.body if isinstance(n, ast.For)]
    if len(outer) != 1 or U(outer[0].iter) != 'self.base':
        ctx.bad(rule, qual, 'outer loop: %s' % [U(o.iter) for o in outer], 'one start node per base structure '
                '(loop over self.base)', None, fn)
        return
    loop = outer[0]
    bv = loop.target.id
    for st in walk_stmts(loop.body):
        if isinstance(st, (ast.Break, ast.Continue, ast.Return, ast.If)):
            ok = False
            ctx.bad(rule, qual, '%s in the seeding loop' % st.__class__.__name__, 'a base structure may be skipped', None, st)
    inner = [n for n in walk_stmts(loop.body) if isinstance(n, ast.For)]
    seeded = False
    for il in inner:
        if U(il.iter) == "%s['replacements']" % bv:
            rv = il.target.id
            for c in calls_in(il):
                if isinstance(c.func, ast.Attribute) and c.func.attr == 'append' and c.args \
                        and isinstance(c.args[0], ast.Tuple) and len(c.args[0].elts) == 2:
                    t, i = c.args[0].elts
                    if U(t) == rv and const(i) == 0 and not isinstance(const(i), bool):
                        seeded = True
                    else:
                        ok = False
                        ctx.bad(rule, qual, 'seed element ' + U(c.args[0]), 'the start node must have index 0 at every '
                                'position', None, c)
    # the comprehension spelling: [(r, 0) for r in item['replacements']]
    for comp in [n for st in loop.body for n in ast.walk(st) if isinstance(n, ast.ListComp)]:
        if len(comp.generators) == 1 and U(comp.generators[0].iter) == "%s['replacements']" % bv and isinstance(comp.generators[0].target, ast.Name):
            rv = comp.generators[0].target.id
            if comp.generators[0].ifs:
                ok = False
                ctx.bad(rule, qual, 'seed positions filtered: ' + U(comp)[:70], 'every position of the base structure gets index 0', None, comp)
            elif isinstance(comp.elt, ast.Tuple) and len(comp.elt.elts) == 2 and U(comp.elt.elts[0]) == rv and const(comp.elt.elts[1]) == 0 \
                    and not isinstance(const(comp.elt.elts[1]), bool):
                seeded = True
            elif isinstance(comp.elt, ast.Tuple) and len(comp.elt.elts) == 2:
                ok = False
                ctx.bad(rule, qual, 'seed element ' + U(comp.elt), 'the start node must have index 0 at every position', None, comp)
    if not seeded and ok and not inner and not any(isinstance(n, ast.ListComp) for st in loop.body for n in ast.walk(st)):
        ctx.unk(rule, qual, 'the way the start node is built is not of a form this rule knows')
        ok = False
    elif not seeded:
        ok = False
        ctx.bad(rule, qual, 'no (replacement, 0) seeding found', 'start node = index 0 at every position of '
                "item['replacements']", None, loop)
    # appended to the returned list
    ret = [s for s in fn.body if isinstance(s, ast.Return)]
    retname = U(ret[-1].value) if ret else None
    app = [c for c in calls_in(loop) if isinstance(c.func, ast.Attribute) and c.func.attr == 'append'
           and U(c.func.value) == retname]
    if not app:
        ok = False
        ctx.bad(rule, qual, 'start node not appended to the returned list', 'every start node must be returned', None, loop)
    # PcfgQueue.__init__ pushes all on the new-session path
    iq = PQ + '__init__'
    ifn = ctx.fn(iq)
    from .common import queue_init_modes
    modes = queue_init_modes(ctx, iq)
    pushed = any(x in ('push', 'self.insert_queue') for x in modes['new'])
    if not pushed and modes['unknown']:
        ok = False
        ctx.unk(rule, iq, 'seeding of a new session depends on conditions that are not understood: %s' % modes['unknown'][:3])
    elif not pushed:
        ok = False
        ctx.bad(rule, iq, 'new-session path does not push every start node', 'all base structures must be seeded', {'modes': modes}, ifn)
    if ok:
        ctx.ok(rule, qual, 'one start node per base structure with index 0 everywhere; all pushed on a new session')


def r12_queue_conservation(ctx, rule):
    """Exactly-once needs the queue to be conservative: an item enters by a push/append and leaves only by the pop that hands it
    to the caller.  The list is never re-bound (except to the initial []), truncated, filtered, cleared or sliced - a queue that
    is 'trimmed' to a maximum size silently drops pre-terminals together with their whole sub-trees (seed C02-g)."""
    closure = ctx.resolver.closure(['pcfg_guesser.py', 'prince_ling.py'])
    n = 0
    bad = False
    for qual, fn in ctx.repo.all_funcs():
        rel = qual.partition('::')[0]
        if rel not in closure:
            continue
        mod = ctx.repo.modules[rel]
        for node in walk_local(fn):
            if not (isinstance(node, ast.Attribute) and node.attr == 'p_queue'):
                continue
            n += 1
            par = mod.parents.get(id(node))
            what = None
            if isinstance(node.ctx, ast.Store):
                if not (isinstance(par, ast.Assign) and isinstance(par.value, ast.List) and not par.value.elts):
                    what = 'queue re-bound: ' + U(par)[:70]
            elif isinstance(node.ctx, ast.Del):
                what = 'queue deleted'
            elif isinstance(par, ast.Subscript) and par.value is node and isinstance(par.ctx, (ast.Store, ast.Del)):
                what = 'queue sliced/overwritten: ' + U(mod.parents.get(id(par)))[:70]
            elif isinstance(par, ast.AugAssign) and par.target is node:
                what = 'queue re-bound: ' + U(par)[:70]
            elif isinstance(par, ast.Attribute) and par.value is node and par.attr in ('clear', 'remove', '__delitem__', '__setitem__'):
                what = 'queue.%s(...)' % par.attr
            if what:
                bad = True
                ctx.bad(rule, qual, what, 'every pushed pre-terminal must stay queued until it is popped for emission: trimming, '
                        'filtering or re-building the queue loses pre-terminals and everything that would have been generated '
                        'from them', None, node)
    if ctx.floor(rule, PQ + '__init__', n, 4, 'uses of p_queue') and not bad:
        ctx.ok(rule, PQ + '__init__', 'the queue list is only pushed to and popped from (never re-bound, trimmed or cleared)', {'uses': n})


def _mask_insertion(ctx, rule):
    from . import c03
    return c03.r3_mask_insertion(ctx, rule)


def _exact_float(ctx, rule):
    from . import c01 as _c01
    return _c01.r9_exact_float_discipline(ctx, rule)


def _loader_bundle():
    from . import c07 as _c07
    return _c07.guesser_loads_faithfully('C02.L')


def r13_queue_state_per_object(ctx, rule):
    """The frontier belongs to one queue (seed C02-i moved p_queue = [] to the class body: every PcfgQueue of the process pushes into
    and pops from the same heap, so a second session re-emits the first one's frontier and the first one skips what the second
    popped)."""
    from .common import no_shared_class_state
    no_shared_class_state(ctx, rule, ['lib_guesser/priority_queue.py', 'lib_guesser/pcfg_grammar.py'], 8, 'the object is shared by every instance of the class: a second session / queue / generator created in the same process starts with (and keeps changing) the state of the first one')


def _saved_position_exact(ctx, rule):
    # "every intermediate state of the queue" includes the saved one: the position written to the .sav is the exact popped
    # probability, otherwise the restore treats the popped-but-unguessed pre-terminal as emitted (seed C02-j: '{:.15e}'.format)
    from . import c08
    return c08.r4_saved_position(ctx, rule)


def _canonical_descent(ctx, rule):
    # a restored queue holds every frontier pre-terminal ONCE: the restore walk follows one canonical path per node (seed C02-k
    # passed left_index on unchanged in the recursion, so a node was re-created once per path that reaches it)
    from . import c08
    return c08.r3_canonical_descent(ctx, rule)

def _region_agreement(ctx, rule):
    # after a restore nothing is emitted twice only if "a parent is still queued" means the same thing for the walk and for the
    # parent test (seed C02-o: is_parent_around compared with < while the walk restores at <=)
    from . import c08
    return c08.r2_region_agreement(ctx, rule)

def _shared_rule(mod, name, **kw):
    def run(ctx, rule):
        import importlib
        return getattr(importlib.import_module('sa.props.' + mod), name)(ctx, rule, **kw)
    return run


def rules(tier):
    return [('C02.R12', r12_queue_conservation), ('C02.R1', lambda c, r: r1_adoption_kernel(c, r)), ('C02.R2', r2_predecessor), ('C02.R3', r3_coparent_prob),
            ('C02.R4', r4_copy_before_mutate), ('C02.R5', r5_all_children_pushed), ('C02.R6', r6_seeding),
            ('C02.R7', c01.r3b_prob_pure), ('C02.R8', c01.r4_prob_pt_coupling), ('C02.R9', c01.r5_successor), ('C02.R10', _mask_insertion),
            ('C02.R11', _exact_float), ('C02.R13', r13_queue_state_per_object), ('C02.R14', _saved_position_exact), ('C02.R15', _canonical_descent), ('C02.R16', _region_agreement),
            # C02-cb: recursion limit of the restore walk lowered - a deep sub-tree is lost on resume
            ('C02.R17', _shared_rule('c08', 'r9_restore_depth')),
            # C02-ca: skip_case restored from the skip_brute key
            ('C02.R18', _shared_rule('c08', 'r11_restore_is_verbatim')),
            # C02-da: session saved after the popped pre-terminal was generated - it is generated again after --load
            ('C02.R19', _shared_rule('c08', 'r23_no_save_after_generation')),
            # C14-db: pre-terminals right of an exhausted position are lost on resume
            ('C02.R20', _shared_rule('c08', 'r24_restore_visits_every_position')),
            # mutation sweep: the last queued pre-terminal is lost when next() tests len == 1
            ('C02.R21', _shared_rule('plumbing', 'generator_glue')),
            # C02-ea: the re-cased tail built on a list shared across masks
            ('C02.R22', _shared_rule('c04', 'r3_mask_slices')),
            # C02-eb: print_guess returns without printing once a quit is requested
            ('C02.R23', _shared_rule('c04', 'r12_output_point_total')),
            # C02-fa: skip_brute / skip_case reach load_grammar exchanged (positional call, reordered signature)
            ('C02.R24', _shared_rule('c14', 'r13_options_forwarded')),
            # C02-fb: file.seek(0) only when the pre-scan found an M line - a ruleset without M loads no base structure under --skip_brute
            ('C02.R25', _shared_rule('c14', 'r1_rewind'))] + _loader_bundle() + []


META = {
    'explanation': 'The adoption predicate _are_you_my_child is tabulated over all orderings of (co-parent prob vs own '
                   'prob) x (co-parent position vs own position) and must select a unique minimum under a strict '
                   'total order (any tie pattern); predecessor/successor templates (+/-1 at one position, exact '
                   'guards); co-parents evaluated by the same pure _find_prob with the same base; copy-before-mutate; '
                   'every approved child pushed; every base structure seeded with index 0.',
    'trusted_base': ['python ast', 'paper argument (spanning tree carved from the index DAG) DESIGN.md section 4 C02'],
    'assumptions': ['A1 float multiplication monotone', 'A2 well-formed ruleset'],
    'not_decided': 'nothing beyond A1/A2; obligations => property is the paper argument',
    'technique': 'ordering-domain tabulation (finite abstract interpretation) of the adoption kernel + index-domain '
                 'template checks + aliasing (copy-before-mutate) rule',
}

META['explanation'] += ' ' + 'Further: the guesser loads the PCFG files faithfully (record layout, strip discipline, encoding agreement, no line skipped except error recovery); exact-float discipline; mask insertion visits every element.'

META['explanation'] += ' ' + 'Round 13: next() pushes the children of the item popped in the same call, unconditionally and before it returns (no lazy expansion behind the emptiness test); the loader flags reach load_grammar in their own places; the base-structure file is rewound whether or not the pre-scan found an M line.'
