"""C03 - every supported training password is reproduced (structural necessary conditions; DESIGN section 4, C03)."""
import ast
import re

from ..core import (U, walk_local, calls_in, call_name, const, NOCONST, params, stores_in, single_def, expand,
                    walk_stmts, arg_for, kwarg, path_conditions, enclosing_stmt_chain, dotted, str_consts)
from ..lin import lin, Lin
from .common import PG, PGF, GIO
from . import c01, c04, c08

DET = 'lib_trainer/detection_rules/'
PARSER = 'lib_trainer/pcfg_password_parser.py::PCFGPasswordParser.'
SAVE = 'lib_trainer/save_pcfg_data.py::'
CONF = 'lib_trainer/config_file.py::'

# position of the labelled values in each detector's return value (confirmed by reading the drivers; frozen)
VALUE_POS = {
    'detect_keyboard_walk': {1: 'K'},            # (section_list, found_walks, keyboards)
    'year_detection': {None: 'Y'},
    'context_sensitive_detection': {None: 'X'},
    'alpha_detection': {0: 'A', 1: 'C'},          # (alpha strings, masks)
    'digit_detection': {None: 'D'},
    'other_detection': {None: 'O'},
}
DET_MODULE = {
    'detect_keyboard_walk': DET + 'keyboard_walk.py', 'year_detection': DET + 'year_detection.py',
    'context_sensitive_detection': DET + 'context_sensitive_detection.py', 'alpha_detection': DET + 'alpha_detection.py',
    'digit_detection': DET + 'digit_detection.py', 'other_detection': DET + 'other_detection.py',
}


def detector_labels(ctx, rel):
    """{letter: ('len'|'const', suffix)} from the label expressions of (segment, label) tuples in a detector module."""
    m = ctx.repo.mod(rel)
    out = {}
    for n in ast.walk(m.tree):
        if isinstance(n, ast.Tuple) and len(n.elts) == 2:
            lab = n.elts[1]
            if isinstance(lab, ast.BinOp) and isinstance(lab.op, ast.Add) and isinstance(const(lab.left), str) \
                    and re.fullmatch('[A-Z]', const(lab.left)) and isinstance(lab.right, ast.Call) and call_name(lab.right) == 'str' \
                    and lab.right.args and isinstance(lab.right.args[0], ast.Call) and call_name(lab.right.args[0]) == 'len':
                out[const(lab.left)] = ('len', U(lab.right.args[0].args[0]), U(n.elts[0]))
            elif isinstance(const(lab), str) and re.fullmatch('[A-Z][0-9]*', const(lab)):
                c = const(lab)
                out[c[0]] = ('const', c[1:], U(n.elts[0]))
    return out


def parse_counters(ctx):
    """{letter: (counter attr, 'indexed'|'flat')} from PCFGPasswordParser.parse."""
    fn = ctx.fn(PARSER + 'parse')
    var_of = {}   # var -> (detector, position)
    for st in fn.body:
        if isinstance(st, ast.Assign) and isinstance(st.value, ast.Call) and isinstance(st.value.func, ast.Name):
            det = st.value.func.id
            t = st.targets[0]
            if isinstance(t, ast.Name):
                var_of[t.id] = (det, None)
            elif isinstance(t, ast.Tuple):
                for i, e in enumerate(t.elts):
                    if isinstance(e, ast.Name):
                        var_of[e.id] = (det, i)
    counters = {}
    for st in fn.body:
        if isinstance(st, ast.Expr) and isinstance(st.value, ast.Call) and call_name(st.value) == 'self._update_counter_len_indexed' \
                and len(st.value.args) == 2 and isinstance(st.value.args[1], ast.Name):
            counters.setdefault(st.value.args[1].id, []).append((U(st.value.args[0]), 'indexed'))
        if isinstance(st, ast.For) and isinstance(st.iter, ast.Name) and isinstance(st.target, ast.Name):
            for s in st.body:
                if isinstance(s, ast.AugAssign) and isinstance(s.target, ast.Subscript) and U(s.target.slice) == st.target.id \
                        and const(s.value) == 1 and isinstance(s.op, ast.Add):
                    counters.setdefault(st.iter.id, []).append((U(s.target.value), 'flat'))
        # Counter.update(<found list>) counts every element once: the same tally as the loop
        if isinstance(st, ast.Expr) and isinstance(st.value, ast.Call) and isinstance(st.value.func, ast.Attribute) \
                and st.value.func.attr == 'update' and len(st.value.args) == 1 and isinstance(st.value.args[0], ast.Name) \
                and not st.value.keywords and U(st.value.func.value).startswith('self.count_'):
            counters.setdefault(st.value.args[0].id, []).append((U(st.value.func.value), 'flat'))
    out = {}
    detail = {}
    for var, (det, pos) in var_of.items():
        letter = VALUE_POS.get(det, {}).get(pos)
        if letter:
            cs = counters.get(var, [])
            out[letter] = cs
            detail[letter] = {'detector': det, 'position': pos, 'variable': var, 'counters': cs}
    return out, detail


def save_folders(ctx):
    """{folder: {'indexed': attr} | {'named': {stem: attr}}} + encoding expr, from save_pcfg_data."""
    fn = ctx.fn(SAVE + 'save_pcfg_data')
    pp = params(fn)[1]
    folder = None
    groups = {}
    out = {}
    for st in walk_stmts(fn.body):
        if isinstance(st, ast.Assign) and len(st.targets) == 1 and isinstance(st.targets[0], ast.Name):
            v = st.value
            if isinstance(v, ast.Call) and call_name(v) == 'os.path.join' and len(v.args) == 2 and isinstance(const(v.args[1]), str):
                folder = const(v.args[1])
            elif isinstance(v, ast.Dict):
                groups[st.targets[0].id] = {const(k): U(x) for k, x in zip(v.keys, v.values) if k is not None}
        elif isinstance(st, ast.Assign) and isinstance(st.targets[0], ast.Subscript) and isinstance(st.targets[0].value, ast.Name) \
                and st.targets[0].value.id in groups:
            groups[st.targets[0].value.id][const(st.targets[0].slice)] = U(st.value)
        for c in ([st.test] if isinstance(st, ast.If) else []):
            for call in [x for x in ast.walk(c) if isinstance(x, ast.Call)]:
                if call_name(call) == 'save_indexed_counters' and len(call.args) >= 3:
                    # arguments by role, whatever the signature: the folder is the argument that is (or joins) a string constant
                    # folder name, the counters are the pcfg_parser attribute / the grouping dict, the encoding is the rest
                    args = list(call.args) + [k.value for k in call.keywords]
                    fold = None
                    cnt = None
                    encs = [U(args[-1])]          # the encoding is the last argument in every signature seen
                    for a in args[:-1]:
                        if isinstance(const(a), str):
                            fold = const(a)
                        elif isinstance(a, ast.Call) and call_name(a) == 'os.path.join' and a.args and isinstance(const(a.args[-1]), str):
                            fold = const(a.args[-1])
                        elif isinstance(a, ast.Name) and a.id in groups:
                            cnt = a
                        elif isinstance(a, ast.Attribute) and U(a).startswith(pp + '.count_'):
                            cnt = a
                        elif isinstance(a, ast.Name) and a.id == params(fn)[0]:
                            pass                      # base directory
                        elif isinstance(a, ast.Name) and fold is None and a.id not in groups and len(call.args) == 3 and a is call.args[0]:
                            fold = folder             # the variable assigned from os.path.join(base, "<Folder>") just before
                        else:
                            encs.append(U(a))
                    if fold is None or cnt is None:
                        continue
                    enc = encs[-1] if encs else '?'
                    if isinstance(cnt, ast.Name):
                        out[fold] = {'named': dict(groups[cnt.id]), 'encoding': enc}
                    else:
                        out[fold] = {'indexed': U(cnt), 'encoding': enc}
    return out, pp


def config_sections(ctx):
    """{section: {'name','directory','filenames'}} by specialising each add_* at its call in create_config_file."""
    cf = ctx.fn(CONF + 'create_config_file')
    mod = ctx.repo.mod('lib_trainer/config_file.py')
    out = {}
    for c in calls_in(cf):
        nm = call_name(c)
        if nm and nm.startswith('add_') and nm in mod.funcs:
            fn = mod.funcs[nm]
            sec = None
            rec = {}
            for st in walk_stmts(fn.body):
                if isinstance(st, ast.Assign) and U(st.targets[0]) == 'section' and isinstance(const(st.value), str):
                    sec = const(st.value)
                for cc in calls_in(st) if isinstance(st, ast.Expr) else []:
                    if isinstance(cc.func, ast.Attribute) and cc.func.attr == 'add_section' and len(cc.args) == 1 \
                            and isinstance(const(cc.args[0]), str) and sec is None:
                        sec = const(cc.args[0])       # the section named directly (no local `section`)
                    if isinstance(cc.func, ast.Attribute) and cc.func.attr == 'set' and len(cc.args) == 3:
                        k = const(cc.args[1])
                        if k in ('name', 'directory'):
                            rec[k] = const(cc.args[2])
                        if k == 'filenames':
                            v = cc.args[2]
                            if isinstance(v, ast.Call) and call_name(v) == 'json.dumps' and v.args:
                                inner = v.args[0]
                                fstores = stores_in(fn)
                                if isinstance(inner, ast.Name) and inner.id not in params(fn) and len([1 for s_, vv in fstores.get(inner.id, []) if vv is not None]) == 1:
                                    # the list is computed inside the callee from a parameter: create_filename_list(<param>)
                                    dv = [vv for s_, vv in fstores[inner.id] if vv is not None][0]
                                    if isinstance(dv, ast.List):
                                        rec['filenames'] = ('const', [const(e) for e in dv.elts])
                                    if isinstance(dv, ast.Call) and call_name(dv) == 'create_filename_list' and dv.args \
                                            and isinstance(dv.args[0], ast.Name) and dv.args[0].id in params(fn):
                                        a = arg_for(c, fn, dv.args[0].id, bound=False)
                                        rec['filenames'] = ('param', 'create_filename_list(%s)' % U(a) if a is not None else None)
                                if isinstance(inner, ast.Call) and call_name(inner) == 'create_filename_list' and inner.args \
                                        and isinstance(inner.args[0], ast.Name) and inner.args[0].id in params(fn):
                                    a = arg_for(c, fn, inner.args[0].id, bound=False)
                                    rec['filenames'] = ('param', 'create_filename_list(%s)' % U(a) if a is not None else None)
                                if isinstance(inner, ast.Name) and inner.id in params(fn):
                                    a = arg_for(c, fn, inner.id, bound=False)
                                    rec['filenames'] = ('param', U(a) if a is not None else None)
                                elif isinstance(inner, ast.List):
                                    rec['filenames'] = ('const', [const(e) for e in inner.elts])
            if sec:
                out[sec] = rec
    return out


def loader_sections(ctx):
    """Sections the guesser loads + the key / path construction."""
    fn = ctx.fn(GIO + '_load_terminals')
    secs = []
    for c in calls_in(fn):
        if call_name(c) == '_load_from_multiple_files' and len(c.args) >= 2:
            a = c.args[1]
            if isinstance(a, ast.Subscript) and isinstance(const(a.slice), str):
                mod = ctx.repo.modules[GIO.partition('::')[0]]
                st = c08._stmt_of(mod, c)
                conds = [(U(t), p) for t, p in path_conditions(mod, st)]
                secs.append((const(a.slice), conds))
    mf = ctx.fn(GIO + '_load_from_multiple_files')
    stores = stores_in(mf)
    facts = {}
    for st in walk_stmts(mf.body):
        if isinstance(st, ast.Assign) and len(st.targets) == 1 and isinstance(st.targets[0], ast.Name):
            facts[st.targets[0].id] = U(st.value)
    loopvar = None
    for n in walk_local(mf):
        if isinstance(n, ast.For) and isinstance(n.target, ast.Name):
            loopvar = n.target.id
            facts['loop_over'] = U(n.iter)
    # the key under which a file's list is stored: grammar[<key>] = [] (the key through a local `name` or written out)
    gp = params(mf)[0] if params(mf) else 'grammar'
    for st in walk_stmts(mf.body):
        if isinstance(st, ast.Assign) and len(st.targets) == 1 and isinstance(st.targets[0], ast.Subscript) \
                and U(st.targets[0].value) == gp and U(st.value) == '[]':
            facts['name'] = U(expand(mf, st.targets[0].slice, stores))
    if 'full_path' not in facts:
        # the path written out in the call: _load_from_file(grammar[..], os.path.join(..), encoding)
        for c in calls_in(mf):
            if call_name(c) == '_load_from_file' and len(c.args) >= 2 and isinstance(c.args[1], ast.Call):
                facts['full_path'] = U(c.args[1])
    fixed = {}
    cur_path = None
    for st in walk_stmts(fn.body):
        if isinstance(st, ast.Assign) and isinstance(st.value, ast.Call) and call_name(st.value) == 'os.path.join':
            cur_path = tuple(const(a) for a in st.value.args[1:])
        for c in ([x for x in ast.walk(st.test) if isinstance(x, ast.Call)] if isinstance(st, ast.If) else []):
            if call_name(c) == '_load_from_file' and len(c.args) >= 2 and isinstance(c.args[1], ast.Call) and call_name(c.args[1]) == 'os.path.join':
                cur_path = tuple(const(a) for a in c.args[1].args[1:])      # the path written out in the call
            if call_name(c) == '_load_from_file' and isinstance(c.args[0], ast.Subscript) and isinstance(const(c.args[0].slice), str):
                fixed[const(c.args[0].slice)] = cur_path
            if call_name(c) == '_load_from_file':
                fixed.setdefault('paths', set()).add(cur_path)
    return secs, facts, loopvar, fixed


def _filename_list_shape(cfl):
    """create_filename_list(d) = [str(k) + '.txt' for k in d] in one of its spellings -> True; a recognised spelling with another
    element expression -> False; anything else -> None."""
    d = params(cfl)[0] if params(cfl) else None
    sources = {d, '%s.keys()' % d, 'list(%s)' % d, 'list(%s.keys())' % d, 'sorted(%s)' % d}

    def elem_ok(e, k):
        t = U(e)
        if t in ("str(%s) + '.txt'" % k, "'%%s.txt' %% %s" % k, "'{}.txt'.format(%s)" % k, "'%%s.txt' %% (%s,)" % k, "'{0}.txt'.format(%s)" % k):
            return True
        if isinstance(e, ast.JoinedStr) and len(e.values) == 2 and isinstance(e.values[0], ast.FormattedValue) \
                and U(e.values[0].value) == k and e.values[0].conversion in (-1, 115) and e.values[0].format_spec is None \
                and isinstance(e.values[1], ast.Constant) and e.values[1].value == '.txt':
            return True
        return False
    rets = [r for r in walk_local(cfl) if isinstance(r, ast.Return)]
    if len(rets) != 1 or rets[0].value is None:
        return None
    v = rets[0].value
    stores = stores_in(cfl)
    if isinstance(v, ast.Name) and len(stores.get(v.id, [])) == 1 and isinstance(stores[v.id][0][1], ast.ListComp):
        v = stores[v.id][0][1]
    if isinstance(v, ast.ListComp) and len(v.generators) == 1 and not v.generators[0].ifs and isinstance(v.generators[0].target, ast.Name):
        if U(v.generators[0].iter) not in sources:
            return None
        return elem_ok(v.elt, v.generators[0].target.id)
    if isinstance(v, ast.Name):
        # in-place form: L = list(d); for i, k in enumerate(L): L[i] = E(k)      /  L = []; for k in d: L.append(E(k))
        L = v.id
        init = [val for st_, val in stores.get(L, []) if val is not None]
        for lp in [n for n in walk_local(cfl) if isinstance(n, ast.For)]:
            if len(init) == 1 and U(init[0]) in sources - {d} and U(lp.iter) == 'enumerate(%s)' % L and isinstance(lp.target, ast.Tuple) \
                    and len(lp.target.elts) == 2 and len(lp.body) == 1 and isinstance(lp.body[0], ast.Assign) \
                    and U(lp.body[0].targets[0]) == '%s[%s]' % (L, U(lp.target.elts[0])):
                return elem_ok(lp.body[0].value, U(lp.target.elts[1]))
            if len(init) == 1 and U(init[0]) == '[]' and U(lp.iter) in sources and isinstance(lp.target, ast.Name) and len(lp.body) == 1 \
                    and isinstance(lp.body[0], ast.Expr) and isinstance(lp.body[0].value, ast.Call) \
                    and U(lp.body[0].value.func) == L + '.append' and len(lp.body[0].value.args) == 1:
                return elem_ok(lp.body[0].value.args[0], lp.target.id)
    return None


def r1_tag_chain(ctx, rule, scope='all'):
    labels = {}
    for det, rel in DET_MODULE.items():
        for letter, info in detector_labels(ctx, rel).items():
            labels[letter] = (det, info)
    counters, cdetail = parse_counters(ctx)
    folders, pp = save_folders(ctx)
    sections = config_sections(ctx)
    lsecs, lfacts, loopvar, fixed = loader_sections(ctx)
    table = []
    ok_all = True
    site = PARSER + 'parse'
    # create_filename_list shape: str(key) + '.txt'
    cfl = ctx.fn(CONF + 'create_filename_list')
    cfl_ok = _filename_list_shape(cfl)
    if cfl_ok is None:
        ctx.unk(rule, CONF + 'create_filename_list', 'the way create_filename_list turns the counter keys into file names is not of a form this rule knows')
        cfl_ok = True
    # loader key / path construction
    lv = loopvar or 'file'
    key_ok = lfacts.get('name') == "config.get('name') + %s.split('.')[0]" % lv
    path_ok = lfacts.get('full_path') == 'os.path.join(base_directory, directory, %s)' % lv \
        and lfacts.get('directory') == "config.get('directory')" and \
        ((lfacts.get('filenames') == "json.loads(config.get('filenames'))" and lfacts.get('loop_over') == 'filenames')
         or lfacts.get('loop_over') == "json.loads(config.get('filenames'))")
    if (not key_ok or not path_ok) and any(lfacts.get(k_) is None for k_ in ('name', 'full_path', 'directory')):
        ok_all = False
        ctx.unk(rule, GIO + '_load_from_multiple_files', 'the key / path construction of the length-indexed loader was not found in a form this '
                'rule knows (%s)' % sorted(k_ for k_ in ('name', 'full_path', 'directory') if lfacts.get(k_) is None))
    elif not key_ok or not path_ok or not cfl_ok:
        ok_all = False
        ctx.bad(rule, GIO + '_load_from_multiple_files', 'loader key/path construction %s' % lfacts,
                "every listed file <stem>.txt of a section must be loaded from <directory>/<file> under the key <name><stem>; "
                "the trainer names the files str(key) + '.txt'", lfacts, ctx.repo.fn(GIO + '_load_from_multiple_files'))
    loaded = {s: c for s, c in lsecs}
    name_to_sec = {v.get('name'): s for s, v in sections.items()}
    for letter in ('A', 'C', 'D', 'O', 'K', 'Y', 'X'):
        row = {'letter': letter}
        prob = []
        if letter != 'C':
            lab = labels.get(letter)
            row['label'] = lab[1][:2] if lab else None
            if not lab:
                prob.append('no detector produces label %s' % letter)
        cs = counters.get(letter) or []
        row['counter'] = cs
        if len(cs) != 1:
            prob.append('values of %s feed %d counters: %s' % (letter, len(cs), cs))
            counter = None
        else:
            counter, ckind = cs[0]
            counter_attr = counter.replace('self.', '')
        sec = name_to_sec.get(letter)
        row['section'] = sec
        if not sec:
            prob.append('no config section with name %s' % letter)
        else:
            srec = sections[sec]
            row['directory'] = srec.get('directory')
            row['filenames'] = srec.get('filenames')
            fol = folders.get(srec.get('directory'))
            row['folder_saved'] = fol
            if not fol:
                prob.append('config directory %r is not a folder save_pcfg_data writes' % srec.get('directory'))
            elif counter:
                fkind, fsrc = srec.get('filenames', (None, None))
                if 'indexed' in fol:
                    if fol['indexed'] != '%s.%s' % (pp, counter_attr):
                        prob.append('folder %s is written from %s but the %s values are counted in %s'
                                    % (srec['directory'], fol['indexed'], letter, counter))
                    if fkind != 'param' or fsrc != 'create_filename_list(pcfg_parser.%s)' % counter_attr:
                        prob.append('config file list of %s comes from %s, files are written from %s' % (sec, fsrc, fol['indexed']))
                    lab = labels.get(letter)
                    if letter != 'C' and lab and lab[1][0] != 'len':
                        prob.append('label %s is not length-indexed but its folder is' % letter)
                    if ckind != 'indexed':
                        prob.append('counter %s is not length-indexed but its folder is' % counter)
                else:
                    named = fol['named']
                    stems = [k for k, v in named.items() if v == '%s.%s' % (pp, counter_attr)]
                    if len(stems) != 1:
                        prob.append('folder %s does not save %s (%s)' % (srec['directory'], counter, named))
                    else:
                        lab = labels.get(letter)
                        if fkind != 'const' or fsrc != [stems[0] + '.txt']:
                            prob.append('config lists %s but the file written is %s.txt' % (fsrc, stems[0]))
                        if lab and (lab[1][0] != 'const' or lab[1][1] != stems[0]):
                            prob.append('label %s%s does not name file stem %s' % (letter, lab[1][1], stems[0]))
            if sec not in loaded:
                prob.append('the guesser does not load section %s' % sec)
            else:
                conds = loaded[sec]
                row['load_conditions'] = conds
                bad_c = [c for c in conds if not (c[0].startswith('not _load_from_multiple_files') or c[0] == 'not skip_case'
                                                  or c[0] == 'skip_case')]
                if bad_c:
                    prob.append('section %s is loaded only under %s' % (sec, bad_c))
        if scope == 'disk':
            # only the links that live on disk: folder <-> config section <-> loader (not detector labels / parse counters)
            prob = [p_ for p_ in prob if not (p_.startswith('no detector') or p_.startswith('values of') or p_.startswith('label ')
                                              or 'values are counted in' in p_ or p_.startswith('counter '))]
        row['problems'] = prob
        table.append(row)
        if prob:
            ok_all = False
            for p_ in prob:
                # a problem on the loading side is a statement about _load_terminals (so that a refactoring of the loader the
                # analysis cannot follow degrades to "not decided" there, not to a violation blamed on the trainer)
                psite = GIO + '_load_terminals' if ('guesser does not load' in p_ or 'is loaded only under' in p_) else site
                ctx.bad(rule, psite, 'chain %s: %s' % (letter, p_),
                        'a segment the trainer labels %s must be counted, written, listed in config.ini and loaded under '
                        'the same name; otherwise training passwords with such a segment are not reproduced' % letter,
                        {'row': row}, None)
    # Markov: fixed path
    mpath = fixed.get('M')
    if mpath is None and ('Omen', 'pcfg_omen_prob.txt') not in fixed.get('paths', ()):
        ok_all = False
        ctx.unk(rule, GIO + '_load_terminals', "the load of grammar['M'] was not found in a form this rule knows")
    elif mpath != ('Omen', 'pcfg_omen_prob.txt') and ('Omen', 'pcfg_omen_prob.txt') not in fixed.get('paths', ()):
        ok_all = False
        ctx.bad(rule, GIO + '_load_terminals', "grammar['M'] loaded from %s" % (mpath,), 'OMEN level probabilities live in '
                'Omen/pcfg_omen_prob.txt', None, None)
    ctx.stats['functions'].update([CONF + 'create_config_file', SAVE + 'save_pcfg_data', GIO + '_load_terminals'])
    if ctx.floor(rule, site, len(table), 7, 'category chains') and ok_all:
        ctx.ok(rule, site, 'label -> counter -> folder -> config section -> loader key agree for A, C, D, O, K, Y, X (+ M path)',
               {'chains': table})


def r2_mask_producer(ctx, rule, lower_only=True):
    qual = DET + 'alpha_detection.py::detect_alpha'
    fn = ctx.fn(qual)
    stores = stores_in(fn)
    # working string is the lower-cased section; words come from it
    ws = [nm for nm, lst in stores.items() if any(v is not None and U(v) == 'section[0].lower()' for s, v in lst)]
    other_maps = [(nm, U(v)) for nm, lst in stores.items() for s, v in lst if v is not None and isinstance(v, ast.Call)
                  and isinstance(v.func, ast.Attribute) and v.func.attr in ('casefold', 'upper', 'title', 'swapcase') and U(v.func.value) == 'section[0]']
    if other_maps and not lower_only and all('casefold' in m_[1] for m_ in other_maps):
        # casefold() differs from lower() only on letters without a one-to-one case mapping (outside C03's domain)
        ws = ws + [m_[0] for m_ in other_maps]
        other_maps = []
    if other_maps:
        ctx.bad(rule, qual, 'alpha words normalised with %s' % other_maps[0][1],
                "alpha values are stored through str.lower() and the guesser restores capitalisation by applying upper() per 'U' "
                "mask character - the inverse of lower() only; casefold() additionally rewrites characters (ß -> ss, final sigma) "
                "and changes lengths, so the stored word is not the password's word", None, fn)
        return
    loops = [n for n in walk_local(fn) if isinstance(n, ast.For) and isinstance(n.iter, ast.Name) and n.iter.id == 'word_list']
    if len(loops) != 1 or not ws:
        ctx.unk(rule, qual, 'word loop / lower-cased working string not found')
        return
    lp = loops[0]
    w = lp.target.id
    seg = None
    for c in calls_in(lp):
        if isinstance(c.func, ast.Attribute) and c.func.attr == 'append' and U(c.func.value) == 'parsing' and c.args \
                and isinstance(c.args[0], ast.Tuple):
            seg, lab = c.args[0].elts
    facts = {}
    ok = True
    if seg is None:
        ctx.unk(rule, qual, 'no (segment, label) append in the word loop')
        return
    facts['segment'] = U(seg)
    facts['label'] = U(lab)
    if U(lab) != "'A' + str(len(%s))" % w:
        ok = False
        ctx.bad(rule, qual, 'alpha label ' + U(lab), "label must be 'A' + str(len(word))", facts, lp)
    if not (isinstance(seg, ast.Subscript) and isinstance(seg.slice, ast.Slice) and U(seg.value) == 'section[0]'):
        ok = False
        ctx.bad(rule, qual, 'alpha segment ' + U(seg), 'the segment must be a slice of the original (not lower-cased) section',
                facts, lp)
    else:
        lo, hi = lin(seg.slice.lower), lin(seg.slice.upper)
        if lo is None or hi is None or (hi - lo) != Lin({'len(%s)' % w: 1}, 0):
            ok = False
            ctx.bad(rule, qual, 'alpha segment bounds ' + U(seg), 'the slice must be exactly len(word) long', facts, lp)
        carried = U(seg.slice.lower)
        adv = [s for s in lp.body if isinstance(s, ast.AugAssign) and U(s.target) == carried and isinstance(s.op, ast.Add)
               and U(s.value) == 'len(%s)' % w]
        if len(adv) != 1:
            ok = False
            ctx.bad(rule, qual, 'start %s not advanced by len(word)' % carried, 'consecutive words must tile the run', facts, lp)
    # mask: per character of *the same slice*
    mloops = [n for n in lp.body if isinstance(n, ast.For)]
    mask_ok = False
    if len(mloops) == 1:
        ml = mloops[0]
        facts['mask_over'] = U(ml.iter)
        ch = U(ml.target)
        if U(ml.iter) == U(seg) and len(ml.body) == 1 and isinstance(ml.body[0], ast.If):
            t = ml.body[0]
            if U(t.test) == '%s.isupper()' % ch and U(t.body) == "mask += 'U'" and U(t.orelse) == "mask += 'L'":
                mask_ok = True
            facts['mask_map'] = U(t)[:120]
    inits = [s for s in lp.body if isinstance(s, ast.Assign) and U(s.targets[0]) == 'mask' and const(s.value) == '']
    apps = [c for c in calls_in(lp) if isinstance(c.func, ast.Attribute) and c.func.attr == 'append' and U(c.func.value) == 'mask_list'
            and c.args and U(c.args[0]) == 'mask']
    # the same mask as one expression: mask_list.append(''.join('U' if ch.isupper() else 'L' for ch in <segment>))
    japps = [c for c in calls_in(lp) if isinstance(c.func, ast.Attribute) and c.func.attr == 'append' and U(c.func.value) == 'mask_list'
             and c.args and isinstance(c.args[0], ast.Call) and U(c.args[0].func) == "''.join" and len(c.args[0].args) == 1
             and isinstance(c.args[0].args[0], (ast.GeneratorExp, ast.ListComp)) and len(c.args[0].args[0].generators) == 1]
    join_form = False
    if not mloops and not inits and not apps and len(japps) == 1:
        g = japps[0].args[0].args[0]
        gen = g.generators[0]
        facts['mask_over'] = U(gen.iter)
        ch = U(gen.target)
        e = g.elt
        join_form = True
        mask_ok = (U(gen.iter) == U(seg) and not gen.ifs and isinstance(e, ast.IfExp) and U(e.test) == '%s.isupper()' % ch
                   and const(e.body) == 'U' and const(e.orelse) == 'L')
        facts['mask_map'] = U(e)[:120]
    # the mask of the whole run computed once and cut per word: mask_list.append(run_mask[a:b]) with run_mask the U/L map of
    # section[0][A:B]; right iff a == <word start> - A and b - a == len(word)
    sapps = [c for c in calls_in(lp) if isinstance(c.func, ast.Attribute) and c.func.attr == 'append' and U(c.func.value) == 'mask_list'
             and c.args and isinstance(c.args[0], ast.Subscript) and isinstance(c.args[0].slice, ast.Slice)
             and isinstance(c.args[0].value, ast.Name)]
    slice_form = None
    if not mloops and not japps and not apps and len(sapps) == 1 and isinstance(seg, ast.Subscript) and isinstance(seg.slice, ast.Slice):
        rm = single_def(fn, sapps[0].args[0].value.id)
        if isinstance(rm, ast.Call) and U(rm.func) == "''.join" and len(rm.args) == 1 and isinstance(rm.args[0], (ast.GeneratorExp, ast.ListComp)) \
                and len(rm.args[0].generators) == 1:
            g = rm.args[0]
            gen = g.generators[0]
            ch = U(gen.target)
            e = g.elt
            src = gen.iter
            if isinstance(src, ast.Subscript) and isinstance(src.slice, ast.Slice) and U(src.value) == 'section[0]' and not gen.ifs \
                    and isinstance(e, ast.IfExp) and U(e.test) == '%s.isupper()' % ch and const(e.body) == 'U' and const(e.orelse) == 'L':
                a0 = lin(src.slice.lower) if src.slice.lower is not None else Lin({}, 0)
                sl = sapps[0].args[0].slice
                lo_ = lin(sl.lower) if sl.lower is not None else Lin({}, 0)
                hi_ = lin(sl.upper) if sl.upper is not None else None
                ws_ = lin(seg.slice.lower)
                facts['mask_over'] = '%s cut as %s' % (U(src), U(sapps[0].args[0]))
                if None not in (a0, lo_, hi_, ws_):
                    slice_form = (lo_ == ws_ - a0) and ((hi_ - lo_) == Lin({'len(%s)' % w: 1}, 0))
    if slice_form is not None:
        if not slice_form:
            ok = False
            ctx.bad(rule, qual, 'mask built from %s' % facts.get('mask_over', '?'),
                    "the mask of a word must cover exactly the slice that is that word: a later word of a multi-word gets the "
                    "capitalisation of another part of the run", facts, lp)
    elif not mloops and not japps and not apps:
        ctx.unk(rule, qual, 'the construction of the capitalisation mask is not recognised', facts)
        ok = False
    elif not mask_ok or (not join_form and (len(inits) != 1 or len(apps) != 1)):
        ok = False
        ctx.bad(rule, qual, 'mask built from %s' % facts.get('mask_over', '?'),
                "the mask of a word must be computed character by character over exactly the slice that is that word "
                "('U' iff isupper()), started empty for every word and appended once: otherwise a later word of a "
                "multi-word gets the capitalisation of another part of the run", facts, lp)
    # words are taken from the lower-cased string and returned as the alpha values
    parse_calls = [c for c in calls_in(fn) if isinstance(c.func, ast.Attribute) and c.func.attr == 'parse'
                   and U(c.func.value) == 'multiword_detector']
    src_ok = parse_calls and isinstance(parse_calls[0].args[0], ast.Subscript) and U(parse_calls[0].args[0].value) in ws
    rets = [U(r.value) for r in walk_local(fn) if isinstance(r, ast.Return) and isinstance(r.value, ast.Tuple) and 'word_list' in U(r.value)]
    facts['returns'] = rets
    if not src_ok or rets != ['(parsing, word_list, mask_list)']:
        ok = False
        ctx.bad(rule, qual, 'words from %s, returns %s' % (U(parse_calls[0].args[0]) if parse_calls else None, rets),
                'alpha values are stored lower-case (from the lower-cased run) together with their masks', facts, fn)
    if ok:
        ctx.ok(rule, qual, "label 'A'+len(word); segment = section[0][c:c+len(word)]; mask over the same slice, U iff isupper; "
               "c += len(word); words lower-case", facts)


def r3_mask_insertion(ctx, rule):
    qual = GIO + '_load_base_structures'
    fn = ctx.fn(qual)
    cands = []
    for n in walk_local(fn):
        if isinstance(n, ast.While):
            ins = [c for c in calls_in(n) if isinstance(c.func, ast.Attribute) and c.func.attr == 'insert']
            if ins:
                cands.append((n, ins))
    # descending index loop: for i in range(len(x) - 1, -1, -1) / reversed(range(len(x))): inserting at i + 1 only moves elements that
    # were already visited, so every original element is seen exactly once
    for n in walk_local(fn):
        if not (isinstance(n, ast.For) and isinstance(n.target, ast.Name)):
            continue
        it = n.iter
        lst_ = None
        if isinstance(it, ast.Call) and call_name(it) == 'range' and len(it.args) == 3 and const(it.args[2]) == -1 and const(it.args[1]) == -1:
            l0 = lin(it.args[0])
            if l0 is not None and len(l0.t) == 1 and l0.c == -1 and list(l0.t)[0].startswith('len('):
                lst_ = list(l0.t)[0][4:-1]
        elif isinstance(it, ast.Call) and call_name(it) == 'reversed' and it.args and isinstance(it.args[0], ast.Call) \
                and call_name(it.args[0]) == 'range' and len(it.args[0].args) == 1 and U(it.args[0].args[0]).startswith('len('):
            lst_ = U(it.args[0].args[0])[4:-1]
        if lst_ is None:
            continue
        ins_ = [c for c in calls_in(n) if isinstance(c.func, ast.Attribute) and c.func.attr == 'insert' and U(c.func.value) == lst_]
        if len(ins_) != 1:
            continue
        iv = n.target.id
        mod_ = ctx.repo.modules[qual.partition('::')[0]]
        local = {}
        for s_ in walk_stmts(n.body):
            if isinstance(s_, ast.Assign) and isinstance(s_.targets[0], ast.Name):
                local[s_.targets[0].id] = s_.value
        ins = ins_[0]
        val_t = U(ins.args[1])
        for k, v in local.items():
            val_t = val_t.replace(k, U(v))
        conds = [(U(tt), p) for tt, p in path_conditions(mod_, c08._stmt_of(mod_, ins), stop=n)]
        facts = {'loop': U(n.iter), 'insert': U(ins), 'guard': conds, 'inserted': val_t}
        okd = lin(ins.args[0]) == Lin({iv: 1}, 1) and val_t == "'C' + %s[%s][1:]" % (lst_, iv) \
            and conds == [("%s[%s][0] == 'A'" % (lst_, iv), True)] \
            and not any(isinstance(s_, (ast.Break, ast.Continue, ast.Return)) for s_ in walk_stmts(n.body))
        if okd:
            ctx.ok(rule, qual, "descending index loop: C<n> inserted at i+1 after every A<n>, every element visited", facts)
        else:
            ctx.bad(rule, qual, 'descending mask insertion %s' % facts, "C<n> (same n) must be inserted at i+1 after every A<n> and only there", facts, n)
        return
    # contradiction form: a counted loop whose range is computed once while its body grows the list (seed C13-e)
    for n in walk_local(fn):
        if isinstance(n, ast.For) and isinstance(n.iter, ast.Call) and call_name(n.iter) == 'range':
            for c in calls_in(n):
                if isinstance(c.func, ast.Attribute) and c.func.attr == 'insert' and \
                        any(U(a) == 'len(%s)' % U(c.func.value) for a in n.iter.args):
                    ctx.bad(rule, qual, 'for %s in %s: ... %s' % (U(n.target), U(n.iter), U(c)[:50]),
                            'range(len(x)) is evaluated once, before the loop inserts into x: the elements pushed beyond the '
                            'original length are never visited, so a later alpha transition of the same structure gets no '
                            'capitalisation transition (its words are only ever guessed lower-case and the pre-terminal '
                            'probability lacks the mask factor the scorer multiplies in)', {'loop': U(n.iter)}, n)
                    return
    if not cands:
        # "build a new list" form:  NEW = []; for t in base['replacements']: NEW.append(t); if t[0] == 'A': NEW.append('C' + t[1:])
        # followed by base['replacements'] = NEW  (or [:] = NEW)
        mod = ctx.repo.modules[qual.partition('::')[0]]
        for lp in [n for n in walk_local(fn) if isinstance(n, ast.For) and isinstance(n.target, ast.Name)]:
            if not U(lp.iter).endswith("['replacements']"):
                continue
            t = lp.target.id
            apps = [c for c in calls_in(lp) if isinstance(c.func, ast.Attribute) and c.func.attr == 'append' and isinstance(c.func.value, ast.Name)]
            if len(apps) != 2 or len({c.func.value.id for c in apps}) != 1:
                continue
            new = apps[0].func.value.id
            stores = stores_in(fn)
            local = {}
            for s_ in walk_stmts(lp.body):
                if isinstance(s_, ast.Assign) and isinstance(s_.targets[0], ast.Name):
                    local[s_.targets[0].id] = s_.value
            facts = {'loop': U(lp.iter), 'appends': [U(c) for c in apps]}
            copy_app = [c for c in apps if U(c.args[0]) == t]
            mask_app = [c for c in apps if c not in copy_app]
            ok = True
            if len(copy_app) != 1 or len(mask_app) != 1:
                ctx.bad(rule, qual, 'new replacement list built from %s' % facts['appends'], 'every transition is copied and a C<n> '
                        'follows each A<n>', facts, lp)
                return
            c_conds = [(U(tt), p) for tt, p in path_conditions(mod, c08._stmt_of(mod, copy_app[0]), stop=lp)]
            m_conds = [(U(tt), p) for tt, p in path_conditions(mod, c08._stmt_of(mod, mask_app[0]), stop=lp)]
            val_t = U(mask_app[0].args[0])
            for k, v in local.items():
                val_t = val_t.replace(k, U(v))
            facts.update({'copied_under': c_conds, 'mask_under': m_conds, 'inserted': val_t})
            if c_conds or copy_app[0].lineno > mask_app[0].lineno:
                ok = False
                ctx.bad(rule, qual, 'transition copied under %s' % c_conds, 'every transition of the file is kept, before its mask', facts, lp)
            if m_conds != [("%s[0] == 'A'" % t, True)]:
                ok = False
                ctx.bad(rule, qual, 'insertion guard %s' % m_conds, "a mask is inserted after every 'A' transition and only there", facts, lp)
            if val_t != "'C' + %s[1:]" % t:
                ok = False
                ctx.bad(rule, qual, 'inserted value ' + val_t, "for A<n> the transition C<n> with the same n (ALL digits of n) must be "
                        "inserted", facts, mask_app[0])
            if any(isinstance(s_, (ast.Break, ast.Continue, ast.Return)) for s_ in walk_stmts(lp.body)):
                ok = False
                ctx.bad(rule, qual, 'loop leaves early', 'every transition must be visited', facts, lp)
            # the new list becomes the structure's replacement list, and starts empty for every structure
            wb = [s_ for s_ in walk_stmts(fn.body) if isinstance(s_, ast.Assign) and U(s_.value) == new
                  and U(s_.targets[0]) in (U(lp.iter), U(lp.iter) + '[:]')]
            init = [s_ for s_, v in stores.get(new, []) if v is not None and isinstance(v, ast.List) and not v.elts]
            outer = mod.parents.get(id(lp))
            same_block = any(isinstance(getattr(outer, f_, None), list) and any(x is lp for x in getattr(outer, f_)) and
                             any(x is i_ for i_ in init for x in getattr(outer, f_)) and any(x is w_ for w_ in wb for x in getattr(outer, f_))
                             for f_ in ('body', 'orelse'))
            if not wb or not init or not same_block:
                ok = False
                ctx.bad(rule, qual, 'new list %s is not (re)started empty and written back for every structure' % new,
                        'the expanded list must replace the replacements of the same base structure', facts, lp)
            if ok:
                ctx.ok(rule, qual, "new list: every transition copied, C<n> appended after every A<n>, written back", facts)
            return
    # insertion addressed by value: X.insert(X.index(item) + 1, ..) finds the FIRST transition equal to item, so for a structure
    # that repeats a transition (A4 A4) both masks land behind the first one
    for c in calls_in(fn):
        if isinstance(c.func, ast.Attribute) and c.func.attr == 'insert' and c.args:
            tgt_ = U(c.func.value)
            for x in ast.walk(c.args[0]):
                if isinstance(x, ast.Call) and isinstance(x.func, ast.Attribute) and x.func.attr == 'index' and U(x.func.value) == tgt_:
                    ctx.bad(rule, qual, 'mask inserted at a position found by value: %s' % U(c)[:70],
                            "the C<n> transition must follow ITS A<n>: list.index() returns the first equal transition, so in a "
                            "structure with a repeated A<n> the masks are not next to their words", None, c)
                    return
    if len(cands) != 1 or len(cands[0][1]) != 1:
        ctx.unk(rule, qual, 'mask insertion loop not found')
        return
    wl, (ins,) = cands[0]
    mod = ctx.repo.modules[qual.partition('::')[0]]
    lst = U(ins.func.value)
    facts = {'loop': U(wl.test), 'insert': U(ins)}
    ok = True
    t = wl.test
    iv = None
    if isinstance(t, ast.Compare) and len(t.ops) == 1 and isinstance(t.ops[0], ast.Lt) and U(t.comparators[0]) == 'len(%s)' % lst:
        iv = U(t.left)
    if iv is None:
        ctx.bad(rule, qual, 'loop condition ' + U(t), 'the loop must visit every element of the (growing) replacement list', facts, wl)
        return
    local = {}
    for s in walk_stmts(wl.body):
        if isinstance(s, ast.Assign) and isinstance(s.targets[0], ast.Name):
            local[s.targets[0].id] = s.value
    pos, val = ins.args[0], ins.args[1]
    val_t = U(val)
    for k, v in local.items():
        val_t = val_t.replace(k, U(v))
    facts['inserted'] = val_t
    if lin(pos) != Lin({iv: 1}, 1):
        ok = False
        ctx.bad(rule, qual, 'mask inserted at ' + U(pos), 'the capitalisation transition must come immediately after its alpha '
                'transition (index i+1): the mask is applied to the word just before it', facts, ins)
    if val_t != "'C' + %s[%s][1:]" % (lst, iv):
        ok = False
        ctx.bad(rule, qual, 'inserted value ' + val_t, "for A<n> the transition C<n> with the same n must be inserted", facts, ins)
    conds = [(U(tt), p) for tt, p in path_conditions(mod, c08._stmt_of(mod, ins), stop=wl)]
    facts['guard'] = conds
    if conds != [("%s[%s][0] == 'A'" % (lst, iv), True)]:
        ok = False
        ctx.bad(rule, qual, 'insertion guard %s' % conds, "a mask is inserted after every 'A' transition and only there", facts, ins)
    steps = [s for s in wl.body if isinstance(s, ast.AugAssign) and U(s.target) == iv]
    if len(steps) != 1 or not (isinstance(steps[0].op, ast.Add) and const(steps[0].value) == 1) \
            or any(isinstance(s, (ast.Break, ast.Continue)) for s in walk_stmts(wl.body)):
        ok = False
        ctx.bad(rule, qual, 'index step %s' % [U(s) for s in steps], 'the index must advance by one on every iteration '
                '(the inserted C element is skipped by the next iteration because it is not an A)', facts, wl)
    # the index starts at the first transition: its binding in front of the loop is 0
    inits = [v for s_, v in stores_in(fn).get(iv, []) if v is not None and isinstance(const(v), int) and not isinstance(const(v), bool)] if iv else []
    if iv and (len(inits) != 1 or const(inits[0]) != 0):
        ok = False
        if len(inits) == 1:
            ctx.bad(rule, qual, 'the scan starts at index %s' % U(inits[0]), 'every transition is visited, the first one included: an alpha transition '
                    'at the front of a structure otherwise gets no capitalisation transition', facts, wl, firm=True)
        else:
            ctx.unk(rule, qual, 'the start index of the mask insertion scan is not a single constant')
    if ok:
        ctx.ok(rule, qual, "C<n> inserted at i+1 after every A<n>, every element visited", facts)


def r9_counted_value_is_segment(ctx, rule):
    """What a detector reports as found (and the parser tallies) is the text of the segment it labelled."""
    specs = [(DET + 'year_detection.py::detect_year', 'Y'), (DET + 'context_sensitive_detection.py::detect_context_sensitive', 'X'),
             (DET + 'digit_detection.py::detect_digits', 'D')]
    n = 0
    for q, letter in specs:
        fn = ctx.fn(q)
        stores = stores_in(fn)
        rets = [r for r in walk_local(fn) if isinstance(r, ast.Return) and isinstance(r.value, ast.Tuple) and U(r.value.elts[0]) == 'parsing']
        segs = [t.elts[0] for t in ast.walk(fn) if isinstance(t, ast.Tuple) and len(t.elts) == 2
                and ((isinstance(const(t.elts[1]), str) and const(t.elts[1]).startswith(letter))
                     or (isinstance(t.elts[1], ast.BinOp) and const(t.elts[1].left) == letter))]
        if not rets or not segs:
            ctx.unk(rule, q, 'labelled segment / returned value not found')
            continue
        n += 1
        found = rets[0].value.elts[1]
        seg = segs[0]
        fe, se = expand(fn, found, stores), expand(fn, seg, stores)
        facts = {'segment': U(se), 'reported': U(fe)}
        if U(fe) == U(se) or U(found) == U(seg) or U(fe) == "''.join(%s)" % U(se):
            ctx.ok(rule, q, 'the reported value is the labelled slice itself', facts)
            continue
        # needle form: segment = S[i : i + len(r)], i = S.find(r), reported r
        okk = False
        if isinstance(seg, ast.Subscript) and isinstance(seg.slice, ast.Slice) and isinstance(found, ast.Name):
            S = U(seg.value)
            lo = seg.slice.lower
            r = found.id
            if lo is not None and isinstance(lo, ast.Name) and U(seg.slice.upper) == '%s + len(%s)' % (lo.id, r):
                defs = [U(v) for s_, v in stores.get(lo.id, []) if v is not None]
                Sdefs = [U(v) for s_, v in stores.get(S, []) if v is not None]
                if defs == ['%s.find(%s)' % (S, r)] and all('lower' not in d and 'upper' not in d and 'casefold' not in d for d in Sdefs):
                    okk = True
                facts['index_definition'] = defs
        if okk:
            ctx.ok(rule, q, 'segment = S[i:i+len(r)] with i = S.find(r) on the same string: segment text == reported value r', facts)
        else:
            ctx.bad(rule, q, 'reported %s for segment %s' % (U(found), U(seg)),
                    'the value that is tallied (and later generated) must be exactly the text of the labelled segment; if the '
                    'match is found case-insensitively (or on another copy) the terminal list holds a different spelling than the '
                    'password and the password is not reproduced', facts, rets[0])
    ctx.floor(rule, DET, n, 3, 'detectors with a reported value')


def _renorm(ctx, rule):
    from . import c14
    return c14.r2_renormalisation(ctx, rule)


def _adoption(ctx, rule):
    from . import c02
    return c02.r1_adoption_kernel(ctx, rule)


def _loader_bundle():
    from . import c07 as _c07
    return _c07.guesser_loads_faithfully('C03.L')


def _segmentation_bundle():
    from . import c05 as _c05
    return [('C03.S1', _c05.r1_splice_discipline), ('C03.S2', _c05.r2_slice_tiling), ('C03.S4', _c05.r4_multiword_parts),
            ('C03.S5', _c05.r5_totality)]


def _separators(ctx, rule):
    # a training password that contains a line separator of the ruleset readers is written to disk and read back as two broken
    # records: the ruleset no longer reproduces it (or no longer loads at all) - seed C03-g
    from . import c07
    return c07.r1_separator_inclusion(ctx, rule)


def _reader_rewrites(ctx, rule):
    # a training password is reproduced "with its original ... spaces" only if the reader hands the trainer the line as it is:
    # CR/LF removal, count-prefix removal and $HEX[] decoding are the only rewrites (seed C03-j: split(None, 1) ate leading blanks)
    from . import c19
    return c19.r3_multiplicity_and_r6_strip(ctx, rule)


def _all_items_written(ctx, rule):
    # a training password is reproduced only if every terminal the segmentation counted is written (seed C03-k: the line write
    # wrapped in contextlib.suppress(UnicodeEncodeError) - an unencodable word is left out and training still "completes")
    from . import c06
    return c06.r2_all_items_written(ctx, rule)

def _relative_frequency(ctx, rule):
    # "the probabilities of all emitted guesses sum to 1" starts with every saved list summing to 1: count / total with the
    # total taken from the same counts (seed C03-o: smoothing raises the counts after the total was computed)
    from . import c06
    return c06.r1_relative_frequency(ctx, rule)


def _shared_rule(mod, name, **kw):
    def run(ctx, rule):
        import importlib
        return getattr(importlib.import_module('sa.props.' + mod), name)(ctx, rule, **kw)
    return run


def r22_other_label_and_count(ctx, rule):
    """The last detector labels every section that is still untyped as O<n> and reports it: the label (the base structure will
    contain O<n>) and the append to the returned list (the counter Other/<n>.txt is fed from) stand under the same conditions, and
    those conditions speak only of the section's label.  (Seed C03-ga appended only `if other_string.strip()`: the blank of
    'hello world' enters the base structure A5O1A5 and is never written to Other/1.txt - the password is not reproduced; seed
    C05-ga labelled only non-blank leftovers: a blank-only section stays untyped and base_structure_creation raises.)"""
    q = 'lib_trainer/detection_rules/other_detection.py::other_detection'
    fn = ctx.fn(q)
    mod = ctx.repo.modules[q.partition('::')[0]]
    ctx.stats['functions'].add(q)
    ps = params(fn)
    labels = [st for st in walk_local(fn) if isinstance(st, ast.Assign) and len(st.targets) == 1 and isinstance(st.targets[0], ast.Subscript)
              and isinstance(st.targets[0].value, ast.Name) and st.targets[0].value.id in ps and isinstance(st.value, ast.Tuple)]
    rets = [r.value.id for r in walk_local(fn) if isinstance(r, ast.Return) and isinstance(r.value, ast.Name)]
    apps = [st for st in walk_local(fn) if isinstance(st, ast.Expr) and isinstance(st.value, ast.Call) and isinstance(st.value.func, ast.Attribute)
            and st.value.func.attr == 'append' and isinstance(st.value.func.value, ast.Name) and st.value.func.value.id in rets]
    if len(labels) != 1 or len(apps) != 1:
        ctx.unk(rule, q, 'expected one labelling store and one append to the returned list (found %d, %d)' % (len(labels), len(apps)))
        return
    lc = [(U(t), p_) for t, p_ in path_conditions(mod, labels[0]) if not isinstance(mod.parents.get(id(t)), ast.While)]
    ac = [(U(t), p_) for t, p_ in path_conditions(mod, apps[0]) if not isinstance(mod.parents.get(id(t)), ast.While)]
    loop_tests = {U(w.test) for w in walk_local(fn) if isinstance(w, ast.While)}
    lc = [c for c in lc if c[0] not in loop_tests]
    ac = [c for c in ac if c[0] not in loop_tests]
    facts = {'label_conditions': lc, 'append_conditions': ac}
    if sorted(lc) != sorted(ac):
        extra = [c for c in ac if c not in lc] + [c for c in lc if c not in ac]
        ctx.bad(rule, q, 'a section is labelled O<n> and reported under different conditions: %s' % extra[:2],
                'what is labelled must be counted and the other way round: the base structure and the terminal list are written from '
                'the two', facts, apps[0], firm=True)
        return
    alien = [c for c in lc if not ('[1]' in c[0] and 'None' in c[0]) and 'label' not in c[0]]
    if alien:
        ctx.bad(rule, q, 'an untyped section is left untyped when: %s' % alien[:2], 'other_detection is the last detector: every section '
                'that reaches it without a label gets one, whatever its text (blanks, NBSP) - an untyped section makes '
                'base_structure_creation raise', facts, labels[0], firm=True)
        return
    ctx.ok(rule, q, 'label and append stand under the same condition (the section is untyped)', facts)


def rules(tier):
    return [('C03.R1', r1_tag_chain), ('C03.R2', lambda c, r: r2_mask_producer(c, r, lower_only=False)), ('C03.R3', r3_mask_insertion),
            ('C03.R4', lambda c, r: c04.r3_mask_slices(c, r, strict_char_map=False)), ('C03.R5', c04.r2_structural_recursion), ('C03.R6', c04.r1_dispatch),
            ('C03.R7', c01.r8_uniform_scale), ('C03.R8', _renorm),
            ('C03.R9', r9_counted_value_is_segment), ('C03.R10', c01.r4_prob_pt_coupling), ('C03.R11', _adoption), ('C03.R12', _separators), ('C03.R13', c01.r11_sections_not_aliased), ('C03.R14', _reader_rewrites), ('C03.R15', _all_items_written), ('C03.R16', _relative_frequency),
            # C03-ca: the pass that feeds the parser reads the training file without --prefixcount
            ('C03.R17', _shared_rule('c19', 'r1_three_passes')),
            # C03-da: load_grammar hands skip_brute to _load_terminals in the place of skip_case
            ('C03.R18', _shared_rule('c14', 'r13_options_forwarded')),
            # detector results reach the counters they belong to
            ('C03.R19', _shared_rule('plumbing', 'unpack_order')),
            # mutation sweep: what the detectors find reaches the counters, once per occurrence
            ('C03.R20', _shared_rule('c06', 'r21_unit_tallies')),
            # C03-eb: _find_prob memoised under (base_prob, indexes) - structures with the same probability share entries
            ('C03.R21', _shared_rule('c01', 'r3b_prob_pure')),
            # C03-ga: the blank-only other section labelled but not counted
            ('C03.R22', r22_other_label_and_count)] + _loader_bundle() + _segmentation_bundle() + []


META = {
    'explanation': 'Category tag chain derived from both sides on every run and joined: detector label letter and kind -> '
                   'found-list variable -> counter attribute (PCFGPasswordParser.parse) -> folder (save_pcfg_data) -> config '
                   'section/name/directory/file list (config_file) -> loader key prefix and path (guesser grammar_io); mask '
                   'coupling at the producer (mask computed over exactly the word slice, same length) and at the consumer '
                   '(C<n> inserted right after every A<n>; complement slices; per-character map); concatenation in structure order.',
    'trusted_base': ['python ast', 'frozen table of which return position of each detector holds the labelled values'],
    'assumptions': ['letters with one-to-one case mapping (the property statement restricts the domain)'],
    'not_decided': 'that a concrete password is reproduced end to end; probabilities summing to 1 as numbers (C06)',
    'technique': 'writer/reader table extraction and relational join + index-domain slice rules',
}

META['explanation'] += ' ' + 'Further: loader bundle (layout, strip, encoding, completeness) and the segmentation bundle shared from C05 (splice discipline, slice tiling, multi-word parts, totality); counted value = labelled segment.'
META['explanation'] += ' ' + 'Round 14: the last detector labels and reports every untyped section under the same condition (blank-only sections included).'
