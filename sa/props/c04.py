"""C04 - a pre-terminal expands to exactly the product of its terminal groups (DESIGN section 4, C04)."""
import ast

from ..core import (U, walk_local, calls_in, call_name, const, NOCONST, params, stores_in, single_def, expand,
                    walk_stmts, arg_for, kwarg, path_conditions, enclosing_stmt_chain, dotted)
from ..order import Terms, outcomes, eval_cond, LT, EQ, GT, Hooks
from ..lin import lin, Lin
from .common import PG, PGF, GIO
from . import c01, c08

EMITTERS = [PG + '_recursive_guesses', PG + '_honeyword_recursive_guess']
GROUP_VALUES = "self.grammar[pt_type][index]['values']"
GROUP_VALUES_X = "self.grammar[pt[0][0]][pt[0][1]]['values']"


def is_group_values(fn, node, suffix=''):
    """`node` denotes the value list of the chosen group (optionally followed by `suffix`), with the reference temporaries
    pt_type / index or with pt[0][0] / pt[0][1] written out."""
    if node is None:
        return False
    if U(node) == GROUP_VALUES + suffix:
        # the temporaries must themselves be pt[0][0] / pt[0][1]: their FIRST binding, at the top level of the function (the mask
        # loop re-uses `index` as a counter later, after the group has been looked up) - mutation `index = pt[1][1]` kept the use text
        first = {}
        for st in fn.body:
            if isinstance(st, ast.Assign) and len(st.targets) == 1 and isinstance(st.targets[0], ast.Name) and st.targets[0].id not in first:
                first[st.targets[0].id] = U(st.value)
        return first.get('pt_type') == 'pt[0][0]' and first.get('index') == 'pt[0][1]'
    return U(expand(fn, node)) == GROUP_VALUES_X + suffix


def _cat_test(t):
    if isinstance(t, ast.Compare) and len(t.ops) == 1 and isinstance(t.ops[0], ast.Eq) and isinstance(const(t.comparators[0]), str):
        return U(t.left), const(t.comparators[0])
    return None


def dispatch(fn):
    """The if/elif/else chain on the category letter: {'M': body, 'C': body, 'else': body} or None.  A leading guard clause
    (`if cat == 'M': return ...` followed later by the rest of the chain) is the same dispatch."""
    from sa.core import _ends_with_jump
    bodies = [list(fn.body)] + [list(st.body) for st in fn.body if isinstance(st, ast.While) and const(st.test) is True]
    for body in bodies:
        r = _dispatch_in(body, _ends_with_jump)
        if r is not None:
            return r
    return None


def _dispatch_in(body, _ends_with_jump):
    for i, st in enumerate(body):
        if not (isinstance(st, ast.If) and _cat_test(st.test)):
            continue
        var = _cat_test(st.test)[0]
        out = {}
        cur = st
        rest = body[i + 1:]
        while True:
            ct = _cat_test(cur.test)
            if ct is None or ct[0] != var:
                return None
            out[ct[1]] = cur.body
            if len(cur.orelse) == 1 and isinstance(cur.orelse[0], ast.If):
                cur = cur.orelse[0]
                continue
            if not cur.orelse and _ends_with_jump(cur.body):
                # guard clause: the chain continues with the next `if` on the same variable among the following statements
                nxt = [k for k, s2 in enumerate(rest) if isinstance(s2, ast.If) and _cat_test(s2.test) and _cat_test(s2.test)[0] == var]
                if nxt and all(isinstance(s2, (ast.Assign, ast.Expr)) for s2 in rest[:nxt[0]]):
                    cur = rest[nxt[0]]
                    rest = rest[nxt[0] + 1:]
                    continue
            out['else'] = cur.orelse
            break
        return var, out, st
    return None


def first_def(fn, name):
    best = None
    for n in walk_local(fn):
        if isinstance(n, ast.Assign) and len(n.targets) == 1 and isinstance(n.targets[0], ast.Name) and n.targets[0].id == name:
            if best is None or n.lineno < best.lineno:
                best = n
    return best


def r1_dispatch(ctx, rule):
    n = 0
    for qual in EMITTERS + [PG + 'get_status']:
        fn = ctx.fn(qual)
        d = dispatch(fn)
        if d is None:
            ctx.unk(rule, qual, 'no if/elif/else dispatch on the category letter found')
            continue
        var, br, node = d
        n += 1
        ps = params(fn)
        ptp = 'pt'
        cdef = first_def(fn, var)
        try:
            cat = U(expand(fn, ast.parse(var, mode='eval').body))
        except SyntaxError:
            cat = None
        facts = {'category': cat, 'branches': sorted(k for k in br)}
        if cat is None or (cdef is None and cat == var):
            ctx.unk(rule, qual, 'the dispatch variable %s is not understood' % var, facts)
            continue
        if cat != '%s[0][0][0]' % ptp:
            ctx.bad(rule, qual, 'category = %s' % cat,
                    'the category must be the first letter of the first transition of the parse tree', facts, node)
            continue
        if set(br) != {'M', 'C', 'else'} or not br['else']:
            ctx.bad(rule, qual, 'dispatch branches %s' % sorted(br), "the expansion must distinguish Markov ('M'), "
                    "capitalisation ('C') and plain replacement (everything else)", facts, node)
            continue
        ctx.ok(rule, qual, "three-way dispatch M / C / else on pt[0][0][0]", facts)
    ctx.floor(rule, PGF, n, 3, 'dispatch chains')


def _values_loops(body):
    return [n for st in body for n in walk_local(st) if isinstance(n, ast.For)]


def r2_structural_recursion(ctx, rule):
    qual = PG + '_recursive_guesses'
    fn = ctx.fn(qual)
    d = dispatch(fn)
    if d is None:
        ctx.unk(rule, qual, 'dispatch not found')
        return
    var, br, node = d
    ok_all = True
    for key, kind in (('C', 'mask'), ('else', 'concat')):
        body = br[key]
        loops = [l for l in body if isinstance(l, ast.For)]
        facts = {'branch': key, 'loops': [U(l.iter) for l in loops]}
        tdef, idef = first_def(fn, 'pt_type'), first_def(fn, 'index')
        if not (tdef is not None and U(tdef.value) == 'pt[0][0]' and idef is not None and U(idef.value) == 'pt[0][1]') \
                and not (len(loops) == 1 and is_group_values(fn, loops[0].iter)):
            ctx.unk(rule, qual, 'pt_type / index are not pt[0][0] / pt[0][1]', facts)
            return
        if len(loops) != 1 or not is_group_values(fn, loops[0].iter):
            ok_all = False
            ctx.bad(rule, qual, '%s branch iterates %s' % (key, facts['loops']),
                    'every value of the chosen group must be used exactly once: the branch must loop once over the whole '
                    "group grammar[type][index]['values']", facts, loops[0] if loops else node)
            continue
        lp = loops[0]
        if any(isinstance(s, (ast.Break, ast.Continue)) for s in walk_stmts(lp.body)):
            ok_all = False
            ctx.bad(rule, qual, 'break/continue in the %s value loop' % key, 'values are skipped', facts, lp)
        # base case and recursion
        ifs = [s for s in lp.body if isinstance(s, ast.If) and U(s.test) in ('len(pt) == 1', '1 == len(pt)')]
        if len(ifs) != 1:
            ok_all = False
            ctx.bad(rule, qual, 'no `len(pt) == 1` base case in the %s branch' % key, 'the guess is complete exactly when '
                    'the last transition has been applied', facts, lp)
            continue
        base = ifs[0]
        prints = [c for s in base.body for c in calls_in(s) if call_name(c) == 'self.print_guess']
        recs = [c for s in base.orelse for c in calls_in(s) if call_name(c) == 'self._recursive_guesses']
        if len(prints) != 1 or len(recs) != 1:
            ok_all = False
            ctx.bad(rule, qual, '%s branch: %d writes in the base case, %d recursive calls otherwise' % (key, len(prints), len(recs)),
                    'exactly one write for a complete guess, exactly one recursion on the rest otherwise', facts, base)
            continue
        # what is written / passed on must be the guess built in this iteration
        built = None
        for s in lp.body:
            if isinstance(s, ast.Assign) and len(s.targets) == 1 and isinstance(s.targets[0], ast.Name):
                if kind == 'concat' and isinstance(s.value, ast.BinOp) and isinstance(s.value.op, ast.Add) \
                        and U(s.value.left) == 'cur_guess' and U(s.value.right) == U(lp.target):
                    built = s.targets[0].id
                if kind == 'mask' and U(s.value).startswith("''.join("):
                    built = s.targets[0].id
                    facts['mask_join'] = U(s.value)
        rec = recs[0]
        if built is None and kind == 'mask' and prints[0].args and rec.args and U(prints[0].args[0]) == U(rec.args[0]) \
                and isinstance(rec.args[0], ast.Name) and any(isinstance(s, ast.Assign) and len(s.targets) == 1
                                                               and U(s.targets[0]) == U(rec.args[0]) for s in lp.body):
            # the re-cased guess is built in some other spelling: WHAT it is made of is C04.R3's question (mask_application);
            # here it is enough that the same freshly built value is written in the base case and passed on otherwise
            built = U(rec.args[0])
            facts['mask_join'] = 'other spelling'
        rfacts = {'written': U(prints[0].args[0]) if prints[0].args else None, 'recursion': U(rec)}
        facts.update(rfacts)
        if built is None or U(prints[0].args[0]) != built or U(rec.args[0]) != built:
            ok_all = False
            ctx.bad(rule, qual, '%s branch builds %s, writes %s, recurses with %s' % (key, built, rfacts['written'], U(rec.args[0])),
                    'the value written / passed on must be the guess extended by this value (plain: cur_guess + value, in '
                    'structure order)', facts, lp)
            continue
        if len(rec.args) < 2 or U(rec.args[1]) != 'pt[1:]':
            ok_all = False
            ctx.bad(rule, qual, 'recursion on ' + (U(rec.args[1]) if len(rec.args) > 1 else '?'),
                    'the recursion must continue with the rest of the parse tree pt[1:]', facts, rec)
            continue
        ctx.ok(rule, qual, '%s branch: one pass over the whole group; base case len(pt)==1 writes, else recurse on pt[1:]' % key, facts)
    return ok_all


def _mask_expression_form(fn, branch_body, multi):
    """The capitalisation written as ONE expression (after helper inlining):
           <prefix> + ''.join(<T>[i] if m == 'L' else <T>[i].upper() for i, m in enumerate(<mask>))      (or zip(<mask>, <T>))
       with <prefix> = cur_guess[:-n], <T> = cur_guess[-n:], n = len of a mask of the chosen group.
       Returns ('ok' | 'bad' | None, text): None when the branch is not of this form at all."""
    assigns = {}
    loops = [st for st in branch_body if isinstance(st, ast.For)]
    scope = list(branch_body) + ([x for x in loops[0].body] if (multi and len(loops) == 1) else [])
    for st in scope:
        if isinstance(st, ast.Assign) and len(st.targets) == 1 and isinstance(st.targets[0], ast.Name):
            if st.targets[0].id in assigns:
                assigns[st.targets[0].id] = None
            else:
                assigns[st.targets[0].id] = st.value
    if multi:
        if len(loops) != 1 or not is_group_values(fn, assigns.get(U(loops[0].iter), loops[0].iter) if isinstance(loops[0].iter, ast.Name) else loops[0].iter) \
                or not isinstance(loops[0].target, ast.Name):
            return None, None
        mask_name = loops[0].target.id
    else:
        mask_name = 'mask'

    def res(e, depth=0):
        while isinstance(e, ast.Name) and assigns.get(e.id) is not None and depth < 6:
            e = assigns[e.id]
            depth += 1
        return e
    target = None
    for st in scope:
        if isinstance(st, ast.Assign) and len(st.targets) == 1 and isinstance(st.targets[0], ast.Name) and isinstance(st.value, ast.BinOp) \
                and isinstance(st.value.op, ast.Add) and isinstance(res(st.value.right), ast.Call) and U(res(st.value.right).func) == "''.join":
            target = st
    if target is None:
        return None, None
    txt = U(target.value)[:140]
    prefix = res(target.value.left)
    joined = res(target.value.right)
    if len(joined.args) != 1 or not isinstance(joined.args[0], (ast.GeneratorExp, ast.ListComp)) or len(joined.args[0].generators) != 1 \
            or joined.args[0].generators[0].ifs:
        return None, None
    gen = joined.args[0].generators[0]
    elt = joined.args[0].elt

    def nlen(e):
        """n: len(<a mask of the chosen group>) or len(<the loop's mask>)"""
        e = res(e)
        if isinstance(e, ast.Call) and call_name(e) == 'len' and len(e.args) == 1:
            a = res(e.args[0])
            return U(a) == mask_name or is_group_values(fn, a, '[0]') or (isinstance(e.args[0], ast.Name) and e.args[0].id == mask_name)
        return False

    def is_slice(e, lower):
        e = res(e)
        if not (isinstance(e, ast.Subscript) and isinstance(e.slice, ast.Slice) and U(e.value) == 'cur_guess' and e.slice.step is None):
            return None
        b, other = (e.slice.lower, e.slice.upper) if lower else (e.slice.upper, e.slice.lower)
        if other is not None or not (isinstance(b, ast.UnaryOp) and isinstance(b.op, ast.USub)):
            return False
        return bool(nlen(b.operand))
    p_ok = is_slice(prefix, lower=False)
    if p_ok is None:
        return None, None
    # the generator: enumerate(mask) with T[i], or zip(mask, T) / zip(T, mask) with the character itself
    it = gen.iter
    tail_expr = ch = pos = m = None
    if isinstance(it, ast.Call) and call_name(it) == 'enumerate' and len(it.args) == 1 and U(res(it.args[0])) in (mask_name,) \
            and isinstance(gen.target, ast.Tuple) and len(gen.target.elts) == 2 and all(isinstance(x, ast.Name) for x in gen.target.elts):
        pos, m = gen.target.elts[0].id, gen.target.elts[1].id
    elif isinstance(it, ast.Call) and call_name(it) == 'zip' and len(it.args) == 2 and isinstance(gen.target, ast.Tuple) \
            and len(gen.target.elts) == 2 and all(isinstance(x, ast.Name) for x in gen.target.elts):
        names = [x.id for x in gen.target.elts]
        if U(res(it.args[0])) == mask_name:
            m, ch, tail_expr = names[0], names[1], it.args[1]
        elif U(res(it.args[1])) == mask_name:
            m, ch, tail_expr = names[1], names[0], it.args[0]
        else:
            return None, None
    else:
        return None, None
    if not isinstance(elt, ast.IfExp):
        return None, None
    t = U(elt.test)
    if t == "%s == 'L'" % m:
        keep, up = elt.body, elt.orelse
    elif t in ("%s != 'L'" % m, "%s == 'U'" % m):
        keep, up = elt.orelse, elt.body
    else:
        return 'bad', 'mask character test %s in %s' % (t, txt)

    def char_of(e):
        """-> the tail expression this character is taken from (enumerate form) or True (zip form), None if it is something else"""
        if ch is not None:
            return True if (isinstance(e, ast.Name) and e.id == ch) else None
        if isinstance(e, ast.Subscript) and not isinstance(e.slice, ast.Slice) and U(e.slice) == pos:
            return e.value
        return None
    k_src = char_of(keep)
    if not (isinstance(up, ast.Call) and isinstance(up.func, ast.Attribute) and up.func.attr == 'upper' and not up.args):
        return 'bad', 'the other mask letters give %s in %s' % (U(up)[:40], txt)
    u_src = char_of(up.func.value)
    if k_src is None or u_src is None:
        return 'bad', 'mask characters mapped to %s / %s in %s' % (U(keep)[:40], U(up)[:40], txt)
    tails = [tail_expr] if ch is not None else [k_src, u_src]
    t_ok = all(is_slice(x, lower=True) for x in tails)
    if any(is_slice(x, lower=True) is None for x in tails):
        return None, None
    if not p_ok or not t_ok:
        return 'bad', 'slices in ' + txt
    return 'ok', txt


def mask_application(ctx, rule, qual, branch_body, multi, strict_char_map=True):
    """C branch: complement slices with n = len(group value), per-character map L -> same, U -> .upper()."""
    fn = ctx.repo.fn(qual)
    facts = {}
    verdict, txt = _mask_expression_form(fn, branch_body, multi)
    if verdict == 'ok':
        ctx.ok(rule, qual, 'mask applied in one expression: cur_guess[:-n] + per-character map of cur_guess[-n:] (L keeps, else upper())', {'expression': txt})
        return True
    if verdict == 'bad':
        ctx.bad(rule, qual, txt, "the mask applies to the last len(mask) characters: prefix cur_guess[:-n] kept, each character of cur_guess[-n:] "
                "kept for 'L' and upper-cased on its own otherwise", {'expression': txt}, fn)
        return False
    assigns = {}
    for s in branch_body:
        if isinstance(s, ast.Assign) and len(s.targets) == 1 and isinstance(s.targets[0], ast.Name):
            assigns[s.targets[0].id] = s.value
    ok = True
    ml = assigns.get('mask_len')
    facts['mask_len'] = U(ml) if ml is not None else None
    if ml is None:
        ctx.unk(rule, qual, 'the capitalisation branch does not bind the mask length in a form this rule knows')
        return False
    if not (isinstance(ml, ast.Call) and call_name(ml) == 'len' and len(ml.args) == 1 and is_group_values(fn, ml.args[0], '[0]')):
        ok = False
        ctx.bad(rule, qual, 'mask_len = %s' % facts['mask_len'], 'the mask length must be taken from a mask of the chosen '
                'group (all masks of a length-indexed file have the same length)', facts, fn)
    sw, ew = assigns.get('start_word'), assigns.get('end_word')
    facts['start_word'] = U(sw) if sw is not None else None
    facts['end_word'] = U(ew) if ew is not None else None

    def slice_of(node):
        if isinstance(node, ast.List) and len(node.elts) == 1:
            node = node.elts[0]
        if isinstance(node, ast.Subscript) and isinstance(node.slice, ast.Slice) and U(node.value) == 'cur_guess':
            return lin(node.slice.lower) if node.slice.lower is not None else None, \
                lin(node.slice.upper) if node.slice.upper is not None else None
        return 'x', 'x'
    s_lo, s_hi = slice_of(sw) if sw is not None else ('x', 'x')
    e_lo, e_hi = slice_of(ew) if ew is not None else ('x', 'x')
    want = Lin({'mask_len': -1}, 0)
    if sw is None or ew is None:
        ctx.unk(rule, qual, 'the kept prefix / re-cased tail of the guess are not bound in a form this rule knows')
        return False
    if not (s_lo is None and s_hi == want and e_lo == want and e_hi is None):
        ok = False
        ctx.bad(rule, qual, 'slices start=%s end=%s' % (facts['start_word'], facts['end_word']),
                'the mask applies to the last len(mask) characters: the kept prefix and the re-cased tail must be the '
                'complementary slices cur_guess[:-n] and cur_guess[-n:]', facts, fn)
    # the per-character map.  Two spellings of "position i of the mask and of the tail":
    #   counter form    k = 0 ... for c in mask: <if> ... k += 1            (k: any name)
    #   enumerate form  for k, c in enumerate(mask): <if>
    if strict_char_map:
        # whatever the loop looks like: the tail upper-cased as a whole and then addressed by position
        whole = {k_ for k_, v in assigns.items() if isinstance(v, ast.Call) and isinstance(v.func, ast.Attribute) and v.func.attr == 'upper'
                 and not v.args and (U(v.func.value) == 'end_word' or (ew is not None and U(v.func.value) == U(ew)))}
        for n in (x for st in branch_body for x in walk_local(st)):
            hit = None
            if isinstance(n, ast.Subscript) and not isinstance(n.slice, ast.Slice):
                if (isinstance(n.value, ast.Name) and n.value.id in whole) or U(n.value) == 'end_word.upper()':
                    hit = n
            if isinstance(n, ast.Call) and call_name(n) in ('zip', 'enumerate', 'iter') and \
                    any((isinstance(a, ast.Name) and a.id in whole) or U(a) == 'end_word.upper()' for a in n.args):
                hit = n
            if hit is not None:
                ctx.bad(rule, qual, 'whole tail upper-cased, then addressed by position: %s' % U(hit)[:60],
                        "each mask character must map the character at the same index of the tail: 'L' keeps it, anything else "
                        "upper-cases *that character*; str.upper() of the whole tail is not position-preserving (sharp s -> SS), so "
                        "every 'U' behind such a letter picks the wrong character and the spelling the scorer prices is never emitted",
                        facts, hit)
                return False
    maps = []
    for n in (x for st in branch_body for x in walk_local(st)):
        if isinstance(n, ast.For):
            if isinstance(n.target, ast.Name) and U(n.iter) == 'mask':
                maps.append((n, n.target.id, None))
            elif isinstance(n.target, ast.Tuple) and len(n.target.elts) == 2 and all(isinstance(e, ast.Name) for e in n.target.elts) \
                    and U(n.iter) == 'enumerate(mask)':
                maps.append((n, n.target.elts[1].id, n.target.elts[0].id))
            elif isinstance(n.target, ast.Tuple) and len(n.target.elts) == 2 and all(isinstance(e, ast.Name) for e in n.target.elts) \
                    and U(n.iter) in ('zip(mask, end_word)', 'zip(end_word, mask)'):
                # side-by-side form: the tail character itself is bound, no position needed
                mi = 0 if U(n.iter) == 'zip(mask, end_word)' else 1
                maps.append((n, n.target.elts[mi].id, ('zip', n.target.elts[1 - mi].id)))
    if len(maps) != 1:
        if not maps:
            ctx.unk(rule, qual, 'no pass over the mask characters recognised in the capitalisation branch')
        else:
            ctx.bad(rule, qual, '%d character loops over the mask' % len(maps), 'one pass over the mask characters', facts, fn)
        return False
    ml_, ch, k = maps[0]
    body = list(ml_.body)
    loop_assign = {}
    for n in (x for st in branch_body for x in walk_local(st)):
        if isinstance(n, ast.Assign) and len(n.targets) == 1 and isinstance(n.targets[0], ast.Name):
            loop_assign.setdefault(n.targets[0].id, []).append(U(n.value))
    counter_ok = True
    if isinstance(k, tuple):
        pass
    elif k is None:
        # counter form: last statement k += 1, k reset to 0 for every mask
        if len(body) == 2 and isinstance(body[1], ast.AugAssign) and isinstance(body[1].target, ast.Name) \
                and isinstance(body[1].op, ast.Add) and const(body[1].value) == 1:
            k = body[1].target.id
            body = body[:1]
            counter_ok = '0' in loop_assign.get(k, [])
        else:
            k = None
    shape_ok = False
    if k is not None and len(body) == 1 and isinstance(body[0], ast.If) and len(body[0].body) == 1 and len(body[0].orelse) == 1:
        t = body[0].test
        a1 = U(body[0].body[0])
        a2 = U(body[0].orelse[0])
        tail_ch = k[1] if isinstance(k, tuple) else 'end_word[%s]' % k
        keep, up = 'new_end.append(%s)' % tail_ch, 'new_end.append(%s.upper())' % tail_ch
        if U(t) == "%s == 'L'" % ch and a1 == keep and a2 == up:
            shape_ok = True
        if U(t) in ("%s == 'U'" % ch, "%s != 'L'" % ch) and a2 == keep and a1 == up:
            shape_ok = True
        if not strict_char_map and not shape_ok:
            # for one-to-one case mappings upper-casing the whole tail first is equivalent
            ups = [k_ for k_, v in assigns.items() if U(v) == 'end_word.upper()']
            for u_ in ups:
                if not isinstance(k, tuple) and U(t) == "%s == 'L'" % ch and a1 == keep and a2 == 'new_end.append(%s[%s])' % (u_, k):
                    shape_ok = True
        facts['char_map'] = {'test': U(t), 'then': a1, 'else': a2, 'position': k}
    else:
        facts['char_map'] = [U(s)[:60] for s in ml_.body]
    if not shape_ok:
        ok = False
        ctx.bad(rule, qual, 'mask character map %s' % facts['char_map'],
                "each mask character must map the character at the same index of the tail: 'L' keeps it, anything else "
                "upper-cases *that character* (case-mapping the whole tail first and indexing the result shifts positions "
                "for characters whose upper case is longer)", facts, ml_)
    # the buffer the re-cased tail is collected in is a NEW list for every mask (multi-mask branch): created inside the mask loop
    if multi:
        mloops = [l for l in branch_body if isinstance(l, ast.For)]
        if len(mloops) == 1:
            inside = {id(x) for b_ in mloops[0].body for x in ast.walk(b_)}
            for n_ in (x for st in branch_body for x in walk_local(st)):
                if isinstance(n_, ast.Assign) and len(n_.targets) == 1 and U(n_.targets[0]) == 'new_end' and id(n_) not in inside:
                    ctx.bad(rule, qual, 'the tail buffer is created once for all masks: ' + U(n_), 'every mask starts from an empty tail: created in '
                            'front of the mask loop, the buffer still holds the previous mask\'s letters - the first mask of a group is right, '
                            'every later one is glued behind it', facts, n_, firm=True)
                    return False
                if isinstance(n_, ast.Assign) and len(n_.targets) == 1 and U(n_.targets[0]) == 'new_end' and not (isinstance(n_.value, ast.List) and not n_.value.elts):
                    ctx.bad(rule, qual, 'the tail buffer starts as ' + U(n_.value)[:40], 'every mask starts from an EMPTY new list (a list shared with '
                            'the kept prefix grows with every mask)', facts, n_, firm=True)
                    return False
    # tail rebuilt per mask, join(start + new_end)
    facts['new_guess'] = loop_assign.get('new_guess')
    if loop_assign.get('new_guess') != ["''.join(start_word + new_end)"] or loop_assign.get('new_end') != ['[]'] or not counter_ok:
        ok = False
        ctx.bad(rule, qual, 'recombination %s / new_end %s / position counter reset: %s' % (loop_assign.get('new_guess'), loop_assign.get('new_end'),
                                                                                             counter_ok),
                "the re-cased tail must be rebuilt from scratch for every mask and joined after the kept prefix", facts, fn)
    if multi:
        loops = [l for l in branch_body if isinstance(l, ast.For)]
        if len(loops) == 1 and is_group_values(fn, loops[0].iter) and U(loops[0].target) == 'mask':
            pass
        else:
            ok = False
            ctx.bad(rule, qual, 'mask loop over ' + str([U(l.iter) for l in loops]), 'every mask of the group once', facts, fn)
    if ok:
        ctx.ok(rule, qual, 'mask applied to cur_guess[-n:], prefix cur_guess[:-n], n = len(mask); L keeps, else upper() per character', facts)
    return ok


def r3_mask_slices(ctx, rule, strict_char_map=True):
    n = 0
    for qual, multi in ((PG + '_recursive_guesses', True), (PG + '_honeyword_recursive_guess', False)):
        fn = ctx.fn(qual)
        d = dispatch(fn)
        if d is None:
            ctx.unk(rule, qual, 'dispatch not found')
            continue
        n += 1
        mask_application(ctx, rule, qual, d[1]['C'], multi, strict_char_map)
    ctx.floor(rule, PGF, n, 2, 'mask branches')


def r4_count_write_pairing(ctx, rule):
    nsites = 0
    for qual in EMITTERS + [PG + 'omen_generate_guesses']:
        fn = ctx.fn(qual)
        mod = ctx.repo.modules[PGF]
        incs = []
        prints = []
        adds = []
        joined_adds = set()
        for st in walk_stmts(fn.body):
            if isinstance(st, ast.AugAssign) and U(st.target) == 'num_guesses' and isinstance(st.op, ast.Add):
                if const(st.value) == 1:
                    incs.append(st)
                else:
                    adds.append(st)
            if isinstance(st, ast.Expr) and isinstance(st.value, ast.Call) and call_name(st.value) == 'self.print_guess':
                prints.append(st)
        ok = True
        for p in prints:
            nsites += 1
            par = mod.parents.get(id(p))
            block = None
            for field in ('body', 'orelse'):
                lst = getattr(par, field, None)
                if isinstance(lst, list) and any(s is p for s in lst):
                    block = lst
            same = [i for i in incs if block is not None and any(s is i for s in block)]
            if not same and isinstance(par, ast.If) and block is not None:
                # join-point counting: the branch records `v = 1`, the count is advanced by v after the if/else
                gp = mod.parents.get(id(par))
                for field in ('body', 'orelse'):
                    lst = getattr(gp, field, None)
                    if isinstance(lst, list) and any(s is par for s in lst):
                        k = [j for j, s in enumerate(lst) if s is par][0]
                        for a in adds:
                            if any(s is a for s in lst[k + 1:]) and isinstance(a.value, ast.Name):
                                v = a.value.id
                                sets = [s for s in block if isinstance(s, ast.Assign) and len(s.targets) == 1 and U(s.targets[0]) == v]
                                if len(sets) == 1 and const(sets[0].value) == 1:
                                    same = [a]
                                    joined_adds.add(id(a))
            # ... and nothing can leave the function between the two (seed C04-ga moved the increment behind the limit check: the guess
            # that uses up the limit is written, the early return skips its count - create_guesses reports one less than it wrote)
            if len(same) == 1 and block is not None and any(s is same[0] for s in block) and any(s is p for s in block):
                i0, i1 = sorted((next(k for k, s in enumerate(block) if s is p), next(k for k, s in enumerate(block) if s is same[0])))
                for mid in block[i0 + 1:i1]:
                    for x in ast.walk(mid):
                        if isinstance(x, (ast.Return, ast.Raise, ast.Break, ast.Continue)):
                            ok = False
                            ctx.bad(rule, qual, '%s between %s and its `num_guesses += 1`' % (type(x).__name__.lower(), U(p)[:40]),
                                    'a guess that is written is counted on every path, and the other way round: a jump between the write and the '
                                    'count makes the reported number differ from the lines written exactly when the jump is taken', None, x, firm=True)
            if len(same) != 1:
                ok = False
                ctx.bad(rule, qual, '%d `num_guesses += 1` next to %s' % (len(same), U(p)),
                        'the reported count must equal the number of lines written: exactly one increment per write, in '
                        'the same block', None, p)
        paired = set()
        for p in prints:
            par = mod.parents.get(id(p))
            for field in ('body', 'orelse'):
                lst = getattr(par, field, None)
                if isinstance(lst, list) and any(s is p for s in lst):
                    for i in incs:
                        if any(s is i for s in lst):
                            paired.add(id(i))
        for i in incs:
            if id(i) not in paired:
                ok = False
                ctx.bad(rule, qual, 'increment without a write: ' + U(i), 'a guess is counted that is not written', None, i)
        # recursive results are added (in the block of the call)
        for st in walk_stmts(fn.body):
            if isinstance(st, ast.Assign) and isinstance(st.value, ast.Call) and call_name(st.value) in ('self._recursive_guesses', 'self._honeyword_recursive_guess') \
                    and isinstance(st.targets[0], ast.Name):
                nm = st.targets[0].id
                par = mod.parents.get(id(st))
                block = []
                for field in ('body', 'orelse'):
                    lst = getattr(par, field, None)
                    if isinstance(lst, list) and any(x is st for x in lst):
                        block = lst
                joined = False
                if isinstance(par, ast.If):
                    gp = mod.parents.get(id(par))
                    for field in ('body', 'orelse'):
                        lst = getattr(gp, field, None)
                        if isinstance(lst, list) and any(x is par for x in lst):
                            k = [j for j, x in enumerate(lst) if x is par][0]
                            joined = any(U(a.value) == nm and any(x is a for x in lst[k + 1:]) for a in adds)
                if not joined and not any(U(a.value) == nm and any(x is a for x in block) for a in adds):
                    ok = False
                    ctx.bad(rule, qual, 'count returned by %s is not added to num_guesses' % call_name(st.value),
                            'guesses written by the recursion are not reported', None, st)
        # the count starts at 0
        for st_ in walk_stmts(fn.body):
            if isinstance(st_, ast.Assign) and len(st_.targets) == 1 and U(st_.targets[0]) == 'num_guesses' and isinstance(const(st_.value), int) \
                    and not isinstance(const(st_.value), bool) and const(st_.value) != 0:
                ok = False
                ctx.bad(rule, qual, 'num_guesses starts at %s' % U(st_.value), 'the emitter reports the number of guesses it wrote: started at 1, every call '
                        '(and every level of the recursion) reports one guess too many and --limit N ends early', None, st_, firm=True)
        rets = [s for s in walk_stmts(fn.body) if isinstance(s, ast.Return)]
        for r in rets:
            v = U(r.value) if r.value is not None else 'None'
            if v not in ('num_guesses', '0') and not v.startswith('self.omen_generate_guesses('):
                ok = False
                ctx.bad(rule, qual, 'returns ' + v, 'the emitter must return the number of guesses it wrote', None, r)
        if ok and prints:
            ctx.ok(rule, qual, '%d writes, each paired with exactly one increment; recursive counts added; returns the count' % len(prints))
    ctx.floor(rule, PGF, nsites, 5, 'print_guess call sites')
    # the output point itself: no handler swallows a failed write
    q = PG + 'print_guess'
    fn = ctx.fn(q)
    found = False
    for t in (n for n in walk_local(fn) if isinstance(n, ast.Try)):
        if any(call_name(c) == 'print' for s in t.body for c in calls_in(s)):
            found = True
            for h in t.handlers:
                ends = h.body[-1] if h.body else None
                if not isinstance(ends, ast.Raise):
                    ctx.bad(rule, q, 'except %s: %s' % (U(h.type) if h.type else '', U(h.body)[:40]),
                            'a write that fails with this exception is silently dropped but the caller still counts the '
                            'guess (with an ASCII stdout --limit N writes fewer than N lines)', None, h)
                else:
                    ctx.ok(rule, q, 'handler for %s re-raises' % (U(h.type) if h.type else 'everything'))
    if not found:
        writes = [c for c in calls_in(fn) if call_name(c) == 'print']
        if writes:
            ctx.ok(rule, q, 'write is not wrapped in a swallowing handler')
        else:
            ctx.unk(rule, q, 'no write found in the output point')


def r12_output_point_total(ctx, rule):
    """print_guess writes whatever it is given: every path through it (debug mode apart) reaches the write.

    Callers count a guess (num_guesses += 1, limit -= count) next to the call, so a guess the output point decides not to
    write - too long, not printable, a duplicate - is counted but never produced: --limit N yields fewer than N lines and
    the derivation can never be drawn (seed C16-f)."""
    from ..cfg import CFG
    q = PG + 'print_guess'
    fn = ctx.fn(q)
    mod = ctx.repo.modules[PGF]
    cfg = CFG(fn)
    writes = []
    for st in walk_stmts(fn.body):
        if isinstance(st, ast.Expr) and isinstance(st.value, ast.Call) and call_name(st.value) == 'print':
            f = kwarg(st.value, 'file')
            if f is None or U(f) in ('sys.stdout', 'sys.__stdout__'):
                writes.append(st)
    if len(writes) != 1:
        ctx.unk(rule, q, '%d stdout writes in the output point (expected 1)' % len(writes))
        return
    w = writes[0]
    wn = cfg.node_of(w)
    dbg = [nid for nid, n in cfg.nodes.items() if n.kind == 'test' and isinstance(n.stmt, ast.If)
           and U(n.stmt.test) in ('not self.debug', 'self.debug')]
    avoid = set()
    for nid in dbg:
        avoid.add((nid, 'F' if U(cfg.nodes[nid].stmt.test) == 'not self.debug' else 'T'))
    ctx.stats['paths'] += 1
    arg_ok = w.value.args and U(w.value.args[0]) == params(fn)[1] and len(w.value.args) == 1
    if not arg_ok:
        ctx.bad(rule, q, 'writes ' + U(w.value)[:60], 'the output point writes exactly the guess it was given, one per line', None, w)
        return
    rebound = stores_in(fn).get(params(fn)[1], [])
    if rebound:
        ctx.bad(rule, q, 'the guess is re-bound before it is written: ' + U(rebound[0][0])[:60],
                'the output point writes exactly the guess it was given: a guess that ends in a blank (an Other value such as "! ", an '
                'OMEN string over an alphabet with a space) is a member of the product, its trimmed form is not, and the file output '
                'path still writes the untrimmed one', None, rebound[0][0])
        return
    if not cfg.every_path_passes(cfg.entry, cfg.exit, {wn}, avoid_edges=avoid):
        wp = cfg.witness_path(cfg.entry, cfg.exit, avoid=[wn])
        ctx.bad(rule, q, 'a path through print_guess skips the write',
                'the callers count every guess they hand to print_guess; a guess that print_guess drops is counted but never '
                'written, so --limit N produces fewer than N lines and that guess can never appear in the output',
                {'witness': cfg.describe(wp) if wp else None}, fn)
        return
    ctx.ok(rule, q, 'every non-debug path through print_guess executes print(guess)')


def r5_grouping_kernel(ctx, rule):
    qual = GIO + '_load_from_file'
    fn = ctx.fn(qual)
    sec = params(fn)[0]
    # the if that decides between joining the last group and opening a new one
    cand = None
    for n in walk_local(fn):
        if isinstance(n, ast.If):
            joins = [c for s in n.body for c in calls_in(s) if isinstance(c.func, ast.Attribute) and c.func.attr == 'append'
                     and U(c.func.value) == "%s[-1]['values']" % sec]
            news = [c for s in n.orelse for c in calls_in(s) if isinstance(c.func, ast.Attribute) and c.func.attr == 'append'
                    and U(c.func.value) == sec]
            if joins and news:
                cand = (n, joins[0], news[0], False)
            joins2 = [c for s in n.orelse for c in calls_in(s) if isinstance(c.func, ast.Attribute) and c.func.attr == 'append'
                      and U(c.func.value) == "%s[-1]['values']" % sec]
            news2 = [c for s in n.body for c in calls_in(s) if isinstance(c.func, ast.Attribute) and c.func.attr == 'append'
                     and U(c.func.value) == sec]
            if joins2 and news2:
                cand = (n, joins2[0], news2[0], True)
    if cand is None:
        ctx.unk(rule, qual, 'no join-last-group / open-new-group decision found')
        return
    node, join, new, flipped = cand
    # tracked terms: the probability parsed from this line, the probability of the current group
    names = [x.id for x in ast.walk(node.test) if isinstance(x, ast.Name)]
    stores = stores_in(fn)
    cur = prev = None
    for nm in names:
        defs = stores.get(nm, [])
        if any(v is not None and isinstance(v, ast.Call) and call_name(v) == 'float' for s, v in defs):
            cur = nm
        elif any(v is not None and const(v) is not NOCONST for s, v in defs):
            prev = nm
    facts = {'test': U(node.test), 'line_prob': cur, 'group_prob': prev}
    if not cur or not prev:
        ctx.unk(rule, qual, 'cannot identify the compared probabilities in ' + U(node.test), facts)
        return
    terms = Terms({cur: 'P', prev: 'G'})
    inexact = c01._inexact_compare([ast.Expr(value=node.test)], terms)
    if inexact or not isinstance(node.test, (ast.Compare, ast.BoolOp, ast.UnaryOp)):
        ctx.bad(rule, qual, 'inexact grouping test: ' + U(node.test)[:80],
                'values share a group only if their probabilities are exactly equal; a tolerance merges values with '
                'different probabilities, so guesses of one pre-terminal no longer have the probability reported for it',
                facts, node)
        return

    class H(Hooks):
        def event(self, st):
            for c in calls_in(st):
                if c is join:
                    return 'join'
                if c is new:
                    return 'new'
            if isinstance(st, ast.Assign) and U(st.targets[0]) == prev and U(st.value) == cur:
                return 'advance'
            return None

        def kills(self, st, terms):
            return False
    res = {}
    for rel in (LT, EQ, GT):
        outs = outcomes([node], {('P', 'G'): rel}, terms, H())
        res[rel] = sorted({'+'.join(t) for k, d, t in outs})
        ctx.stats['kernel_states'] += 1
    facts['table'] = res
    good = res[EQ] == ['join'] and set(res[LT]) <= {'new+advance', 'advance+new'} and res[LT]
    if good:
        ctx.ok(rule, qual, 'equal probability joins the last group; a lower one opens a new group and advances the group '
               'probability (GT infeasible for sorted files)', facts)
    else:
        ctx.bad(rule, qual, 'grouping table %s' % res, 'a group must be a maximal run of exactly equal probabilities; the '
                'group probability must advance with every new group', facts, node)


def r7_group_cardinality(ctx, rule):
    n = 0
    for qual in EMITTERS:
        fn = ctx.fn(qual)
        mod = ctx.repo.modules[PGF]
        for node in walk_local(fn):
            if isinstance(node, ast.Subscript) and is_group_values(fn, node, '[0]'):
                n += 1
                par = mod.parents.get(id(node))
                if isinstance(par, ast.Call) and call_name(par) == 'len':
                    ctx.ok(rule, qual, 'len(values[0]): length is invariant within a length-indexed group')
                else:
                    ctx.bad(rule, qual, 'uses %s of a group as if the group had one value' % U(par)[:60],
                            'the loader groups *all* lines with equal probability; using only the first value of a group '
                            'drops the other members (Markov levels with equal probability - in practice all levels with '
                            'probability 0.0 - are grouped and only the first level of the group is generated)', None, node)
    ctx.floor(rule, PGF, n, 2, 'values[0] uses in the emitters')


def _exact_float(ctx, rule):
    from . import c01 as _c01
    return _c01.r9_exact_float_discipline(ctx, rule)


def _mask_insertion(ctx, rule):
    from . import c03
    return c03.r3_mask_insertion(ctx, rule)


def _omen_last(ctx, rule):
    from . import c10
    return c10.r4_exact_last_transition(ctx, rule)


def _omen_cursor(ctx, rule):
    from . import c10
    return c10.r5_sibling_cursor_advance(ctx, rule)


def _omen_domain(ctx, rule):
    from . import c10
    return c10.r9_level_cursor_domain(ctx, rule)


def _omen_prune(ctx, rule):
    from . import c10
    return c10.r7_prune_discipline(ctx, rule)


def _loader_bundle():
    from . import c07 as _c07
    return _c07.guesser_loads_faithfully('C04.L')


def _omen_cache_hit(ctx, rule):
    # a Markov pre-terminal expands to ALL strings of its level: a cache miss must never be answered as "no completion"
    # (seed C04-i: dict.get() in Optimizer.lookup returned (True, None) for an n-gram cached for another level)
    from . import c10
    return c10.r12_hit_implies_stored(ctx, rule)


def _omen_lengths(ctx, rule):
    # a Markov pre-terminal expands to ALL strings of its level: the length loader keeps every length >= the n-gram size
    # (seed C04-h: `<=` instead of `<` in the converted guard dropped the shortest length)
    from . import c11
    return c11.r5_length_domain(ctx, rule)


def _omen_memo_key(ctx, rule):
    # a Markov pre-terminal expands to exactly the strings of its level only if a cached completion answers the question it was
    # stored for (seed C04-k: the update keyed by the loop level instead of the level asked for)
    from . import c10
    return c10.r2_memo_key(ctx, rule)

def _popped_level(ctx, rule):
    # seed C04-o (= C11-k): the refill budget built from the level of an element the scan had already lowered
    from . import c10
    return c10.r18_popped_level_read_once(ctx, rule)

def _shared_rule(mod, name, **kw):
    def run(ctx, rule):
        import importlib
        return getattr(importlib.import_module('sa.props.' + mod), name)(ctx, rule, **kw)
    return run


def rules(tier):
    return [('C04.R1', r1_dispatch), ('C04.R2', r2_structural_recursion), ('C04.R3', r3_mask_slices),
            ('C04.R4', r4_count_write_pairing), ('C04.R5', r5_grouping_kernel), ('C04.R7', r7_group_cardinality),
            ('C04.R8', _exact_float),
            ('C04.R9', _mask_insertion), ('C04.R10', _omen_last), ('C04.R11', _omen_cursor), ('C04.R12', r12_output_point_total),
            ('C04.R13', _omen_domain), ('C04.R14', _omen_prune), ('C04.R15', _omen_lengths), ('C04.R16', _omen_cache_hit), ('C04.R17', _omen_memo_key), ('C04.R18', _popped_level),
            # C04-ca: the remaining size lands in is_honeyword - one random value per group instead of the product
            ('C04.R19', _shared_rule('c17', 'r1_size_bound')),
            # C04-da: save_session writes cur_len, cur_ip in the other order than load_session reads them
            ('C04.R20', _shared_rule('c15', 'r3_pickle_layout')),
            # mutation sweep: create_guesses routing flipped
            ('C04.R21', _shared_rule('plumbing', 'generator_glue')),
            # mutation sweep: transitions of a base structure
            ('C04.R22', _shared_rule('c14', 'r20_structure_tokeniser')),
            # C04-ea: load_grammar hands skip_brute to _load_terminals in the place of skip_case
            ('C04.R23', _shared_rule('c14', 'r13_options_forwarded')),
            # C04-eb: _find_cp result cache without bottom_level
            ('C04.R24', _shared_rule('c10', 'r25_cracker_plumbing')),
            # C04-fb: the scan for the first populated OMEN level started at level 1
            ('C04.R25', _shared_rule('c10', 'r23_cursor_starts'))] + _loader_bundle() + []


META = {
    'explanation': 'Expansion of a pre-terminal decided structurally: three-way dispatch M/C/else on the category letter in '
                   'the three sibling walkers; each level iterates the whole chosen group once and recurses on pt[1:], base '
                   'case len(pt)==1; mask applied to complementary slices cur_guess[:-n] / cur_guess[-n:] with n = len(mask) '
                   'and a per-character L/U map at the same index; every write paired with exactly one count increment and '
                   'recursive counts added; loader grouping kernel tabulated over (line prob ? group prob): exact equality '
                   'joins, lower opens a new group; first-of-group uses flagged.',
    'trusted_base': ['python ast', 'A2 sorted files (GT row of the grouping kernel infeasible)'],
    'assumptions': ['masks in one Capitalization/<n>.txt all have length n (writer side: C03.R2, C06.R3)'],
    'not_decided': 'value-level equality of expansions; exactness of the Markov expansion (C10)',
    'technique': 'syntax-directed template rules with index-domain slice complement check + ordering-domain tabulation '
                 'of the grouping kernel + count/write pairing rule',
}

META['explanation'] += ' ' + 'Further: the output point print_guess reaches its write on every non-debug path; OMEN necessary conditions shared from C10 (exact last transition, cursor advance, inclusive level-cursor domain, prune discipline); loader bundle; exact-float discipline.'

META['explanation'] += ' ' + 'Round 13: the scan for the first populated OMEN level starts at level 0.'
META['explanation'] += ' ' + 'Round 14: no jump between a write and its count.'
