"""C05 - training segments every password into a lossless, soundly typed tiling (DESIGN section 4, C05)."""
import ast
import copy as _copy

from ..core import (TU, U, walk_local, calls_in, call_name, const, NOCONST, params, stores_in, single_def, expand,
                    walk_stmts, arg_for, kwarg, path_conditions, enclosing_stmt_chain, dotted)
from ..lin import lin, Lin
from . import c03, c08

DET = 'lib_trainer/detection_rules/'
PARSER = 'lib_trainer/pcfg_password_parser.py::PCFGPasswordParser.'

DRIVERS = [
    (DET + 'email_detection.py::email_detection', 'detect_email', False),
    (DET + 'website_detection.py::website_detection', 'detect_website', False),
    (DET + 'year_detection.py::year_detection', 'detect_year', True),
    (DET + 'context_sensitive_detection.py::context_sensitive_detection', 'detect_context_sensitive', True),
    (DET + 'alpha_detection.py::alpha_detection', 'detect_alpha', False),
    (DET + 'digit_detection.py::digit_detection', 'detect_digits', False),
]


def r1_splice_discipline(ctx, rule):
    n = 0
    for qual, det, _ in DRIVERS:
        fn = ctx.fn(qual)
        mod = ctx.repo.modules[qual.partition('::')[0]]
        L = params(fn)[0]
        loops = [s for s in fn.body if isinstance(s, ast.While)]
        if len(loops) != 1:
            ctx.unk(rule, qual, 'driver loop not found')
            continue
        lp = loops[0]
        n += 1
        t = lp.test
        iv = U(t.left) if isinstance(t, ast.Compare) and len(t.ops) == 1 and isinstance(t.ops[0], ast.Lt) \
            and U(t.comparators[0]) == 'len(%s)' % L else None
        facts = {'loop': U(t)}
        if iv is None:
            ctx.bad(rule, qual, 'loop condition ' + U(t), 'every section must be visited: while index < len(section_list)', facts, lp)
            continue
        ok = True
        cur = '%s[%s]' % (L, iv)
        dcalls = [c for c in calls_in(lp) if call_name(c) == det]
        if len(dcalls) != 1 or not dcalls[0].args or U(dcalls[0].args[0]) != cur:
            ok = False
            ctx.bad(rule, qual, 'detector called on %s' % [U(c.args[0]) if c.args else None for c in dcalls],
                    'the detector must examine the section at the current index', facts, lp)
            continue
        dstmt = c08._stmt_of(mod, dcalls[0])
        conds = [(U(tt), p) for tt, p in path_conditions(mod, dstmt, stop=lp)]
        facts['guard'] = conds
        if conds != [('%s[1] is None' % cur, True)]:
            ok = False
            ctx.bad(rule, qual, 'detector guard %s' % conds, 'only sections that are still unlabelled may be handed to a detector '
                    '(a labelled section must never be split again)', facts, dstmt)
        pvar = U(dstmt.targets[0].elts[0]) if isinstance(dstmt, ast.Assign) and isinstance(dstmt.targets[0], ast.Tuple) else None
        # splice
        dels = [s for s in walk_stmts(lp.body) if isinstance(s, ast.Delete)]
        sps = [s for s in walk_stmts(lp.body) if isinstance(s, ast.Assign) and isinstance(s.targets[0], ast.Subscript)
               and U(s.targets[0].value) == L and isinstance(s.targets[0].slice, ast.Slice)]
        good_splice = False
        if len(sps) == 1 and pvar and U(sps[0].value) == pvar:
            sl = sps[0].targets[0].slice
            lo, hi = lin(sl.lower), lin(sl.upper)
            I = Lin({iv: 1}, 0)
            if len(dels) == 1 and U(dels[0].targets[0]) == cur and lo == I and hi == I and dels[0].lineno < sps[0].lineno:
                good_splice = True
            if not dels and lo == I and hi == Lin({iv: 1}, 1):
                good_splice = True
        facts['splice'] = [U(s) for s in dels + sps]
        if not good_splice:
            ok = False
            ctx.bad(rule, qual, 'splice %s' % facts['splice'], 'a positive result must replace exactly the examined section by '
                    'the pieces of its parsing, at the same index (del L[i]; L[i:i] = parsing)', facts, (sps or dels or [lp])[0])
        # only when something was found
        if sps:
            sconds = [(U(tt), p) for tt, p in path_conditions(mod, sps[0], stop=lp)]
            facts['splice_conditions'] = sconds
            if len(sconds) != 2:
                ok = False
                ctx.bad(rule, qual, 'splice conditions %s' % sconds, 'the section is replaced only when the detector found '
                        'something', facts, sps[0])
        # the found values are accumulated under exactly the conditions of the splice (once per positive result)
        if sps:
            sc = [(U(tt), p_) for tt, p_ in path_conditions(mod, sps[0], stop=lp)]
            accs = [s_ for s_ in walk_stmts(lp.body) if isinstance(s_, ast.Expr) and isinstance(s_.value, ast.Call)
                    and isinstance(s_.value.func, ast.Attribute) and s_.value.func.attr in ('append', 'extend')
                    and U(s_.value.func.value) != L and U(s_.value.func.value).endswith('_list')]
            facts['accumulate'] = [U(a) for a in accs]
            if not accs:
                ok = False
                ctx.bad(rule, qual, 'found values are not accumulated', 'every positive result must be reported', facts, lp)
            for a in accs:
                ac = [(U(tt), p_) for tt, p_ in path_conditions(mod, a, stop=lp)]
                if ac != sc:
                    ok = False
                    ctx.bad(rule, qual, 'found value accumulated under %s, section replaced under %s' % (ac, sc),
                            'each labelled segment must be reported exactly once (a de-duplicated or filtered found list makes '
                            'the tallies - and the scorer product - disagree with the segments)', facts, a)
        # index advance: one top-level `index += 1`; nothing else changes the index
        steps = [s for s in walk_stmts(lp.body) if isinstance(s, (ast.AugAssign, ast.Assign))
                 and U(s.targets[0] if isinstance(s, ast.Assign) else s.target) == iv]
        top = [s for s in lp.body if isinstance(s, ast.AugAssign) and U(s.target) == iv and isinstance(s.op, ast.Add) and const(s.value) == 1]
        conts = [s for s in walk_stmts(lp.body) if isinstance(s, ast.Continue)]
        facts['index_updates'] = [U(s) for s in steps]
        if len(steps) != 1 or len(top) != 1 or lp.body[-1] is not top[0]:
            ok = False
            ctx.bad(rule, qual, 'index updates %s' % facts['index_updates'], 'the index advances by exactly one per iteration '
                    '(or the same index is re-examined after a splice); it must never skip a section', facts, lp)
        for c in conts:
            # a continue is only allowed right after the splice (re-examine the same index)
            par = mod.parents.get(id(c))
            blk = par.body if hasattr(par, 'body') else []
            if not (sps and any(s is sps[0] for s in blk)):
                ok = False
                ctx.bad(rule, qual, 'continue outside the splice branch', 'sections would be skipped or the loop would not '
                        'advance', facts, c)
        if any(isinstance(s, (ast.Break, ast.Return)) for s in walk_stmts(lp.body)):
            ok = False
            ctx.bad(rule, qual, 'break/return inside the driver loop', 'later sections are never examined', facts, lp)
        if ok:
            ctx.ok(rule, qual, 'unlabelled sections only; found -> del L[i]; L[i:i] = parsing; index += 1 (or re-examine)', facts)
    ctx.floor(rule, DET, n, 6, 'detector drivers')


# ---------------------------------------------------------------------------------------------
class Strings:
    """Aliases of the section string inside a detect_* function."""

    def __init__(self, fn):
        self.fn = fn
        self.stores = stores_in(fn)
        ps = params(fn)
        self.base = '%s[0]' % ps[0] if ps else None
        self.same = {self.base}
        self.lower = set()
        self.method = {}
        if ps and ps[0] == 'password':
            self.base = 'password'
            self.same = {'password'}
        for nm, lst in self.stores.items():
            vals = {U(v) for s, v in lst if v is not None}
            if vals and vals <= {self.base}:
                self.same.add(nm)
            elif vals and all(v in (self.base + '.lower()', self.base + '.casefold()', self.base + '.upper()') for v in vals):
                self.lower.add(nm)
                self.method[nm] = sorted(vals)[0].rpartition('.')[2]

    def kind(self, text):
        if text in self.same:
            return 'S'
        if text in self.lower or text == self.base + '.lower()':
            return 'L'
        return None

    def norm_atom(self, key, node):
        if isinstance(node, ast.Call) and call_name(node) == 'len' and len(node.args) == 1 and self.kind(U(node.args[0])):
            return 'LEN'
        return key


def piece(seg, S, local=None, depth=3):
    """(kind 'S'|'L', lo, hi) for a slice of the section string (through ''.join and single-definition locals)."""
    local = local or {}
    if isinstance(seg, ast.Call) and isinstance(seg.func, ast.Attribute) and seg.func.attr == 'join' and const(seg.func.value) == '' \
            and len(seg.args) == 1:
        return piece(seg.args[0], S, local, depth)
    if isinstance(seg, ast.Name) and depth > 0:
        defs = [v for s, v in S.stores.get(seg.id, []) if v is not None]
        if len(defs) == 1:
            return piece(defs[0], S, local, depth - 1)
    if isinstance(seg, ast.Subscript) and isinstance(seg.slice, ast.Slice) and S.kind(U(seg.value)):
        lo = lin(seg.slice.lower, atom_alias=S.norm_atom) if seg.slice.lower is not None else Lin({}, 0)
        hi = lin(seg.slice.upper, atom_alias=S.norm_atom) if seg.slice.upper is not None else Lin({'LEN': 1}, 0)
        return S.kind(U(seg.value)), lo, hi
    if S.kind(U(seg)):
        return S.kind(U(seg)), Lin({}, 0), Lin({'LEN': 1}, 0)
    return None


def len_lin(node, S):
    """Linear form of a length expression in which len(<slice of the section>) is replaced by hi - lo."""
    if isinstance(node, ast.Call) and call_name(node) == 'len' and len(node.args) == 1:
        p = piece(node.args[0], S)
        if p is not None:
            return p[2] - p[1]
        return None
    if isinstance(node, ast.BinOp) and isinstance(node.op, (ast.Add, ast.Sub)):
        a, b = len_lin(node.left, S), len_lin(node.right, S)
        if a is None or b is None:
            return None
        return a + b if isinstance(node.op, ast.Add) else a - b
    if isinstance(node, ast.Constant) and isinstance(node.value, int):
        return Lin({}, node.value)
    return None


def appended_pieces(block, acc='parsing'):
    """[(seg expr, label expr, guard-or-None, stmt)] for the appends in a statement block, in order."""
    out = []
    for st in block:
        if isinstance(st, ast.Expr) and isinstance(st.value, ast.Call) and isinstance(st.value.func, ast.Attribute) \
                and st.value.func.attr == 'append' and U(st.value.func.value) == acc and st.value.args \
                and isinstance(st.value.args[0], ast.Tuple) and len(st.value.args[0].elts) == 2:
            out.append((st.value.args[0].elts[0], st.value.args[0].elts[1], None, st))
        elif isinstance(st, ast.If) and not st.orelse and len(st.body) == 1:
            inner = appended_pieces(st.body, acc)
            if len(inner) == 1:
                out.append((inner[0][0], inner[0][1], st.test, st))
    return out


def guard_is_nonempty(test, lo, hi, S):
    """Does the guard state exactly that the slice [lo:hi] is non-empty (lo != hi, given lo <= hi)?"""
    if not (isinstance(test, ast.Compare) and len(test.ops) == 1):
        return False
    a = lin(test.left, atom_alias=S.norm_atom)
    b = lin(test.comparators[0], atom_alias=S.norm_atom)
    if a is None or b is None:
        return False
    d = a - b
    want = hi - lo          # > 0 iff non-empty
    op = test.ops[0]
    if isinstance(op, ast.NotEq) and (d == want or d == -want):
        return True
    if isinstance(op, ast.Gt) and d == want:
        return True
    if isinstance(op, ast.Lt) and d == -want:
        return True
    return False


def check_chain(ctx, rule, qual, S, pieces, ret_stmt, tail_is_recursion=None):
    """pieces: [(seg, label, guard, stmt)].  Chain 0 .. LEN with guarded optional ends."""
    facts = {'pieces': []}
    pos = Lin({}, 0)
    ok = True
    kinds = set()
    n = len(pieces)
    for k, (seg, label, guard, st) in enumerate(pieces):
        p = piece(seg, S)
        if p is None:
            ctx.unk(rule, qual, 'cannot resolve segment %s to a slice of the section' % U(seg), facts, st)
            return None
        kind, lo, hi = p
        kinds.add(kind)
        facts['pieces'].append({'segment': U(seg), 'lo': repr(lo), 'hi': repr(hi), 'base': kind, 'label': U(label),
                                'guard': U(guard) if guard is not None else None})
        if lo != pos:
            ok = False
            ctx.bad(rule, qual, 'piece %s starts at %r but the previous piece ends at %r' % (U(seg), lo, pos),
                    'the pieces must tile the section left to right without gap or overlap', facts, st)
        if guard is not None:
            # the piece itself used as the test (truthiness of a string slice: non-empty) is the guard by definition
            if U(guard) != U(seg) and U(guard) not in ('len(%s) > 0' % U(seg), 'len(%s) != 0' % U(seg)) \
                    and not guard_is_nonempty(guard, lo, hi, S):
                ok = False
                ctx.bad(rule, qual, 'optional piece %s guarded by %s' % (U(seg), U(guard)),
                        'an optional prefix/suffix may be omitted exactly when it is empty (otherwise characters are lost or '
                        'an empty segment is produced)', facts, st)
        else:
            is_end = (k == 0 and lo == Lin({}, 0) and False)
            if const(label) is None and k in (0, n - 1) and n > 1:
                ok = False
                ctx.bad(rule, qual, 'unguarded unlabelled piece ' + U(seg), 'a prefix/suffix piece must be guarded by its '
                        'non-emptiness test or an empty segment results', facts, st)
        # label = true length
        if isinstance(label, ast.BinOp) and isinstance(label.op, ast.Add) and isinstance(label.right, ast.Call) \
                and call_name(label.right) == 'str' and label.right.args:
            ll = len_lin(label.right.args[0], S)
            if ll is None or ll != (hi - lo):
                ok = False
                ctx.bad(rule, qual, 'label %s on segment %s (length %r)' % (U(label), U(seg), hi - lo),
                        'a length-indexed label must state the true length of its segment', facts, st)
        pos = hi
    if tail_is_recursion is None and pos != Lin({'LEN': 1}, 0):
        ok = False
        ctx.bad(rule, qual, 'last piece ends at %r, not at the end of the section' % pos, 'the tail of the section is lost',
                facts, ret_stmt)
    return ok, facts, kinds


def r2_slice_tiling(ctx, rule):
    n = 0
    for qual in (DET + 'year_detection.py::detect_year', DET + 'context_sensitive_detection.py::detect_context_sensitive',
                 DET + 'digit_detection.py::detect_digits', DET + 'email_detection.py::detect_email',
                 DET + 'website_detection.py::detect_website'):
        fn = ctx.fn(qual)
        mod = ctx.repo.modules[qual.partition('::')[0]]
        S = Strings(fn)
        rets = [s for s in walk_local(fn) if isinstance(s, ast.Return) and isinstance(s.value, ast.Tuple)
                and U(s.value.elts[0]) == 'parsing']
        if not rets:
            ctx.unk(rule, qual, 'no `return parsing, ...`')
            continue
        for r in rets:
            par = mod.parents.get(id(r))
            block = None
            for field in ('body', 'orelse'):
                lst = getattr(par, field, None)
                if isinstance(lst, list) and any(s is r for s in lst):
                    block = lst
            pcs = appended_pieces(block[:block.index(r)])
            n += 1
            if not pcs:
                ctx.unk(rule, qual, 'no appended pieces before the return', None, r)
                continue
            # all appends of the function must be in this block (no piece appended on an earlier path)
            all_app = [c for c in calls_in(fn) if isinstance(c.func, ast.Attribute) and c.func.attr == 'append' and U(c.func.value) == 'parsing']
            if len(all_app) != len(pcs):
                ctx.bad(rule, qual, '%d appends to parsing, %d in the returning block' % (len(all_app), len(pcs)),
                        'pieces appended on an abandoned path stay in the list and are returned with a later match', None, r)
                continue
            res = check_chain(ctx, rule, qual, S, pcs, r)
            if res and res[0]:
                ctx.ok(rule, qual, '%d pieces tile [0, len) with exact emptiness guards; labels state true lengths' % len(pcs), res[1])
        # the trivial return hands back the section unchanged
        triv = [s for s in walk_local(fn) if isinstance(s, ast.Return) and isinstance(s.value, ast.Tuple)
                and U(s.value.elts[0]) == params(fn)[0]]
        if not triv:
            ctx.bad(rule, qual, 'no `return section, None` path', 'a section without a match must be returned unchanged', None, fn)
    # alpha: loop-carried start
    qual = DET + 'alpha_detection.py::detect_alpha'
    fn = ctx.fn(qual)
    mod = ctx.repo.modules[qual.partition('::')[0]]
    S = Strings(fn)
    rets = [s for s in walk_local(fn) if isinstance(s, ast.Return) and isinstance(s.value, ast.Tuple) and U(s.value.elts[0]) == 'parsing']
    if rets:
        r = rets[0]
        par = mod.parents.get(id(r))
        block = par.body
        pre = block[:block.index(r)]
        pcs = appended_pieces(pre)
        loops = [s for s in pre if isinstance(s, ast.For)]
        n += 1
        facts = {}
        ok = True
        if len(pcs) != 2 or len(loops) != 1:
            ctx.unk(rule, qual, 'expected prefix piece, word loop, suffix piece')
        else:
            (pseg, plab, pg, pst), (sseg, slab, sg, sst) = pcs
            pp, sp = piece(pseg, S), piece(sseg, S)
            lp = loops[0]
            inner = appended_pieces(lp.body)
            carried = None
            if inner:
                ip = piece(inner[0][0], S)
                if ip:
                    carried = ip[1]
            mw = [c for c in calls_in(fn) if isinstance(c.func, ast.Attribute) and c.func.attr == 'parse' and 'multiword' in U(c.func.value)]
            mp = piece(mw[0].args[0], S) if mw else None
            init = None
            if carried is not None and len(carried.t) == 1:
                cname = list(carried.t)[0]
                for s in pre:
                    if isinstance(s, ast.Assign) and U(s.targets[0]) == cname:
                        init = lin(s.value, atom_alias=S.norm_atom)
            facts = {'prefix': U(pseg), 'suffix': U(sseg), 'word_piece': U(inner[0][0]) if inner else None,
                     'multiword_input': U(mw[0].args[0]) if mw else None, 'carried_start_init': repr(init)}
            if not pp or not sp or not mp or init is None:
                ctx.unk(rule, qual, 'cannot resolve the alpha pieces', facts)
            else:
                if pp[1] != Lin({}, 0) or not guard_is_nonempty(pg, pp[1], pp[2], S) if pg is not None else True:
                    ok = False
                    ctx.bad(rule, qual, 'prefix piece %s / guard %s' % (U(pseg), U(pg) if pg is not None else None),
                            'prefix must be [0:start] guarded by start != 0', facts, pst)
                if init != pp[2] or mp[1] != pp[2]:
                    ok = False
                    ctx.bad(rule, qual, 'words start at %r, prefix ends at %r, multi-word input starts at %r' % (init, pp[2], mp[1]),
                            'the word pieces must start where the prefix ends', facts, lp)
                if mp[2] != sp[1]:
                    ok = False
                    ctx.bad(rule, qual, 'multi-word input ends at %r, suffix starts at %r' % (mp[2], sp[1]),
                            'the run handed to the multi-word detector must end where the suffix starts', facts, sst)
                if sp[2] != Lin({'LEN': 1}, 0) or (sg is not None and not guard_is_nonempty(sg, sp[1], sp[2], S)) or sg is None:
                    ok = False
                    ctx.bad(rule, qual, 'suffix piece %s / guard %s' % (U(sseg), U(sg) if sg is not None else None),
                            'suffix must be [end+1:] guarded by its non-emptiness', facts, sst)
                if ok:
                    ctx.ok(rule, qual, 'prefix [0:start], words tile [start:end+1] (parts of the multi-word parse), suffix [end+1:]', facts)
    # keyboard: two emission sites
    qual = DET + 'keyboard_walk.py::detect_keyboard_walk'
    fn = ctx.fn(qual)
    S = Strings(fn)
    txt = TU(fn)
    n += 1
    facts = {}
    site1 = "if len(cur_combo) != index:\n    section_list.append((password[0:index - len(cur_combo)], None))" in txt.replace('                        ', '    ').replace('                    ', '') \
        or 'section_list.append((password[0:index - len(cur_combo)], None))' in txt
    g1 = 'if len(cur_combo) != index:' in txt
    KPIECE = "section_list.append((''.join(cur_combo), 'K' + str(len(cur_combo))))"
    mid = txt.count(KPIECE) == 2
    # both emission sites: the statement after the prefix guard is the walk piece itself (a site that appends the prefix and not
    # the walk drops the walk's characters from the parse - mutation sweep, third run)
    mod_kw = ctx.repo.modules[qual.partition('::')[0]]
    for g_ in [x for x in walk_local(fn) if isinstance(x, ast.If) and U(x.test) in ('len(cur_combo) != index', 'len(cur_combo) != len(password)')]:
        par_ = mod_kw.parents.get(id(g_))
        for fld in ('body', 'orelse'):
            blk = getattr(par_, fld, None)
            if isinstance(blk, list) and any(g_ is x for x in blk):
                k_ = [i for i, x in enumerate(blk) if x is g_][0]
                nxt = blk[k_ + 1] if k_ + 1 < len(blk) else None
                is_emit = isinstance(nxt, ast.Expr) and isinstance(nxt.value, ast.Call) and isinstance(nxt.value.func, ast.Attribute) \
                    and nxt.value.func.attr in ('append', 'extend') or isinstance(nxt, (ast.Assign, ast.AugAssign))
                if not is_emit:
                    ctx.bad(rule, qual, 'after the prefix guard `%s` comes `%s`, not the walk piece' % (U(g_.test), U(nxt)[:50] if nxt is not None else 'nothing'),
                            'prefix, walk and rest must tile the password: the characters of the walk are emitted as the K piece right after the prefix',
                            None, g_, firm=True)
                    return
    rec = 'detect_keyboard_walk(password[index:])' in txt
    site2 = 'section_list.append((password[0:len(password) - len(cur_combo)], None))' in txt and 'if len(cur_combo) != len(password):' in txt
    whole = txt.count('section_list.append((password, None))') == 2
    combo = 'cur_combo.append(value)' in txt and 'cur_combo = [value]' in txt
    facts = {'prefix_site1': site1 and g1, 'walk_piece': mid, 'recursion_on_suffix': rec, 'prefix_site2': site2,
             'no_walk_returns_whole': whole, 'combo_tracks_last_characters': combo}
    if all(facts.values()):
        ctx.ok(rule, qual, 'walk found mid-password: [0:index-len(c)] (guard len(c) != index), K piece of len(c), recursion on '
               '[index:]; at the end: [0:len-len(c)], K piece; otherwise the whole password', facts)
    else:
        # not the confirmed spelling.  Look at the prefix pieces that ARE there: (password[lo:hi], None) must end where the walk
        # starts - at index - len(walk) inside the scan, at len(password) - len(walk) after it.  A piece with other bounds is a
        # violation; pieces that are not found (moved into a helper ...) leave the rule undecided.
        stores_k = stores_in(fn)
        mod_k = ctx.repo.modules[qual.partition('::')[0]]
        wrong = []
        for c_ in calls_in(fn):
            if not (isinstance(c_.func, ast.Attribute) and c_.func.attr == 'append' and c_.args and isinstance(c_.args[0], ast.Tuple)
                    and len(c_.args[0].elts) == 2 and const(c_.args[0].elts[1]) is None):
                continue
            seg = c_.args[0].elts[0]
            if not (isinstance(seg, ast.Subscript) and isinstance(seg.slice, ast.Slice) and U(seg.value) == 'password'):
                continue
            hi = seg.slice.upper
            if hi is None:
                continue
            txt_hi = U(expand(fn, hi, stores_k)).replace("len(''.join(cur_combo))", 'len(cur_combo)')
            for nm_, lst_ in stores_k.items():
                if lst_ and all(v_ is not None and U(v_) == "''.join(cur_combo)" for s__, v_ in lst_):
                    txt_hi = txt_hi.replace('len(%s)' % nm_, 'len(cur_combo)')
            try:
                l_hi = lin(ast.parse(txt_hi, mode='eval').body)
            except SyntaxError:
                l_hi = None
            in_loop = False
            cur = mod_k.parents.get(id(c_))
            while cur is not None and cur is not fn:
                if isinstance(cur, (ast.For, ast.While)):
                    in_loop = True
                cur = mod_k.parents.get(id(cur))
            want_hi = Lin({'index': 1, 'len(cur_combo)': -1}, 0) if in_loop else Lin({'len(password)': 1, 'len(cur_combo)': -1}, 0)
            if l_hi is not None and l_hi != want_hi and set(l_hi.t) <= {'index', 'len(cur_combo)', 'len(password)'}:
                wrong.append('%s (expected to end at %r)' % (U(seg), want_hi))
        if wrong:
            ctx.bad(rule, qual, 'keyboard prefix piece %s' % '; '.join(wrong), 'prefix, walk and rest must tile the password', facts, fn)
        else:
            ctx.unk(rule, qual, 'keyboard emission sites not recognised: %s' % {k: v for k, v in facts.items() if not v}, facts)
    ctx.floor(rule, DET, n, 7, 'tiling sites')


def r4_multiword_parts(ctx, rule):
    q = DET + 'multiword_detector.py::MultiWordDetector._identify_multi'
    fn = ctx.fn(q)
    s = params(fn)[1]
    rets = [r for r in walk_local(fn) if isinstance(r, ast.Return)]
    loops = [n for n in walk_local(fn) if isinstance(n, ast.For)]
    if len(loops) != 1:
        ctx.unk(rule, q, 'split loop not found')
        return
    i = U(loops[0].target)
    ok = True
    facts = {'returns': [U(r.value) for r in rets]}
    mod = ctx.repo.modules[q.partition('::')[0]]
    heads = {'%s[0:%s]' % (s, i), '%s[:%s]' % (s, i)}
    tail = '%s[%s:]' % (s, i)
    # the names that hold the parsing of the rest (bound from the recursive call on s[i:])
    rec = {}
    for st in walk_local(fn):
        if isinstance(st, ast.Assign) and len(st.targets) == 1 and isinstance(st.targets[0], ast.Name) and isinstance(st.value, ast.Call) \
                and call_name(st.value) == 'self._identify_multi':
            rec[st.targets[0].id] = U(st.value.args[0]) if st.value.args else None
    for nm, arg in rec.items():
        if arg != tail:
            ok = False
            ctx.bad(rule, q, 'recursive call on ' + str(arg), 'the rest to be parsed is s[i:]', facts, fn)
    prepends = {}
    for c in calls_in(fn):
        if isinstance(c.func, ast.Attribute) and isinstance(c.func.value, ast.Name) and c.func.value.id in rec:
            if c.func.attr == 'insert' and len(c.args) == 2 and const(c.args[0]) == 0 and U(c.args[1]) in heads:
                prepends[c.func.value.id] = c
            else:
                ok = False
                ctx.bad(rule, q, 'recursive result changed by ' + U(c)[:60], 'the first part s[0:i] must be put IN FRONT of the parsing of s[i:] '
                        '(the parts are emitted in this order as adjacent alpha segments)', facts, c)
    for r in rets:
        v = r.value
        t = U(v) if v is not None else 'None'
        if t == 'None':
            continue
        if isinstance(v, ast.List) and len(v.elts) == 2 and U(v.elts[0]) in heads and U(v.elts[1]) == tail:
            continue
        if isinstance(v, ast.Name) and v.id in rec:
            if v.id not in prepends:
                ok = False
                ctx.bad(rule, q, 'recursive case returns %s without the first part' % v.id, 'the first part s[0:i] must be prepended to the parsing of s[i:]', facts, r)
            continue
        if isinstance(v, ast.BinOp) and isinstance(v.op, ast.Add) and isinstance(v.left, ast.List) and len(v.left.elts) == 1 \
                and U(v.left.elts[0]) in heads and isinstance(v.right, ast.Name) and v.right.id in rec and v.right.id not in prepends:
            continue
        ok = False
        mentions = {x.id for x in ast.walk(v) if isinstance(x, ast.Name)} if v is not None else set()
        if isinstance(v, (ast.List, ast.BinOp)) and (mentions & (set(rec) | {s})):
            ctx.bad(rule, q, 'returns ' + t, 'the parts must be the complementary slices s[0:i], s[i:] (recursively), first part first', facts, r)
        else:
            ctx.unk(rule, q, 'return value %s of the multi-word split is not of a form this rule knows' % t[:60], facts)
    # both parts seen at least threshold times
    th = [n for n in walk_local(fn) if isinstance(n, ast.Compare) and len(n.ops) == 1
          and ('self._get_count(' in U(n.left) or 'self._get_count(' in U(n.comparators[0]))]
    for c in th:
        cnt_left = 'self._get_count(' in U(c.left)
        other = c.comparators[0] if cnt_left else c.left
        op = type(c.ops[0])
        if not cnt_left:
            op = {ast.Lt: ast.Gt, ast.Gt: ast.Lt, ast.LtE: ast.GtE, ast.GtE: ast.LtE}.get(op, op)
        par = mod.parents.get(id(c))
        negated = isinstance(par, ast.UnaryOp) and isinstance(par.op, ast.Not)
        if negated:
            op = {ast.Lt: ast.GtE, ast.GtE: ast.Lt, ast.Gt: ast.LtE, ast.LtE: ast.Gt}.get(op, op)     # counts are integers: not (a < b) == a >= b
        # the test may also be the guard that SKIPS a split (count < threshold -> continue): same boundary
        conds_skip = False
        stp = par
        while stp is not None and not isinstance(stp, ast.stmt):
            stp = mod.parents.get(id(stp))
        if isinstance(stp, ast.If) and stp.body and isinstance(stp.body[-1], (ast.Continue, ast.Return)) and not stp.orelse \
                and (not isinstance(stp.body[-1], ast.Return) or stp.body[-1].value is None or U(stp.body[-1].value) == 'None'):
            conds_skip = True
        want = ast.Lt if conds_skip else ast.GtE
        if U(other) != 'self.threshold':
            ok = False
            ctx.unk(rule, q, 'count compared with %s' % U(other)[:40], facts)
        elif op is not want:
            ok = False
            ctx.bad(rule, q, 'threshold test ' + U(par if negated else c), 'a part counts as a base word only if it was seen at least threshold times', facts, c)
    if len(th) < 2:
        ok = False
        ctx.bad(rule, q, '%d threshold tests' % len(th), 'both parts must be tested', facts, fn)
    pq = DET + 'multiword_detector.py::MultiWordDetector.parse'
    pfn = ctx.fn(pq)
    a = params(pfn)[1]
    prets = [U(r.value) for r in walk_local(pfn) if isinstance(r, ast.Return)]
    facts['parse_returns'] = prets
    good = {'(False, [%s])' % a, '(True, [%s])' % a, '(True, result)'}
    if not set(prets) <= good or 'result = self._identify_multi(%s)' % a not in TU(pfn):
        ok = False
        ctx.bad(rule, pq, 'parse returns %s' % prets, 'parse returns the whole string or the parts found for exactly that string', facts, pfn)
    # whole word first
    body = [s_ for s_ in pfn.body if not (isinstance(s_, ast.Expr) and isinstance(s_.value, ast.Constant))]
    idx_whole = next((k for k, s_ in enumerate(body) if isinstance(s_, ast.If) and 'self._get_count(%s) >= self.threshold' % a in U(s_.test)), None)
    idx_multi = next((k for k, s_ in enumerate(body) if 'self._identify_multi' in U(s_)), None)
    if idx_whole is None or idx_multi is None or idx_whole > idx_multi:
        ok = False
        ctx.bad(rule, pq, 'whole-word test after the split attempt', 'a word is split only if the whole was not seen threshold times', facts, pfn)
    if ok:
        ctx.ok(rule, q, 'parts are complementary slices, both >= threshold; whole word tried first', facts)


def r5_totality(ctx, rule):
    q = DET + 'other_detection.py::other_detection'
    fn = ctx.fn(q)
    L = params(fn)[0]
    txt = TU(fn)
    loops = [s for s in fn.body if isinstance(s, ast.While)]
    floops = [s for s in fn.body if isinstance(s, ast.For)]
    ok = True
    recognised = True
    mod = ctx.repo.modules[q.partition('::')[0]]
    if len(loops) == 1 and not floops and U(loops[0].test) == 'index < len(%s)' % L:
        lp = loops[0]
        want = "%s[index] = (%s[index][0], 'O' + str(len(%s[index][0])))" % (L, L, L)
        assigns = [s for s in walk_stmts(lp.body) if isinstance(s, ast.Assign) and U(s.targets[0]) == '%s[index]' % L]
        if len(assigns) != 1 or U(assigns[0]) != want or \
                [(U(t), p) for t, p in path_conditions(mod, assigns[0], stop=lp)] != [('%s[index][1] is None' % L, True)] \
                or U(lp.body[-1]) != 'index += 1' or any(isinstance(s, (ast.Break, ast.Continue, ast.Return)) for s in walk_stmts(lp.body)):
            ok = False
    elif len(floops) == 1 and not loops and U(floops[0].iter) == 'enumerate(%s)' % L and isinstance(floops[0].target, ast.Tuple) \
            and len(floops[0].target.elts) == 2 and isinstance(floops[0].target.elts[0], ast.Name):
        # for i, e in enumerate(L) / for i, (v, l) in enumerate(L): every index is visited by construction; the element names
        # denote L[i][0], L[i][1] as long as they are read before L[i] is replaced
        lp = floops[0]
        i = lp.target.elts[0].id
        e = lp.target.elts[1]
        sub = {}
        if isinstance(e, ast.Name):
            sub[e.id] = '%s[%s]' % (L, i)
        elif isinstance(e, ast.Tuple) and all(isinstance(x, ast.Name) for x in e.elts):
            for k, x in enumerate(e.elts):
                sub[x.id] = '%s[%s][%d]' % (L, i, k)

        def T(node):
            import copy as _cp

            class R(ast.NodeTransformer):
                def visit_Name(self, n):
                    if n.id in sub and isinstance(n.ctx, ast.Load):
                        return ast.parse(sub[n.id], mode='eval').body
                    return n
            return U(R().visit(_cp.deepcopy(node)))
        want = "%s[%s] = (%s[%s][0], 'O' + str(len(%s[%s][0])))" % (L, i, L, i, L, i)
        assigns = [s for s in walk_stmts(lp.body) if isinstance(s, ast.Assign) and U(s.targets[0]) == '%s[%s]' % (L, i)]
        conds = [(T(t), p) for t, p in path_conditions(mod, assigns[0], stop=lp)] if len(assigns) == 1 else None
        jumps = [s for s in walk_stmts(lp.body) if isinstance(s, (ast.Break, ast.Return))]
        conts = [s for s in walk_stmts(lp.body) if isinstance(s, ast.Continue)]
        cont_ok = all([(T(t), p) for t, p in path_conditions(mod, c, stop=lp)] in ([('%s[%s][1] is not None' % (L, i), True)],
                                                                                    [('%s[%s][1] is None' % (L, i), False)]) for c in conts)
        if len(assigns) != 1 or T(assigns[0]) != want or jumps or not cont_ok or \
                conds not in ([('%s[%s][1] is None' % (L, i), True)], [('%s[%s][1] is not None' % (L, i), False)]) or not sub:
            ok = False
    else:
        recognised = False
        ok = False
    if not recognised:
        ctx.unk(rule, q, 'the loop over the section list is not in a recognised form (index while-loop or for .. in enumerate)')
        return
    if ok:
        ctx.ok(rule, q, "every section that is still None is labelled 'O' + len; every index visited")
    else:
        ctx.bad(rule, q, 'other_detection shape', "every unlabelled section must become 'O' + str(len(section))", None, fn)
    # base_structure_creation raises on None
    bq = 'lib_trainer/base_structure.py::base_structure_creation'
    bfn = ctx.fn(bq)
    raises = [n for n in walk_local(bfn) if isinstance(n, ast.If) and 'is None' in U(n.test) and any(isinstance(s, ast.Raise) for s in n.body)]
    if raises:
        ctx.ok(rule, bq, 'an unlabelled section raises')
    else:
        ctx.bad(rule, bq, 'no raise on an unlabelled section', 'an untyped segment must not silently enter a base structure', None, bfn)
    # order in parse
    pq = PARSER + 'parse'
    pfn = ctx.fn(pq)
    order = []
    for st in pfn.body:
        for c in calls_in(st):
            nm = call_name(c)
            if nm in ('detect_keyboard_walk', 'email_detection', 'website_detection', 'year_detection', 'context_sensitive_detection',
                      'alpha_detection', 'digit_detection', 'other_detection', 'prince_evaluation', 'base_structure_creation'):
                order.append(nm)
    facts = {'order': order}
    pos = {nm: i for i, nm in enumerate(order)}
    need = ['detect_keyboard_walk', 'email_detection', 'website_detection', 'year_detection', 'context_sensitive_detection',
            'alpha_detection', 'digit_detection', 'other_detection', 'prince_evaluation', 'base_structure_creation']
    probs = []
    if sorted(order) != sorted(need):
        probs.append('detector calls %s' % order)
    else:
        if pos['detect_keyboard_walk'] != 0:
            probs.append('keyboard detection must come first (it creates the section list)')
        for d in need[1:7]:
            if pos[d] > pos['other_detection']:
                probs.append('%s after other_detection' % d)
        if pos['prince_evaluation'] < pos['other_detection'] or pos['base_structure_creation'] < pos['other_detection']:
            probs.append('prince_evaluation/base_structure_creation before other_detection')
        for d in ('email_detection', 'website_detection'):
            for later in ('year_detection', 'context_sensitive_detection', 'alpha_detection', 'digit_detection'):
                if pos[d] > pos[later]:
                    probs.append('%s after %s' % (d, later))
        if pos['year_detection'] > pos['digit_detection'] or pos['context_sensitive_detection'] > pos['alpha_detection'] \
                or pos['context_sensitive_detection'] > pos['digit_detection']:
            probs.append('year/context detection must precede the digit/alpha detectors they carve from')
    if probs:
        for p in probs:
            ctx.bad(rule, pq, 'detector order: ' + p, 'the detectors refine one shared section list; the order decides which '
                    'label a character gets and whether every section is labelled', facts, pfn)
    else:
        ctx.ok(rule, pq, 'keyboard first; e-mail/website before year/context/alpha/digit; other last; tallies after', facts)


def r6_counter_pairing(ctx, rule):
    counters, detail = c03.parse_counters(ctx)
    want = {'K': ('self.count_keyboard', 'indexed'), 'Y': ('self.count_years', 'flat'), 'X': ('self.count_context_sensitive', 'flat'),
            'A': ('self.count_alpha', 'indexed'), 'C': ('self.count_alpha_masks', 'indexed'), 'D': ('self.count_digits', 'indexed'),
            'O': ('self.count_other', 'indexed')}
    pq = PARSER + 'parse'
    ok = True
    for letter, cs in sorted(counters.items()):
        if len(cs) != 1:
            ok = False
            ctx.bad(rule, pq, 'values of %s are tallied in %d counters %s' % (letter, len(cs), cs),
                    'each found list feeds exactly one counter, once', detail.get(letter), None)
    missing = sorted(set(want) - set(counters))
    if missing:
        ok = False
        ctx.bad(rule, pq, 'no tally for %s' % missing, 'every category must be counted', None, None)
    # distinct counters
    used = [cs[0][0] for cs in counters.values() if len(cs) == 1]
    if len(set(used)) != len(used):
        ok = False
        ctx.bad(rule, pq, 'two categories share a counter: %s' % used, 'categories must not be mixed', None, None)
    # _update_counter_len_indexed keys by len(item) of the item counted
    uq = PARSER + '_update_counter_len_indexed'
    ufn = ctx.fn(uq)
    ps = params(ufn)
    cnt, lst = ps[1], ps[2]
    loops = [n for n in ufn.body if isinstance(n, ast.For) and U(n.iter) == lst and isinstance(n.target, ast.Name)]
    if len(loops) != 1:
        ok = False
        ctx.unk(rule, uq, 'the loop over the found list is not recognised')
    else:
        lp = loops[0]
        it = lp.target.id
        want_t = '%s[len(%s)][%s]' % (cnt, it, it)
        augs = [n for n in walk_local(lp) if isinstance(n, ast.AugAssign)]
        stores = [n for n in walk_local(lp) if isinstance(n, ast.Assign) and isinstance(n.targets[0], ast.Subscript)
                  and U(n.targets[0].value).startswith(cnt)]
        wrong = [U(a) for a in augs if not (U(a.target) == want_t and isinstance(a.op, ast.Add) and const(a.value) == 1)]
        wrong += [U(a) for a in stores if not (U(a.targets[0]) == '%s[len(%s)]' % (cnt, it) and U(a.value) == 'Counter()')]
        skips = [n for n in walk_stmts(lp.body) if isinstance(n, (ast.Continue, ast.Break, ast.Return))]
        # every path through the body performs the increment exactly once: either `try: inc / except: create; inc`
        # or `if <len> not in counter: create` followed by one unconditional inc
        from ..cfg import CFG as _CFG
        shape = None
        body = [x for x in lp.body]
        if len(body) == 1 and isinstance(body[0], ast.Try) and len(body[0].handlers) == 1 and not body[0].orelse and not body[0].finalbody \
                and [U(x.target) for x in body[0].body if isinstance(x, ast.AugAssign)] == [want_t] and len(body[0].body) == 1 \
                and [type(x).__name__ for x in body[0].handlers[0].body] == ['Assign', 'AugAssign']:
            shape = 'try'
        elif len(body) == 2 and isinstance(body[0], ast.If) and not body[0].orelse and isinstance(body[1], ast.AugAssign) \
                and U(body[0].test) in ('len(%s) not in %s' % (it, cnt),) and [type(x).__name__ for x in body[0].body] == ['Assign']:
            shape = 'if-not-in'
        # get-or-create through a local: c = counter.get(len(item)); if c is None: c = Counter(); counter[len(item)] = c; c[item] += 1
        if shape is None and len(body) == 3 and isinstance(body[0], ast.Assign) and isinstance(body[0].targets[0], ast.Name) \
                and isinstance(body[1], ast.If) and not body[1].orelse and isinstance(body[2], ast.AugAssign):
            loc = body[0].targets[0].id
            key = 'len(%s)' % it
            created = sorted(U(x) for x in body[1].body)
            if U(body[0].value) == '%s.get(%s)' % (cnt, key) and U(body[1].test) == '%s is None' % loc \
                    and created == sorted(['%s = Counter()' % loc, '%s[%s] = %s' % (cnt, key, loc)]) \
                    and U(body[2].target) == '%s[%s]' % (loc, it) and isinstance(body[2].op, ast.Add) and const(body[2].value) == 1:
                shape = 'get-or-create'
                wrong = []
        if wrong or skips:
            ok = False
            ctx.bad(rule, uq, 'length-indexed update: %s' % (wrong or [U(x) for x in skips]),
                    'every item must be counted exactly once under its own length: counter[len(item)][item] += 1', None, lp)
        elif shape is None or not augs:
            ok = False
            ctx.unk(rule, uq, 'length-indexed update is not in a recognised form (try/except create, or if-not-in create)')
        else:
            ctx.ok(rule, uq, 'length-indexed counters are keyed by len(item) of the item counted (%s form)' % shape)
    if ok:
        ctx.ok(rule, pq, 'each found list feeds exactly one, distinct counter', {'pairs': {k: v for k, v in counters.items()}})


def r7_index_space(ctx, rule):
    """An index computed on a case-mapped copy must not be used to slice the original string."""
    n = 0
    for qual in (DET + 'alpha_detection.py::detect_alpha', DET + 'email_detection.py::detect_email',
                 DET + 'website_detection.py::detect_website', DET + 'digit_detection.py::detect_digits',
                 DET + 'year_detection.py::detect_year', DET + 'context_sensitive_detection.py::detect_context_sensitive',
                 DET + 'keyboard_walk.py::detect_keyboard_walk'):
        fn = ctx.fn(qual)
        S = Strings(fn)
        n += 1
        if not S.lower:
            ctx.ok(rule, qual, 'no case-mapped copy of the section is used for indexing', nontrivial=False)
            continue
        # indices derived from the lower-cased copy
        derived = set()
        for node in walk_local(fn):
            if isinstance(node, ast.For) and isinstance(node.iter, ast.Call) and call_name(node.iter) == 'enumerate' \
                    and node.iter.args and S.kind(U(node.iter.args[0])) == 'L' and isinstance(node.target, ast.Tuple):
                derived.add(U(node.target.elts[0]))
        changed = True
        while changed:
            changed = False
            for nm, lst in S.stores.items():
                if nm in derived:
                    continue
                for s, v in lst:
                    src = v if v is not None else (s.value if isinstance(s, ast.AugAssign) else None)
                    if src is None:
                        continue
                    names = {x.id for x in ast.walk(src) if isinstance(x, ast.Name)}
                    calls_on_lower = any(isinstance(c, ast.Call) and isinstance(c.func, ast.Attribute) and c.func.attr in ('find', 'rfind', 'index')
                                         and any(S.kind(U(x)) == 'L' for x in ast.walk(c.func.value) if isinstance(x, (ast.Name, ast.Subscript, ast.Call)))
                                         for c in ast.walk(src))
                    lens = any(isinstance(c, ast.Call) and call_name(c) == 'len' and c.args and S.kind(U(c.args[0])) == 'L' for c in ast.walk(src))
                    if (names & derived) or calls_on_lower or lens:
                        derived.add(nm)
                        changed = True
        uses = []
        for node in walk_local(fn):
            if isinstance(node, ast.Subscript) and S.kind(U(node.value)) == 'S':
                idx_names = {x.id for x in ast.walk(node.slice) if isinstance(x, ast.Name)}
                if idx_names & derived:
                    uses.append(node)
        if uses:
            meth = sorted(set(S.method.values()))[0] if S.method else 'lower()'
            ctx.bad(rule, qual, 'original string sliced with indexes computed on its lower-cased copy' if meth == 'lower()'
                    else 'original string sliced with indexes computed on its %s copy' % meth,
                    "str.lower() can change the length (U+0130 'İ' lowers to two code points): every index after such a "
                    "character is shifted, so segments lose or duplicate characters, become empty or get a wrong length label "
                    "(e.g. %s)" % U(uses[0]), {'derived_indexes': sorted(derived), 'uses': [U(u) for u in uses][:6]}, uses[0])
        else:
            ctx.ok(rule, qual, 'indexes from the lower-cased copy are not used on the original')
    ctx.floor(rule, DET, n, 7, 'detect functions')


def r8_constants(ctx, rule):
    # keyboard threshold
    q = DET + 'keyboard_walk.py::detect_keyboard_walk'
    fn = ctx.fn(q)
    from ..core import param_default
    d = param_default(fn, 'min_keyboard_run')
    ok = True
    facts = {'default': U(d) if d is not None else None}
    overrides = []
    for qual, f in ctx.repo.all_funcs():
        for c in calls_in(f):
            if call_name(c) == 'detect_keyboard_walk' and (len(c.args) > 1 or any(k.arg == 'min_keyboard_run' for k in c.keywords)):
                overrides.append(qual)
    tests = [n for n in walk_local(fn) if isinstance(n, ast.Compare) and U(n.left) == 'len(cur_combo)' and 'min_keyboard_run' in U(n)]
    if d is None or not isinstance(const(d), int) or const(d) < 4 or overrides or len(tests) != 2 \
            or any(not (len(t.ops) == 1 and isinstance(t.ops[0], ast.GtE)) for t in tests):
        ok = False
        ctx.bad(rule, q, 'keyboard run threshold default=%s overrides=%s tests=%s' % (facts['default'], overrides, [U(t) for t in tests]),
                'keyboard segments are walks of at least four keys: len(run) >= threshold with threshold >= 4', facts, fn)
    if 'interesting_keyboard(cur_combo)' not in TU(fn):
        ok = False
        ctx.bad(rule, q, 'class-mix test missing', 'a walk must mix character classes', facts, fn)
    if ok:
        ctx.ok(rule, q, 'run accepted iff len(run) >= %s (>= 4, no call site overrides) and it mixes classes' % U(d), facts)
    # year: 4 characters after prefix 19/20
    yq = DET + 'year_detection.py::detect_year'
    yfn = ctx.fn(yq)
    txt = TU(yfn)
    ystores0 = stores_in(yfn)
    pref0 = [v for lst in ystores0.values() for s_, v in lst if isinstance(v, (ast.List, ast.Tuple)) and v.elts
             and all(isinstance(const(e), str) and const(e).isdigit() for e in v.elts)]
    pref0 += [n.iter for n in walk_local(yfn) if isinstance(n, ast.For) and isinstance(n.iter, (ast.List, ast.Tuple)) and n.iter.elts
              and all(isinstance(const(e), str) and const(e).isdigit() for e in n.iter.elts)]
    pref_ok = len(pref0) == 1 and sorted(const(e) for e in pref0[0].elts) == ['19', '20']
    yok = pref_ok and "(working_string[start_index:start_index + 4], 'Y1')" in txt \
        and 'working_string[start_index + 2].isdigit()' in txt and 'working_string[start_index + 3].isdigit()' in txt \
        and 'working_string[start_index - 1].isdigit()' in txt and 'working_string[start_index + 4].isdigit()' in txt \
        and 'len(working_string) < start_index + 4' in txt
    if yok:
        ctx.ok(rule, yq, "year = 4-character slice after a '19'/'20' prefix, digits at +2/+3, non-digit neighbours")
    else:
        # not the confirmed spelling: report what is recognisably wrong, otherwise say that the shape is not understood
        wrong = []
        ystores = stores_in(yfn)
        pref = [v for lst in ystores.values() for s_, v in lst if isinstance(v, (ast.List, ast.Tuple)) and v.elts
                and all(isinstance(const(e), str) and const(e).isdigit() for e in v.elts)]
        pref += [n.iter for n in walk_local(yfn) if isinstance(n, ast.For) and isinstance(n.iter, (ast.List, ast.Tuple)) and n.iter.elts
                 and all(isinstance(const(e), str) and const(e).isdigit() for e in n.iter.elts)]
        for v in pref:
            if sorted(const(e) for e in v.elts) != ['19', '20']:
                wrong.append('year prefixes %s' % U(v))
        for t in [n for n in walk_local(yfn) if isinstance(n, ast.Tuple) and len(n.elts) == 2 and const(n.elts[1]) == 'Y1']:
            seg = expand(yfn, t.elts[0], ystores)
            if isinstance(seg, ast.Subscript) and isinstance(seg.slice, ast.Slice) and seg.slice.lower is not None and seg.slice.upper is not None:
                lo_, hi_ = lin(seg.slice.lower), lin(seg.slice.upper)
                if lo_ is not None and hi_ is not None and not (hi_ - lo_).t and (hi_ - lo_).c != 4:
                    wrong.append('year segment %s is %d characters' % (U(seg), (hi_ - lo_).c))
        if wrong:
            ctx.bad(rule, yq, 'year shape: ' + '; '.join(wrong), 'years are four digits starting 19 or 20, not part of a longer digit run', None, yfn)
        else:
            ctx.unk(rule, yq, 'the year detector is not written the way the rule was confirmed on (prefix list and segment width look right; '
                    'the digit / neighbour tests are not recognised)')
    # context: slice [i : i+len(r)] of the find result of an element of the fixed list
    cq = DET + 'context_sensitive_detection.py::detect_context_sensitive'
    cfn = ctx.fn(cq)
    txt = TU(cfn)
    cok = 'for replacement in context_sensitive_replacements' in txt and 'start_index = working_string.find(replacement)' in txt \
        and "(working_string[start_index:start_index + len(replacement)], 'X1')" in txt
    if not cok:
        # the same thing in other spellings: the loop over a constant collection of strings (named or written in place),
        # i = <string>.find(r), segment <string>[i : i + len(r)] labelled X1
        cst = stores_in(cfn)
        for lp in [n for n in walk_local(cfn) if isinstance(n, ast.For) and isinstance(n.target, ast.Name)]:
            it = expand(cfn, lp.iter, cst)
            if not (isinstance(it, (ast.List, ast.Tuple)) and it.elts and all(isinstance(const(e), str) for e in it.elts)):
                continue
            r_ = lp.target.id
            finds = [s_ for s_ in walk_stmts(lp.body) if isinstance(s_, ast.Assign) and isinstance(s_.value, ast.Call)
                     and isinstance(s_.value.func, ast.Attribute) and s_.value.func.attr == 'find' and len(s_.value.args) == 1
                     and U(s_.value.args[0]) == r_ and isinstance(s_.targets[0], ast.Name)]
            if len(finds) != 1:
                continue
            i_, w_ = finds[0].targets[0].id, U(finds[0].value.func.value)
            segs = [t for t in ast.walk(lp) if isinstance(t, ast.Tuple) and len(t.elts) == 2 and const(t.elts[1]) == 'X1']
            if len(segs) == 1 and U(segs[0].elts[0]) == '%s[%s:%s + len(%s)]' % (w_, i_, i_, r_):
                cok = True
    if cok:
        ctx.ok(rule, cq, 'context segment = [i : i+len(r)] where i = find(r), r from the fixed list')
    else:
        ctx.bad(rule, cq, 'context shape', 'context segments come from the fixed list', None, cfn)


def r10_keyboard_single_layout(ctx, rule):
    """Within one run the set of candidate layouts may only be narrowed (a walk is adjacent on ONE keyboard)."""
    q = DET + 'keyboard_walk.py::detect_keyboard_walk'
    fn = ctx.fn(q)
    mod = ctx.repo.modules[q.partition('::')[0]]
    loops = [n for n in fn.body if isinstance(n, ast.For)]
    if not loops:
        ctx.unk(rule, q, 'character loop not found')
        return
    lp = loops[0]
    var = 'keyboard_run_list'
    ok = True
    nsites = 0
    for st in walk_stmts(lp.body):
        tgt = None
        if isinstance(st, ast.Assign) and U(st.targets[0]) == var:
            tgt = st
        if tgt is not None:
            nsites += 1
            conds = [(U(t), p) for t, p in path_conditions(mod, st, stop=lp)]
            fresh = any(c == 'not %s' % var and p or c == var and not p for c, p in conds)
            if not fresh and const(st.value) is NOCONST and not (isinstance(st.value, (ast.List, ast.Dict)) and not getattr(st.value, 'elts', getattr(st.value, 'keys', []))):
                ok = False
                ctx.bad(rule, q, 'candidate layouts re-initialised during a run: %s under %s' % (U(st)[:60], conds),
                        'a keyboard walk must be adjacent on one layout throughout: while a run is in progress the set of '
                        'candidate layouts may only shrink (be intersected with the layouts of the new step); replacing it lets '
                        'a run continue across layouts and labels non-walks as K segments', None, st)
    pops = [c for c in calls_in(lp) if isinstance(c.func, ast.Attribute) and c.func.attr in ('pop', 'remove') and U(c.func.value) == var]
    if not pops:
        ok = False
        ctx.bad(rule, q, 'candidate layouts are never narrowed', 'layouts on which the new step is not adjacent must be dropped', None, lp)
    if ctx.floor(rule, q, nsites, 1, 'assignments of the candidate-layout set') and ok:
        ctx.ok(rule, q, 'candidate layouts are set only when no run is in progress and narrowed otherwise')


def r11_multiword_training_runs(ctx, rule):
    """train(): every alpha run ends at a non-letter; the trie position and the run length restart there."""
    q = DET + 'multiword_detector.py::MultiWordDetector.train'
    fn = ctx.fn(q)
    mod = ctx.repo.modules[q.partition('::')[0]]
    loops = [n for n in fn.body if isinstance(n, ast.For)]
    if not loops:
        ctx.unk(rule, q, 'letter loop not found')
        return
    lp = loops[0]
    ok = True
    resets = {}
    for st in walk_stmts(lp.body):
        if isinstance(st, ast.Assign) and U(st.targets[0]) in ('run_len', 'index') and U(st.value) in ('0', 'self.lookup'):
            conds = [(U(t), p) for t, p in path_conditions(mod, st, stop=lp)]
            resets[U(st)] = conds
    facts = {'resets': resets}
    for want in ('run_len = 0', 'index = self.lookup'):
        conds = resets.get(want)
        if conds is None:
            ok = False
            ctx.bad(rule, q, 'no `%s` at the end of an alpha run' % want, 'a non-letter ends the run', facts, lp)
            continue
        extra = [c for c in conds if 'min_len' in c[0] or 'count' in c[0] or 'threshold' in c[0]]
        if extra:
            ok = False
            ctx.bad(rule, q, '`%s` only under %s' % (want, extra),
                    'the run must restart at every non-letter, also after a run shorter than min_len; otherwise letters on '
                    'both sides of a separator are glued into a base word that never occurred, and later passwords are split '
                    'into parts that were not seen threshold times', facts, lp)
    # the count is recorded only for runs >= min_len
    incs = [st for st in walk_stmts(fn.body) if (isinstance(st, ast.AugAssign) and U(st.target) == "index['count']")
            or (isinstance(st, ast.Assign) and U(st.targets[0]) == "index['count']")]
    for st in incs:
        conds = [U(t) for t, p in path_conditions(mod, st) if p]
        if not any('run_len >= self.min_len' in c for c in conds):
            ok = False
            ctx.bad(rule, q, 'count recorded without the min_len test: ' + U(st)[:40], 'only runs of at least min_len letters are '
                    'base words', facts, st)
    if ok:
        ctx.ok(rule, q, 'every non-letter restarts run length and trie position; counts only for runs >= min_len', facts)


def _validated_input(ctx, rule):
    from . import c07
    return c07.r1b_validate_final_value(ctx, rule)


_SEQ_MUT = {'append', 'extend', 'insert', 'pop', 'remove', 'sort', 'reverse', 'clear'}


def param_mutations(fn, pname):
    """Sites in fn that modify (in place) the object bound to parameter `pname`, through it or a plain alias of it."""
    names = {pname}
    changed = True
    while changed:
        changed = False
        for n in walk_local(fn):
            if isinstance(n, ast.Assign) and isinstance(n.value, ast.Name) and n.value.id in names:
                for t in n.targets:
                    if isinstance(t, ast.Name) and t.id not in names:
                        names.add(t.id)
                        changed = True
    out = []
    for n in walk_local(fn):
        if isinstance(n, ast.Subscript) and isinstance(n.ctx, (ast.Store, ast.Del)) and isinstance(n.value, ast.Name) and n.value.id in names:
            out.append(n)
        elif isinstance(n, ast.Call) and isinstance(n.func, ast.Attribute) and n.func.attr in _SEQ_MUT \
                and isinstance(n.func.value, ast.Name) and n.func.value.id in names:
            out.append(n)
        elif isinstance(n, ast.AugAssign) and isinstance(n.target, ast.Name) and n.target.id in names:
            out.append(n)
    return out


def r14_consumers_read_only(ctx, rule):
    """Once the last detector has run, the section list is only read: the PRINCE tally and the base-structure builder get
    the very list object the terminal counters were tallied from, so a consumer that edits it in place (seed C05-e merged
    adjacent alpha sections for PRINCE) makes the base structure disagree with the counted segments."""
    pq = PARSER + 'parse'
    fn = ctx.fn(pq)
    closure = ctx.resolver.closure(['trainer.py'])
    calls = [c for c in calls_in(fn) if any(isinstance(a, ast.Name) and a.id == 'section_list' for a in c.args)]
    last_det = max([c.lineno for c in calls if call_name(c) == 'other_detection'] or [0])
    if not last_det:
        ctx.unk(rule, pq, 'other_detection(section_list) not found in parse')
        return
    n = 0
    bad = False
    for c in calls:
        if c.lineno <= last_det:
            continue
        tg = [t for t in ctx.resolver.resolve_call(pq, c, closure) if not t.startswith('ext:')]
        if not tg:
            ctx.unk(rule, pq, 'consumer %s of the section list cannot be resolved' % call_name(c))
            bad = True
            continue
        for t in tg:
            tfn = ctx.fn(t)
            pos = [i for i, a in enumerate(c.args) if isinstance(a, ast.Name) and a.id == 'section_list'][0]
            ps = params(tfn)
            if pos >= len(ps):
                continue
            n += 1
            ctx.stats['functions'].add(t)
            muts = param_mutations(tfn, ps[pos])
            if muts:
                bad = True
                ctx.bad(rule, t, 'consumer edits the section list in place: ' + U(muts[0])[:60],
                        'parse() hands the same list object to every consumer after segmentation; the terminal counters were '
                        'already tallied from it, so editing it changes the base structure (and later consumers) without '
                        'changing those tallies', None, muts[0])
    if ctx.floor(rule, pq, n, 2, 'consumers of the final section list') and not bad:
        ctx.ok(rule, pq, 'the %d consumers of the final section list never modify it' % n)


def r15_layout_siblings_agree(ctx, rule):
    """Sibling keyboard tables agree on the column of every key they share in the same row.

    is_next_on_keyboard() treats the list index of a key as its physical column. The number row (and its shifted symbols)
    is physically the same row of keys on every layout, so a character listed in the same-named row of two layout tables
    must have the same index in both; a disagreement means one of the tables is shifted against its letter rows, and that
    layout then accepts non-touching keys as a walk (seed C05-f prepended a key to one layout's number row)."""
    rel = DET + 'keyboard_walk.py'
    m = ctx.repo.mod(rel)
    layouts = {}
    for lname, fn in m.funcs.items():
        for n in walk_local(fn):
            if isinstance(n, ast.Dict) and any(const(k) == 'name' for k in n.keys if k is not None):
                rows = {}
                nm = None
                for k, v in zip(n.keys, n.values):
                    if const(k) == 'name':
                        nm = const(v)
                    elif isinstance(const(k), str) and isinstance(v, ast.List) and all(isinstance(const(e), str) for e in v.elts):
                        rows[const(k)] = [const(e) for e in v.elts]
                if isinstance(nm, str) and rows:
                    layouts[nm] = (rel + '::' + lname, n, rows)
    if not ctx.floor(rule, rel, len(layouts), 2, 'keyboard layout tables'):
        return
    shared = 0
    bad = False
    names = sorted(layouts)
    for i, a in enumerate(names):
        for b in names[i + 1:]:
            qa, na, ra = layouts[a]
            qb, nb, rb = layouts[b]
            for row in sorted(set(ra) & set(rb)):
                for ch in ra[row]:
                    if ch in rb[row]:
                        shared += 1
                        ia, ib = ra[row].index(ch), rb[row].index(ch)
                        if ia != ib and not bad:
                            bad = True
                            ctx.bad(rule, qb, "key %r is column %d of %s on layout %s but column %d on layout %s" % (ch, ib, row, b, ia, a),
                                    'the same physical key cannot be in two columns: one of the tables is shifted against its other '
                                    'rows, so on that layout keys that do not touch are accepted as adjacent (and real walks are '
                                    'missed)', {'row': row, a: ra[row], b: rb[row]}, nb)
        # within one layout a key occurs once
        q, n, rows = layouts[a]
        seen = {}
        for row, keys in rows.items():
            for k in keys:
                if k in seen and not bad:
                    bad = True
                    ctx.bad(rule, q, 'key %r listed twice on layout %s (%s and %s)' % (k, a, seen[k], row),
                            'find_keyboard_row_column returns the first position only; the second listing is dead and its '
                            'neighbours are never adjacent to it', None, n)
                seen[k] = row
    if ctx.floor(rule, rel, shared, 15, 'keys shared by two layouts in the same row') and not bad:
        ctx.ok(rule, rel, '%d keys shared between layouts %s have identical columns; no key is listed twice' % (shared, names))


def r13_memo(ctx, rule):
    from .common import memo_discipline
    memo_discipline(ctx, rule, ['trainer.py'], 'lib_trainer/pcfg_password_parser.py::PCFGPasswordParser.parse')


def r16_nonempty_is_not_long_enough(ctx, rule):
    """Parsing never raises: a constant index k >= 1 (or <= -2) into a local sequence is not justified by a test that only says
    the sequence is non-empty.  Contradiction rule - the code believes it must check before indexing, and checks too little:
    `if rest and rest[1].isdigit()` raises IndexError when exactly one element is left (seed C05-j).  Sites where the guards on
    the way to the index mention the length (len(x) compared, an index compared with len(x) - c) are left to the index-domain
    rules R1/R2."""
    n = 0
    bad = False
    for rel, m in sorted(ctx.repo.modules.items()):
        if not rel.startswith('lib_trainer/detection_rules/'):
            continue
        for lname, fn in sorted(m.funcs.items()):
            q = '%s::%s' % (rel, lname)
            for node in walk_local(fn):
                if not (isinstance(node, ast.Subscript) and isinstance(node.ctx, ast.Load)):
                    continue
                k = const(node.slice)
                if not isinstance(k, int) or isinstance(k, bool) or k in (0, -1):
                    continue
                n += 1
                x = U(node.value)
                # conditions that hold where the index is evaluated: enclosing tests, earlier guards, and - inside an `and` - the
                # operands to the left
                conds = []
                cur = node
                par = m.parents.get(id(cur))
                while par is not None and not isinstance(par, ast.stmt):
                    if isinstance(par, ast.BoolOp) and isinstance(par.op, ast.And):
                        idx = next((i for i, v in enumerate(par.values) if v is cur), None)
                        if idx:
                            conds += [(v, True) for v in par.values[:idx]]
                    if isinstance(par, ast.IfExp) and cur is par.body:
                        conds.append((par.test, True))
                    cur, par = par, m.parents.get(id(par))
                if par is not None:
                    conds += list(path_conditions(m, par))
                    if isinstance(par, ast.If) and not any(cur is t_ for t_ in [par.test]):
                        pass
                mentions_len = any('len(%s)' % x in U(t) for t, pol in conds)
                nonempty = any((U(t) == x and pol) or (U(t) == 'not %s' % x and not pol) or
                               (U(t) in ('len(%s) > 0' % x, 'len(%s) >= 1' % x, 'len(%s) != 0' % x) and pol) for t, pol in conds)
                if nonempty and not any('len(%s)' % x in U(t) and U(t) not in ('len(%s) > 0' % x, 'len(%s) >= 1' % x, 'len(%s) != 0' % x)
                                        for t, pol in conds):
                    bad = True
                    ctx.bad(rule, q, '%s[%d] guarded only by "%s is not empty"' % (x, k, x),
                            'a non-empty sequence has one element for sure, index %d needs %d: the input that leaves exactly %s behind '
                            'raises IndexError out of the detector, and parsing a password must never raise'
                            % (k, k + 1 if k > 0 else -k, 'one element' if abs(k) in (1, 2) else 'fewer elements'), None, node)
    if ctx.floor(rule, 'lib_trainer/detection_rules/', n, 5, 'constant indexes other than 0 / -1 into local sequences') and not bad:
        ctx.ok(rule, 'lib_trainer/detection_rules/', 'no constant index is justified by a mere non-emptiness test (%d sites)' % n)


def _run_scan_skeleton(fn, pred):
    """The part two run detectors share: initial `is_run`, the scan loop up to the statement that fixes end_pos, and the slice that cuts
    the run out.  Returned as a list of (label, text, node) with the class predicate blanked."""
    def norm(x):
        return U(x).replace('.%s()' % pred, '.isclass()')
    out = []
    for st in fn.body:
        if isinstance(st, ast.Assign) and len(st.targets) == 1 and U(st.targets[0]) == 'is_run':
            out.append(('initial is_run', norm(st), st))
    loops = [st for st in fn.body if isinstance(st, ast.For)]
    if len(loops) != 1:
        return None
    lp = loops[0]
    out.append(('scan loop', 'for %s in %s' % (U(lp.target), norm(lp.iter)), lp))
    if len(lp.body) != 2 or not all(isinstance(x, ast.If) for x in lp.body):
        return None
    first, second = lp.body
    out.append(('run start test', norm(first.test), first.test))
    for st in first.body:
        out.append(('run start', norm(st), st))
    out.append(('run end test', norm(second.test), second.test))
    if len(second.body) != 1 or not isinstance(second.body[0], ast.If):
        return None
    inner = second.body[0]
    out.append(('in-run test', norm(inner.test), inner.test))
    seen_end = False
    for st in inner.body:
        if isinstance(st, ast.If) and any(isinstance(a, ast.Assign) and U(a.targets[0]) == 'end_pos' for a in st.body + st.orelse):
            out.append(('end of run', norm(st), st))
            seen_end = True
            break
        if isinstance(st, ast.If) and 'start_pos' in U(st.test):
            out.append(('prefix guard', norm(st.test), st.test))
    if not seen_end:
        return None
    cuts = [n for n in ast.walk(inner) if isinstance(n, ast.Subscript) and isinstance(n.slice, ast.Slice) and n.slice.lower is not None
            and U(n.slice.lower) == 'start_pos']
    if not cuts:
        return None
    out.append(('run slice', '[%s:%s]' % (U(cuts[0].slice.lower), U(cuts[0].slice.upper) if cuts[0].slice.upper is not None else ''), cuts[0]))
    return out


def _same_shape(a, b):
    """two statements that differ only in constants / operators / identifiers"""
    skip = (ast.operator, ast.cmpop, ast.unaryop, ast.boolop, ast.expr_context, ast.UnaryOp)     # a `not` / `-` more or less is an operator-level difference
    ta = [type(n).__name__ for n in ast.walk(a) if not isinstance(n, skip)]
    tb = [type(n).__name__ for n in ast.walk(b) if not isinstance(n, skip)]
    return len(ta) == len(tb) and sum(x != y for x, y in zip(ta, tb)) <= 1


def r21_run_scan_siblings(ctx, rule):
    """detect_digits and detect_alpha find "a maximal run of characters of one class" with the same scan: they must agree on it.

    Both walk the section once; a run starts at the first character of the class (`is_run` False until then), ends at the first character
    that is not of the class or at the end of the string, `end_pos` is `pos` when the last character read still belongs to the run and
    `pos - 1` otherwise, and the run is the slice [start_pos:end_pos + 1].  The two functions are siblings (Engler et al.: cross-check
    implementations of one interface): with the class predicate blanked their skeletons are compared statement by statement.  A pair that
    has the same shape and differs in a constant, an operator or a name is a violation at both sites (one of them is wrong - `end_pos = pos
    + 1` puts two foreign characters into a digit segment, `is_run = True` cuts the run at -1); a skeleton that is not found, or differs in
    more than that, is inconclusive.  (Mutation sweep, third run: ten single-token mutants of the two scans were silent.)"""
    qa = DET + 'alpha_detection.py::detect_alpha'
    qd = DET + 'digit_detection.py::detect_digits'
    fa, fd = ctx.fn(qa), ctx.fn(qd)
    ctx.stats['functions'].update({qa, qd})
    sa_, sd_ = _run_scan_skeleton(fa, 'isalpha'), _run_scan_skeleton(fd, 'isdigit')
    if sa_ is None or sd_ is None:
        ctx.unk(rule, qa if sa_ is None else qd, 'the run scan is not of the shape this rule compares (one loop: start test, end test, end_pos by the last character)')
        return
    if [l for l, _, _ in sa_] != [l for l, _, _ in sd_]:
        ctx.unk(rule, qd, 'the two run scans do not have the same steps: %s / %s' % ([l for l, _, _ in sa_], [l for l, _, _ in sd_]))
        return
    diff = [(la, ta, na, td, nd) for (la, ta, na), (_, td, nd) in zip(sa_, sd_) if ta != td]
    if not diff:
        ctx.ok(rule, qd, 'detect_alpha and detect_digits scan alike (%d steps compared; class predicate blanked)' % len(sa_),
               {'steps': [t for _, t, _ in sd_]})
        return
    small = [d for d in diff if isinstance(d[2], ast.AST) and isinstance(d[4], ast.AST) and _same_shape(d[2], d[4])]
    if len(diff) <= 2 and len(small) == len(diff):
        for la, ta, na, td, nd in diff:
            ctx.bad(rule, qd, '%s: detect_digits `%s`, detect_alpha `%s`' % (la, td.split('\n')[0][:60], ta.split('\n')[0][:60]),
                    'both functions cut a maximal run of one character class out of a section; their scans differ in this step only, so '
                    'one of them no longer finds the run (a segment with foreign characters, a run cut short, or a wrong length label)',
                    {'alpha': ta, 'digits': td}, nd, firm=True)
        return
    ctx.unk(rule, qd, 'the two run scans differ in %d steps in a way this rule does not judge' % len(diff))


def r22_year_kernel(ctx, rule):
    """A 'Y1' segment is four digits that start with 19 or 20.

    detect_year: the candidates are the positions of the prefixes '19' / '20'; a position found in the slice working_string[start:] is made
    absolute (`start_index += start`) before the string is indexed with it; the piece working_string[s:s+4] is emitted as ('Y1') only on
    a path where the characters at s+2 and s+3 are digits.  (Mutation sweep, third run: the offset dropped, the test on s+3 negated - both
    silent, both label non-years as years.)"""
    q = DET + 'year_detection.py::detect_year'
    fn = ctx.fn(q)
    mod = ctx.repo.modules[q.partition('::')[0]]
    ctx.stats['functions'].add(q)
    # the prefixes
    pref = [st for st in walk_stmts(fn.body) if isinstance(st, ast.Assign) and isinstance(st.value, (ast.List, ast.Tuple, ast.Set))
            and st.value.elts and all(isinstance(const(e), str) for e in st.value.elts)]
    pv = [sorted(const(e) for e in st.value.elts) for st in pref]
    # ... or written into the loop header: for prefix in ('19', '20')
    for lp_ in [x for x in walk_local(fn) if isinstance(x, ast.For) and isinstance(x.iter, (ast.List, ast.Tuple, ast.Set)) and x.iter.elts
                and all(isinstance(const(e), str) for e in x.iter.elts)]:
        pref.append(lp_)
        pv.append(sorted(const(e) for e in lp_.iter.elts))
    if ['19', '20'] not in pv:
        if pv:
            ctx.bad(rule, q, 'year prefixes %s' % pv[0], "years are four digits starting 19 or 20", None, pref[0], firm=True)
        else:
            ctx.unk(rule, q, "the list of year prefixes ['19', '20'] was not found")
        return
    # the emission
    emits = [c for c in calls_in(fn) if isinstance(c.func, ast.Attribute) and c.func.attr == 'append' and c.args and isinstance(c.args[0], ast.Tuple)
             and len(c.args[0].elts) == 2 and isinstance(const(c.args[0].elts[1]), str) and const(c.args[0].elts[1]).startswith('Y')]
    if len(emits) != 1:
        ctx.unk(rule, q, 'expected one emission of a Y piece, found %d' % len(emits))
        return
    seg = emits[0].args[0].elts[0]
    if not (isinstance(seg, ast.Subscript) and isinstance(seg.slice, ast.Slice) and seg.slice.lower is not None and seg.slice.upper is not None):
        ctx.unk(rule, q, 'the Y piece is not a slice')
        return
    base, lo = U(seg.value), U(seg.slice.lower)
    try:
        width = lin(seg.slice.upper) - lin(seg.slice.lower)
    except Exception:
        width = None
    if width is None or width.t or width.c != 4:
        ctx.bad(rule, q, 'Y piece %s' % U(seg), 'a year is four characters', None, emits[0], firm=True)
        return
    st_emit = c08._stmt_of(mod, emits[0])
    digits = {}

    def atoms(t, pol):
        # not X -> X with the polarity flipped; (A and B) true -> A, B true; (A or B) false -> A, B false; anything else stays whole
        if isinstance(t, ast.UnaryOp) and isinstance(t.op, ast.Not):
            return atoms(t.operand, not pol)
        if isinstance(t, ast.BoolOp) and ((isinstance(t.op, ast.And) and pol) or (isinstance(t.op, ast.Or) and not pol)):
            return [a for v in t.values for a in atoms(v, pol)]
        return [(t, pol)]
    for t, pol in [a for t0, p0 in path_conditions(mod, st_emit) for a in atoms(t0, p0)]:
        if isinstance(t, ast.Call) and isinstance(t.func, ast.Attribute) and t.func.attr == 'isdigit' and isinstance(t.func.value, ast.Subscript) \
                and U(t.func.value.value) == base:
            try:
                off = lin(t.func.value.slice) - lin(seg.slice.lower)
            except Exception:
                continue
            if not off.t:
                digits[off.c] = pol
        elif isinstance(t, ast.UnaryOp) and isinstance(t.op, ast.Not) and isinstance(t.operand, ast.Call) and isinstance(t.operand.func, ast.Attribute) \
                and t.operand.func.attr == 'isdigit' and isinstance(t.operand.func.value, ast.Subscript) and U(t.operand.func.value.value) == base:
            try:
                off = lin(t.operand.func.value.slice) - lin(seg.slice.lower)
            except Exception:
                continue
            if not off.t:
                digits[off.c] = not pol
    neg = sorted(k for k in (2, 3) if digits.get(k) is False)
    missing = sorted(k for k in (2, 3) if k not in digits)
    if neg:
        ctx.bad(rule, q, 'the Y piece is emitted when the character at +%d is NOT a digit' % neg[0], 'years are four digits', {'tests': {str(k): v for k, v in digits.items()}},
                emits[0], firm=True)
        return
    if missing:
        ctx.unk(rule, q, 'no digit test on the character(s) at +%s on the path to the Y piece (tests seen: %s)' % (missing, digits))
        return
    # relative -> absolute position
    finds = [st for st in walk_stmts(fn.body) if isinstance(st, ast.Assign) and len(st.targets) == 1 and U(st.targets[0]) == lo
             and isinstance(st.value, ast.Call) and isinstance(st.value.func, ast.Attribute) and st.value.func.attr == 'find']
    for f_ in finds:
        recv = f_.value.func.value
        if isinstance(recv, ast.Subscript) and isinstance(recv.slice, ast.Slice) and recv.slice.lower is not None and recv.slice.upper is None:
            off = U(recv.slice.lower)
            par = mod.parents.get(id(f_))
            blk = par.body if any(f_ is x for x in getattr(par, 'body', [])) else getattr(par, 'orelse', [])
            k = [i for i, x in enumerate(blk) if x is f_][0]
            adj = [x for x in blk[k + 1:] if (isinstance(x, ast.AugAssign) and U(x.target) == lo and isinstance(x.op, ast.Add) and U(x.value) == off)
                   or (isinstance(x, ast.Assign) and U(x.targets[0]) == lo and U(x.value) in ('%s + %s' % (lo, off), '%s + %s' % (off, lo)))]
            if not adj:
                ctx.bad(rule, q, '%s is a position in %s and is used as a position in %s' % (lo, U(recv), base),
                        'the index find() returns is relative to the slice searched: without adding %s back every later test and the Y piece look '
                        'at other characters than the ones found' % off, None, f_, firm=True)
                return
        elif isinstance(recv, ast.Subscript):
            ctx.unk(rule, q, 'the prefix is searched in %s, a slice this rule does not follow' % U(recv))
            return
    ctx.ok(rule, q, 'Y piece = %s[s:s+4] under digit tests on s+2 and s+3; prefixes 19 / 20; the found position is made absolute' % base)


def _shared_rule(mod, name, **kw):
    def run(ctx, rule):
        import importlib
        return getattr(importlib.import_module('sa.props.' + mod), name)(ctx, rule, **kw)
    return run


def r23_adjacency_kernel(ctx, rule):
    """The adjacency test of the keyboard walk is a relation on key positions; physical adjacency is SYMMETRIC (if b touches a,
    a touches b), irreflexive and local (at most one row and one column away).  is_next_on_keyboard decides it by an if/elif chain
    over (row, pos) of the previous and the current key: the chain is tabulated over the offsets (drow, dpos) in -3..3 - a finite
    abstract domain, the chain reads nothing else - and the accepted set is checked for those three facts.  (Seed C05-fb merged the
    'one row down' and 'one row up' branches under abs(): going up then accepts the column to the LEFT, so ('/','l','i','7') is
    labelled a walk and the true up-right walks are missed: accepted (-1,-1) without (+1,+1).)"""
    q = DET + 'keyboard_walk.py::is_next_on_keyboard'
    fn = ctx.fn(q)
    ctx.stats['functions'].add(q)
    ps = params(fn)
    loops = [n for n in fn.body if isinstance(n, ast.For)]
    if len(ps) != 2 or len(loops) != 1:
        ctx.unk(rule, q, 'expected two parameters and one loop over the previous positions')
        return
    loop = loops[0]
    # names: `for name, past_data in past.items()`; `cur_data = current[name]`
    if not (isinstance(loop.target, ast.Tuple) and len(loop.target.elts) == 2 and all(isinstance(e, ast.Name) for e in loop.target.elts)):
        ctx.unk(rule, q, 'loop target is not (name, data)')
        return
    pname, pdata = loop.target.elts[0].id, loop.target.elts[1].id
    cdata = None
    for st in loop.body:
        if isinstance(st, ast.Assign) and len(st.targets) == 1 and isinstance(st.targets[0], ast.Name) and isinstance(st.value, ast.Subscript) \
                and U(st.value) == '%s[%s]' % (ps[1], pname):
            cdata = st.targets[0].id
    if cdata is None:
        ctx.unk(rule, q, 'the current key position is not bound from %s[%s]' % (ps[1], pname))
        return

    class Undecided(Exception):
        pass

    def ev(e, env):
        if isinstance(e, ast.Constant) and isinstance(e.value, (int, bool)):
            return e.value
        if isinstance(e, ast.Subscript) and isinstance(e.value, ast.Name) and e.value.id in (pdata, cdata) and const(e.slice) in ('row', 'pos'):
            return env[(e.value.id, const(e.slice))]
        if isinstance(e, ast.Name) and e.id in env:
            return env[e.id]
        if isinstance(e, ast.BinOp) and isinstance(e.op, (ast.Add, ast.Sub)):
            a, b = ev(e.left, env), ev(e.right, env)
            return a + b if isinstance(e.op, ast.Add) else a - b
        if isinstance(e, ast.UnaryOp) and isinstance(e.op, ast.USub):
            return -ev(e.operand, env)
        if isinstance(e, ast.UnaryOp) and isinstance(e.op, ast.Not):
            return not ev(e.operand, env)
        if isinstance(e, ast.Call) and call_name(e) == 'abs' and len(e.args) == 1:
            return abs(ev(e.args[0], env))
        if isinstance(e, ast.BoolOp):
            vals = [ev(v, env) for v in e.values]
            return all(vals) if isinstance(e.op, ast.And) else any(vals)
        if isinstance(e, ast.Compare):
            left = ev(e.left, env)
            for op, r in zip(e.ops, e.comparators):
                if isinstance(op, (ast.In, ast.NotIn)) and isinstance(r, (ast.Tuple, ast.List, ast.Set)):
                    right = [ev(x, env) for x in r.elts]
                    res = (left in right) if isinstance(op, ast.In) else (left not in right)
                    if not res:
                        return False
                    continue
                right = ev(r, env)
                res = {ast.Eq: left == right, ast.NotEq: left != right, ast.Lt: left < right, ast.LtE: left <= right,
                       ast.Gt: left > right, ast.GtE: left >= right}.get(type(op))
                if res is None:
                    raise Undecided(U(e))
                if not res:
                    return False
                left = right
            return True
        raise Undecided(U(e))

    def run(stmts, env):
        """True when a store into the result is executed, False when the pass ends without one."""
        for st in stmts:
            if isinstance(st, ast.If):
                if isinstance(st.test, ast.Compare) and len(st.test.ops) == 1 and isinstance(st.test.ops[0], (ast.In, ast.NotIn)) \
                        and U(st.test.left) == pname:
                    continue            # the same-layout test: both keys are on this layout in the tabulated case
                r = run(st.body if ev(st.test, env) else st.orelse, env)
                if r is not None:
                    return r
            elif isinstance(st, ast.Assign) and len(st.targets) == 1 and isinstance(st.targets[0], ast.Subscript) \
                    and U(st.targets[0].slice) == pname:
                return True
            elif isinstance(st, ast.Assign) and len(st.targets) == 1 and isinstance(st.targets[0], ast.Name):
                if st.targets[0].id == cdata:
                    continue
                env[st.targets[0].id] = ev(st.value, env)
            elif isinstance(st, ast.Continue):
                return False
            elif isinstance(st, (ast.Expr, ast.Pass)) and not any(isinstance(x, ast.Call) for x in ast.walk(st)):
                continue
            else:
                raise Undecided(U(st)[:60])
        return None

    acc = set()
    try:
        for dr in range(-3, 4):
            for dp in range(-3, 4):
                for base_r, base_p in ((5, 5), (2, 7)):
                    env = {(pdata, 'row'): base_r, (pdata, 'pos'): base_p, (cdata, 'row'): base_r + dr, (cdata, 'pos'): base_p + dp}
                    if run(loop.body, env):
                        acc.add((dr, dp))
    except Undecided as e:
        ctx.unk(rule, q, 'the adjacency chain reads something this rule cannot tabulate: %s' % str(e)[:70])
        return
    except (KeyError, TypeError) as e:
        ctx.unk(rule, q, 'the adjacency chain is not a function of (row, pos) of the two keys: %r' % (e,))
        return
    facts = {'accepted_offsets': sorted(acc)}
    if not ctx.floor(rule, q, len(acc), 4, 'accepted (drow, dpos) offsets'):
        return
    probs = []
    if (0, 0) in acc:
        probs.append('the same key counts as a step')
    far = sorted(o for o in acc if abs(o[0]) > 1 or abs(o[1]) > 1)
    if far:
        probs.append('keys %s apart are accepted' % far)
    asym = sorted(o for o in acc if (-o[0], -o[1]) not in acc)
    if asym:
        probs.append('offset(s) %s accepted but not the way back' % asym)
    if probs:
        ctx.bad(rule, q, 'adjacency relation: ' + '; '.join(probs), 'touching keys is a symmetric, irreflexive, local relation: a K '
                'segment must be a walk over keys that touch, and the same walk typed backwards must be recognised too', facts, loop, firm=True)
    else:
        ctx.ok(rule, q, 'accepted offsets %s: symmetric, irreflexive, within one row and one column' % sorted(acc), facts)


def r24_optional_results(ctx, rule):
    from .common import optional_results_checked
    optional_results_checked(ctx, rule, [DET, 'lib_trainer/pcfg_password_parser.py'], 1, 'parsing never raises: a detector that '
                             'meets None where it expects a container aborts the whole training run on the first such password')


def r25_recursive_merge(ctx, rule):
    """What the recursive call of detect_keyboard_walk found in the rest of the password is merged into the caller's results as a
    whole: the sections into the section list, the walks into the found list (the list the K counters are fed from) - each merge
    unconditional, or guarded by nothing but the emptiness of what is merged.  (Seed C06-ga guarded `found_list.extend(temp_found)`
    by `temp_detected_keyboards`: when the rest contains a character on no layout, the second walk is labelled K<n> in the base
    structure and never counted in Keyboard/<n>.txt.)"""
    q = DET + 'keyboard_walk.py::detect_keyboard_walk'
    fn = ctx.fn(q)
    mod = ctx.repo.modules[q.partition('::')[0]]
    ctx.stats['functions'].add(q)
    recs = [st for st in walk_local(fn) if isinstance(st, ast.Assign) and isinstance(st.value, ast.Call)
            and call_name(st.value) == 'detect_keyboard_walk' and len(st.targets) == 1 and isinstance(st.targets[0], ast.Tuple)]
    if not ctx.floor(rule, q, len(recs), 1, 'recursive calls with an unpacked result'):
        return
    ok = True
    n = 0
    for rec in recs:
        names = [e.id for e in rec.targets[0].elts if isinstance(e, ast.Name)]
        base = {U(t) + str(pol) for t, pol in path_conditions(mod, rec)}
        for st in walk_local(fn):
            merged = None
            if isinstance(st, ast.Expr) and isinstance(st.value, ast.Call) and isinstance(st.value.func, ast.Attribute) \
                    and st.value.func.attr == 'extend' and st.value.args and isinstance(st.value.args[0], ast.Name) and st.value.args[0].id in names:
                merged = st.value.args[0].id
            elif isinstance(st, ast.AugAssign) and isinstance(st.op, ast.Add) and isinstance(st.value, ast.Name) and st.value.id in names:
                merged = st.value.id
            if merged is None:
                continue
            n += 1
            for t, pol in path_conditions(mod, st):
                if U(t) + str(pol) in base:
                    continue
                own = {x.id for x in ast.walk(t) if isinstance(x, ast.Name)} - {'len'}
                if own == {merged}:
                    continue            # `if temp_found:` / `if len(temp_found) > 0:` - merging nothing is no merge
                if any(U(t) == U(t2) for t2, _ in path_conditions(mod, rec)):
                    continue
                ok = False
                ctx.bad(rule, q, '%s is merged only if %s%s' % (merged, '' if pol else 'not ', U(t)[:50]),
                        'a walk the recursive call labelled K<n> in the section list is in the found list too: the counters are fed from the '
                        'found list, the base structure from the section list - a merge that depends on anything but the merged list itself '
                        'lets the two disagree', None, st, firm=True)
    if ctx.floor(rule, q, n, 2, 'merges of the recursive result') and ok:
        ctx.ok(rule, q, 'the %d merges of the recursive result are unconditional or guarded by the emptiness of the merged list only' % n)


def rules(tier):
    return [('C05.R1', r1_splice_discipline), ('C05.R2', r2_slice_tiling), ('C05.R4', r4_multiword_parts),
            ('C05.R5', r5_totality), ('C05.R6', r6_counter_pairing), ('C05.R7', r7_index_space), ('C05.R8', r8_constants),
            ('C05.R10', r10_keyboard_single_layout),
            ('C05.R11', r11_multiword_training_runs), ('C05.R12', _validated_input),
            ('C05.R13', r13_memo), ('C05.R14', r14_consumers_read_only),
            ('C05.R15', r15_layout_siblings_agree), ('C05.R16', r16_nonempty_is_not_long_enough),
            # C05-ca: second pass without --prefixcount: the raw '6 password' line is segmented
            ('C05.R17', _shared_rule('c19', 'r1_three_passes')),
            # C05-da: found_providers, found_emails = email_detection(..) - the e-mail and provider counters swap contents
            ('C05.R18', _shared_rule('plumbing', 'unpack_order')),
            # mutation sweep: counters are exactly the tallies of the segments
            ('C05.R19', _shared_rule('c06', 'r21_unit_tallies')),
            # C05-eb: interesting_keyboard deletes a leading 'e' from the caller's run in place
            ('C05.R20', _shared_rule('plumbing', 'read_only_helpers')),
            # mutation sweep (third run): single-token slips in the run scans of detect_digits / detect_alpha
            ('C05.R21', r21_run_scan_siblings),
            # mutation sweep (third run): the year kernel
            ('C05.R22', r22_year_kernel),
            # C05-fb: 'one row up' folded into 'one row down' under abs()
            ('C05.R23', r23_adjacency_kernel),
            # C05-fa: find_keyboard_row_column returns None for blanks; one of three uses in the caller is guarded
            ('C05.R24', r24_optional_results),
            # C06-ga: the walks of the recursive call merged only when the recursive call detected a layout
            ('C05.R25', r25_recursive_merge),
            ('C05.R26', _shared_rule('c03', 'r22_other_label_and_count'))]


META = {
    'explanation': 'Index-domain proof obligations on the detectors: six sibling drivers obey the splice discipline (only '
                   'unlabelled sections, replace exactly index i, advance by one or re-examine); in every detect_* the appended '
                   'pieces tile [0, len) (lo_0 = 0, hi_k = lo_k+1, last hi = len) with emptiness guards that are exactly the '
                   'emptiness of their slice; length labels equal slice lengths; multi-word parts are complementary slices with '
                   'threshold tests; other_detection labels everything left; detector partial order; counter pairing; '
                   'index-space rule (indexes from a case-mapped copy must not slice the original); named constants.',
    'trusted_base': ['python ast', 'linear normal form of index expressions', 'len(x.lower()) == len(x) except for the flagged sites'],
    'assumptions': ['keyboard walk: cur_combo holds the last len(cur_combo) characters before index (shape-checked)'],
    'not_decided': 'soundness of the keyboard-walk adjacency and multi-word training heuristics on arbitrary strings',
    'technique': 'index/slice domain (linear normal forms) tiling check + sibling-template comparison + taint-style index-space rule',
}

META['explanation'] += ' ' + "Further: memoised functions' results are never mutated in place; consumers of the final section list are read-only; sibling keyboard tables agree on the column of every shared key."

META['explanation'] += ' ' + 'Round 13: the adjacency chain of is_next_on_keyboard, tabulated over the key offsets (drow, dpos), is symmetric, irreflexive and local; a local bound to the result of a detector helper that can return None is used only under a presence guard.'
META['technique'] = META.get('technique', '') + ' + finite tabulation of the adjacency chain over key offsets (symmetry / locality) + optional-result guard rule'
META['explanation'] += ' ' + 'Round 14: every merge of the recursive keyboard-walk result is unconditional or guarded by the emptiness of the merged list; the last detector leaves no section untyped.'
