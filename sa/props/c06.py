"""C06 - the saved grammar is the relative-frequency model of the segmentation (DESIGN section 4, C06)."""
import ast
from fractions import Fraction

from ..core import (U, walk_local, calls_in, call_name, const, NOCONST, params, stores_in, single_def, expand,
                    walk_stmts, arg_for, kwarg, path_conditions, enclosing_stmt_chain, dotted)
from ..effects import nondet_source
from . import c07, c08

CP = 'lib_trainer/calculate_probabilities.py::calculate_probabilities'
SPD = 'lib_trainer/save_pcfg_data.py::'
RT = 'lib_trainer/run_trainer.py::run_trainer'
PARSER = 'lib_trainer/pcfg_password_parser.py::PCFGPasswordParser.'
BS = 'lib_trainer/base_structure.py::base_structure_creation'


def r1_relative_frequency(ctx, rule):
    """calculate_probabilities(counter) = [(item, count / sum(counter.values())) for (item, count) in counter.most_common()].

    Accepted spellings: the in-place rewrite of the most_common() list (`for i, v in enumerate(L): L[i] = (v[0], v[1] / T)`),
    a list comprehension over counter.most_common() (element bound to one name or unpacked), an early `return []` for an
    empty counter.  Anything else that is understood but different is a violation; anything not understood is inconclusive."""
    fn = ctx.fn(CP)
    cn = params(fn)[0]
    stores = stores_in(fn)
    body = [st for st in fn.body if not (isinstance(st, ast.Expr) and isinstance(st.value, ast.Constant))]
    facts = {}
    # early exits: only `if not counter: return []`
    for st in body:
        if isinstance(st, ast.If):
            if U(st.test) in ('not %s' % cn, 'len(%s) == 0' % cn) and len(st.body) == 1 and isinstance(st.body[0], ast.Return) \
                    and U(st.body[0].value) == '[]' and not st.orelse:
                continue
            ctx.bad(rule, CP, 'conditional in calculate_probabilities: if %s' % U(st.test)[:50], 'every item of the counter gets '
                    'count / total; nothing is filtered or special-cased', facts, st)
            return
    rets = [st for st in body if isinstance(st, ast.Return) and st.value is not None]
    if not rets:
        ctx.unk(rule, CP, 'no return value found')
        return
    final = rets[-1]
    val = expand(fn, final.value, stores) if isinstance(final.value, ast.Name) else final.value

    def total_ok(t):
        te = expand(fn, t, stores)
        return U(te) == 'sum(%s.values())' % cn
    ok = None
    if isinstance(val, ast.ListComp) and len(val.generators) == 1 and not val.generators[0].ifs:
        g = val.generators[0]
        src = expand(fn, g.iter, stores)
        facts['comprehension'] = U(val)
        if U(src) != '%s.most_common()' % cn:
            ok = False
        elif isinstance(val.elt, ast.Tuple) and len(val.elt.elts) == 2 and isinstance(val.elt.elts[1], ast.BinOp) \
                and isinstance(val.elt.elts[1].op, ast.Div):
            e0, num, den = val.elt.elts[0], val.elt.elts[1].left, val.elt.elts[1].right
            if isinstance(g.target, ast.Tuple) and len(g.target.elts) == 2:
                ok = U(e0) == U(g.target.elts[0]) and U(num) == U(g.target.elts[1]) and total_ok(den)
            elif isinstance(g.target, ast.Name):
                v = g.target.id
                ok = U(e0) == '%s[0]' % v and U(num) == '%s[1]' % v and total_ok(den)
        else:
            ok = False
    elif isinstance(final.value, ast.Name):
        L = final.value.id
        defs = [v for s_, v in stores.get(L, []) if v is not None]
        loops = [s_ for s_ in body if isinstance(s_, ast.For)]
        facts['list'] = [U(d) for d in defs]
        if [U(d) for d in defs] == ['%s.most_common()' % cn] and len(loops) == 1:
            l = loops[0]
            if U(l.iter) == 'enumerate(%s)' % L and isinstance(l.target, ast.Tuple) and len(l.body) == 1:
                i, v = U(l.target.elts[0]), U(l.target.elts[1])
                s_ = l.body[0]
                facts['update'] = U(s_)
                if isinstance(s_, ast.Assign) and U(s_.targets[0]) == '%s[%s]' % (L, i) and isinstance(s_.value, ast.Tuple) \
                        and len(s_.value.elts) == 2 and isinstance(s_.value.elts[1], ast.BinOp) and isinstance(s_.value.elts[1].op, ast.Div):
                    ok = U(s_.value.elts[0]) == '%s[0]' % v and U(s_.value.elts[1].left) == '%s[1]' % v and total_ok(s_.value.elts[1].right)
                else:
                    ok = False
        elif defs and not any(U(d) == '%s.most_common()' % cn for d in defs) and all(isinstance(d, (ast.Call, ast.ListComp, ast.List)) for d in defs):
            # understood and different: the list does not come from most_common()
            ok = False if any('sorted' in U(d) or 'items()' in U(d) or 'most_common' in U(d) for d in defs) else None
    if ok is True:
        ctx.ok(rule, CP, 'returns most_common() order with (value, count / sum(counts)) element-wise', facts)
    elif ok is False:
        ctx.bad(rule, CP, 'probability list %s' % (facts.get('comprehension') or facts.get('update') or facts.get('list')),
                'each item keeps its most_common() position (descending count, stable) and gets count / sum of all counts of the '
                'same counter', facts, fn)
    else:
        ctx.unk(rule, CP, 'calculate_probabilities is not in a recognised form (in-place rewrite or comprehension over most_common())')


def r2_all_items_written(ctx, rule):
    q = SPD + 'calculate_and_save_counter'
    fn = ctx.fn(q)
    ps = params(fn)
    pl = [U(s.targets[0]) for s in walk_stmts(fn.body) if isinstance(s, ast.Assign) and U(s.value) == 'calculate_probabilities(%s)' % ps[1]]
    loops = [n for n in walk_local(fn) if isinstance(n, ast.For)]
    if len(pl) != 1 or len(loops) != 1 or U(loops[0].iter) != pl[0]:
        ctx.bad(rule, q, 'write loop over %s' % [U(l.iter) for l in loops], 'every (value, probability) pair of the counter must '
                'be written once, in order', None, fn)
        return
    l = loops[0]
    if len(l.body) == 1 and isinstance(l.body[0], ast.Expr) and isinstance(l.body[0].value, ast.Call) \
            and isinstance(l.body[0].value.func, ast.Attribute) and l.body[0].value.func.attr == 'write':
        ctx.ok(rule, q, 'one write per element of calculate_probabilities(counter), in list order')
    else:
        ctx.bad(rule, q, 'write loop body ' + U(l.body)[:80], 'no element may be skipped, filtered or written twice', None, l)


def _eval_frac(node, env):
    if isinstance(node, ast.Constant) and isinstance(node.value, (int, float)) and not isinstance(node.value, bool):
        return Fraction(node.value)
    if isinstance(node, ast.BinOp):
        a, b = _eval_frac(node.left, env), _eval_frac(node.right, env)
        if a is None or b is None:
            return None
        if isinstance(node.op, ast.Add):
            return a + b
        if isinstance(node.op, ast.Sub):
            return a - b
        if isinstance(node.op, ast.Mult):
            return a * b
        if isinstance(node.op, ast.Div):
            return a / b if b != 0 else None
        return None
    if isinstance(node, ast.UnaryOp) and isinstance(node.op, ast.USub):
        v = _eval_frac(node.operand, env)
        return None if v is None else -v
    t = U(node)
    return env.get(t)


def r4_coverage_algebra(ctx, rule):
    fn = ctx.fn(RT)
    mod = ctx.repo.modules[RT.partition('::')[0]]
    cov = "program_info['coverage']"
    stores = stores_in(fn)
    nvars = [nm for nm, lst in stores.items() if any(v is not None and isinstance(v, ast.Attribute) and v.attr == 'num_passwords' for s, v in lst)]
    N = nvars[0] if nvars else None
    msets = []
    for st in walk_stmts(fn.body):
        if isinstance(st, ast.Assign) and isinstance(st.targets[0], ast.Subscript) and const(st.targets[0].slice) == 'M' \
                and 'count_base_structures' in U(st.targets[0].value):
            msets.append(st)
    facts = {'N': N, 'M_assignments': [U(s) for s in msets]}
    if N is None or len(msets) != 2:
        ctx.bad(rule, RT, "%d assignments of count_base_structures['M']" % len(msets),
                "the Markov structure gets pseudo-count 1 as the only structure for coverage 0, and N*(1/coverage - 1) otherwise",
                facts, fn)
        return
    ok = True
    for st in msets:
        conds = [(U(t), p) for t, p in path_conditions(mod, st)]
        facts.setdefault('conditions', []).append(conds)
        under_ne1 = any(c in ('%s != 1' % cov, '%s != 1.0' % cov) and p for c, p in conds) or \
            any(c in ('%s == 1' % cov,) and not p for c, p in conds)
        if not under_ne1:
            ok = False
            ctx.bad(rule, RT, 'M inserted under %s' % conds, "for coverage 1 the Markov structure must be absent", facts, st)
        is0 = any(c == '%s == 0' % cov and p for c, p in conds)
        not0 = any(c == '%s == 0' % cov and not p for c, p in conds)
        if is0:
            # clear + 1
            par = mod.parents.get(id(st))
            blk = par.body if isinstance(par, ast.If) else []
            cleared = any(isinstance(s, ast.Expr) and isinstance(s.value, ast.Call) and U(s.value.func).endswith('count_base_structures.clear')
                          for s in blk if s.lineno < st.lineno)
            if not cleared or const(st.value) != 1:
                ok = False
                ctx.bad(rule, RT, 'coverage 0 branch: ' + U(st), 'for coverage 0 every other structure must be removed and M '
                        'be the only one', facts, st)
        elif not0:
            expr = expand(fn, st.value, stores)
            good = True
            for n_, c_ in ((7, Fraction(1, 2)), (10, Fraction(1, 4)), (3, Fraction(9, 10)), (100, Fraction(1, 3))):
                env = {N: Fraction(n_), cov: c_}
                for s_, v_ in stores.get(N, []):
                    if v_ is not None:
                        env[U(v_)] = Fraction(n_)
                v = _eval_frac(expr, env)
                if v is None or v != n_ * (1 / c_ - 1):
                    good = False
            facts['pseudo_count'] = U(expr)
            if not good:
                ok = False
                ctx.bad(rule, RT, 'Markov pseudo-count = ' + U(expr), 'must equal N * (1/coverage - 1) with N the number of '
                        'training passwords (checked as a rational function at 4 sample points)', facts, st)
        else:
            ok = False
            ctx.bad(rule, RT, 'M assignment not split on coverage == 0: %s' % conds, 'coverage 0 and 0 < coverage < 1 need '
                    'different handling', facts, st)
    # the insertion happens before the grammar is saved
    saves = [c for c in calls_in(fn) if call_name(c) == 'save_pcfg_data']
    if not saves or any(s.lineno > saves[0].lineno for s in msets):
        ok = False
        ctx.bad(rule, RT, 'M inserted after save_pcfg_data', 'the pseudo-count must be part of the saved list', facts, fn)
    # every path from the `coverage != 1` branch to the save passes through one of the two insertions (seed C06-f: an
    # error branch that falls through saves a ruleset without M although coverage != 1)
    from ..cfg import CFG
    cfg = CFG(fn)
    tests = [nid for nid, n in cfg.nodes.items() if n.kind == 'test' and isinstance(n.stmt, ast.If)
             and U(n.stmt.test) in ('%s != 1' % cov, '%s != 1.0' % cov, '%s == 1' % cov)]
    save_n = None
    for c in saves[:1]:
        cur = c
        while cur is not None and cfg.node_of(cur) is None:
            cur = mod.parents.get(id(cur))
        save_n = cfg.node_of(cur) if cur is not None else None
    if len(tests) != 1 or save_n is None:
        ok = False
        ctx.unk(rule, RT, 'cannot locate the single coverage != 1 test and the save_pcfg_data call in the flow graph')
    else:
        t = tests[0]
        lab = 'F' if U(cfg.nodes[t].stmt.test).endswith('== 1') else 'T'
        mn = {cfg.node_of(st) for st in msets}
        for b, l in cfg.succ[t]:
            if l != lab:
                continue
            ctx.stats['paths'] += 1
            if b not in mn and not cfg.every_path_passes(b, save_n, mn):
                ok = False
                w = cfg.witness_path(b, save_n, avoid=list(mn))
                facts['witness'] = cfg.describe(w) if w else None
                ctx.bad(rule, RT, "path from coverage != 1 to save_pcfg_data without count_base_structures['M'] = ...",
                        'when coverage is not 1 the saved base-structure list must contain the Markov structure with its '
                        'pseudo-count: every path that reaches the save must pass through one of the insertions (or leave '
                        'run_trainer)', facts, cfg.nodes[t].stmt)
    if ok:
        ctx.ok(rule, RT, "coverage != 1 guards the insertion; coverage 0 -> only M; else M = N/c - N; every path from the "
               "guard to the save inserts M", facts)


def r21_unit_tallies(ctx, rule):
    """Every tally is by one, every found item is tallied, and the base structure is the string of LABELS.

    In PCFGPasswordParser.parse (and its length-indexed helper) every `self.count_*[k] += c` has c == 1 (a relative frequency is
    count / total: 2 for one kind of item and 1 for the others is another model); every list a detector returns next to the
    section list is consumed by a loop that tallies each element, or by the length-indexed helper; base_structure_creation joins
    `section[1]` - the label - of every section.  (Mutation sweep: `+= 2`, a deleted tally, `base_structure.append(section[0])`
    were all silent before this rule.)"""
    q = PARSER + 'parse'
    fn = ctx.fn(q)
    ctx.stats['functions'].add(q)
    ok = True
    n = 0
    helper = ctx.repo.modules[q.partition('::')[0]].funcs.get('PCFGPasswordParser._update_counter_len_indexed')
    for f_ in [fn] + ([helper] if helper is not None else []):
        for st in walk_local(f_):
            if isinstance(st, ast.AugAssign) and isinstance(st.target, ast.Subscript) and isinstance(st.op, ast.Add) \
                    and ('count' in U(st.target.value) or 'counter' in U(st.target.value)):
                n += 1
                if const(st.value) != 1 or isinstance(const(st.value), bool):
                    ok = False
                    ctx.bad(rule, q, 'tally %s += %s' % (U(st.target)[:50], U(st.value)[:20]), 'every occurrence counts once', None, st, firm=True)
    # found lists are consumed
    found = {}
    for st in walk_local(fn):
        if isinstance(st, ast.Assign) and isinstance(st.value, ast.Call) and call_name(st.value) and not call_name(st.value).startswith('self.') \
                and any(U(a) == 'section_list' for a in st.value.args):
            tg = st.targets[0]
            names = [e.id for e in tg.elts if isinstance(e, ast.Name)] if isinstance(tg, ast.Tuple) else ([tg.id] if isinstance(tg, ast.Name) else [])
            for nm in names:
                if nm != 'section_list' and nm.startswith('found'):
                    found[nm] = st
    consumed = set()
    for st in walk_local(fn):
        if isinstance(st, ast.For) and isinstance(st.iter, ast.Name) and st.iter.id in found and isinstance(st.target, ast.Name):
            v = st.target.id
            if any(isinstance(b, ast.AugAssign) and isinstance(b.target, ast.Subscript) and U(b.target.slice) == v and 'count' in U(b.target.value)
                   for b in st.body):
                consumed.add(st.iter.id)
        if isinstance(st, ast.Call) and call_name(st) == 'self._update_counter_len_indexed' and len(st.args) == 2 and isinstance(st.args[1], ast.Name):
            consumed.add(st.args[1].id)
        # Counter.update(<list>) tallies every element once as well
        if isinstance(st, ast.Call) and isinstance(st.func, ast.Attribute) and st.func.attr == 'update' and 'count' in U(st.func.value) \
                and len(st.args) == 1 and isinstance(st.args[0], ast.Name):
            consumed.add(st.args[0].id)
        # any other use (passed to a helper, iterated by a comprehension) is not judged
        if isinstance(st, ast.Call) and not (call_name(st) or '').endswith(('_detection', 'detect')):
            for a in st.args:
                if isinstance(a, ast.Name) and a.id in found and call_name(st) not in ('print', 'len'):
                    consumed.add(a.id)
        if isinstance(st, (ast.ListComp, ast.GeneratorExp, ast.SetComp, ast.DictComp)):
            for g in st.generators:
                if isinstance(g.iter, ast.Name) and g.iter.id in found:
                    consumed.add(g.iter.id)
    for nm in sorted(set(found) - consumed):
        ok = False
        ctx.bad(rule, q, 'the items in %s are never tallied' % nm, 'what a detector finds is counted: the list is looped over with '
                '`self.count_..[item] += 1` or handed to the length-indexed helper', None, found[nm], firm=True)
    # labels
    bfn = ctx.fn(BS)
    ctx.stats['functions'].add(BS)
    loops = [l for l in walk_local(bfn) if isinstance(l, ast.For) and U(l.iter) == params(bfn)[0] and isinstance(l.target, ast.Name)]
    apps = [c for l in loops for c in calls_in(l) if isinstance(c.func, ast.Attribute) and c.func.attr == 'append' and len(c.args) == 1]
    if len(loops) == 1 and len(apps) == 1:
        sv = loops[0].target.id
        if U(apps[0].args[0]) != '%s[1]' % sv:
            ok = False
            ctx.bad(rule, BS, 'the base structure collects %s' % U(apps[0].args[0]), 'a base structure is the sequence of the section LABELS '
                    '(second component of a section)', None, apps[0], firm=True)
    elif not any(isinstance(x, (ast.ListComp, ast.GeneratorExp)) for x in ast.walk(bfn)):
        ctx.unk(rule, BS, 'the way base_structure_creation collects the labels is not of a form this rule knows')
        ok = False
    if ctx.floor(rule, q, n + len(consumed), 8, 'tally statements and consumed result lists') and ctx.floor(rule, q, len(found), 8, 'detector result lists') and ok:
        ctx.ok(rule, q, '%d tallies by one; %d detector result lists all consumed; base structure = labels' % (n, len(found)))


def r5_supported_only(ctx, rule):
    q = PARSER + 'parse'
    fn = ctx.fn(q)
    mod = ctx.repo.modules[q.partition('::')[0]]
    call = [s for s in fn.body if isinstance(s, ast.Assign) and isinstance(s.value, ast.Call) and call_name(s.value) == 'base_structure_creation']
    if len(call) != 1 or not isinstance(call[0].targets[0], ast.Tuple):
        ctx.unk(rule, q, 'base_structure_creation call not found')
        return
    flag, bs = [U(e) for e in call[0].targets[0].elts]
    ok = True
    incs = [s for s in walk_stmts(fn.body) if isinstance(s, ast.AugAssign) and isinstance(s.target, ast.Subscript) and U(s.target.slice) == bs]
    seen = {}
    from ..core import quiet_conditions
    for s in incs:
        # a new guard that RAISES (a type check on the argument) aborts training loudly; it does not skew a tally
        conds = [(U(t), p) for t, p in quiet_conditions(mod, s)]
        seen[U(s.target.value)] = conds
    facts = {'increments': seen}
    if seen.get('self.count_base_structures') != [(flag, True)] or seen.get('self.count_raw_base_structures') != []:
        ok = False
        ctx.bad(rule, q, 'base-structure tallies %s' % seen, 'structures with e-mail/website segments go only to the raw list; '
                'every structure goes to the raw list', facts, fn)
    bq = BS
    bfn = ctx.fn(bq)
    bmod = ctx.repo.modules[bq.partition('::')[0]]
    rets = [s for s in walk_local(bfn) if isinstance(s, ast.Return)]
    fname = U(rets[-1].value.elts[0]) if rets and isinstance(rets[-1].value, ast.Tuple) else None
    assigns = [s for s in walk_stmts(bfn.body) if isinstance(s, ast.Assign) and U(s.targets[0]) == fname]
    facts['flag_assignments'] = [U(s) for s in assigns]
    good = fname is not None
    # quantifier form: is_supported = not any(<label>[0] in ['W','E'] for <section> in <all sections>)  /  all(... not in ...)
    quant = None
    if len(assigns) == 1:
        v = assigns[0].value
        neg = False
        if isinstance(v, ast.UnaryOp) and isinstance(v.op, ast.Not):
            v, neg = v.operand, True
        if isinstance(v, ast.Call) and call_name(v) in ('any', 'all') and len(v.args) == 1 and isinstance(v.args[0], (ast.GeneratorExp, ast.ListComp)) \
                and len(v.args[0].generators) == 1 and not v.args[0].generators[0].ifs:
            g = v.args[0].generators[0]
            e = v.args[0].elt
            over_all = U(g.iter) == params(bfn)[0]
            if isinstance(e, ast.Compare) and len(e.ops) == 1 and isinstance(e.comparators[0], (ast.List, ast.Tuple, ast.Set, ast.Constant)) \
                    and U(e.left).endswith('[1][0]'):
                letters = set(const(x) for x in e.comparators[0].elts) if not isinstance(e.comparators[0], ast.Constant) else set(e.comparators[0].value)
                is_in = isinstance(e.ops[0], ast.In)
                # supported iff no label starts with E/W
                quant = over_all and letters == {'E', 'W'} and ((call_name(v) == 'any' and neg and is_in) or
                                                                (call_name(v) == 'all' and not neg and isinstance(e.ops[0], ast.NotIn)))
    if quant is True:
        ctx.ok(rule, bq, 'is_supported = no section label starts with E/W (quantifier over all sections)', facts)
        if ok:
            ctx.ok(rule, q, 'supported structures -> both lists; unsupported -> raw list only', facts)
        return
    init = [s for s in assigns if const(s.value) is True and mod is not None and not any(isinstance(a, (ast.For, ast.While)) for a in enclosing_stmt_chain(bmod, s))]
    clears = [s for s in assigns if s not in init]
    if len(init) != 1:
        good = False
    for s in clears:
        conds = [(U(t), p) for t, p in path_conditions(bmod, s)]
        ew = any(("in ['W', 'E']" in c or "in ['E', 'W']" in c or "in ('W', 'E')" in c or "in ('E', 'W')" in c or "in 'WE'" in c or "in 'EW'" in c)
                 and '[1][0]' in c and p for c, p in conds)
        if const(s.value) is not False or not ew:
            good = False
    if not clears:
        good = False
    if good:
        ctx.ok(rule, bq, 'is_supported starts True and is only ever cleared (constant False) for a label starting with E/W', facts)
    else:
        ok = False
        ctx.bad(rule, bq, 'supported flag assignments %s' % facts['flag_assignments'],
                'the flag must be monotone: once a section is an e-mail/website the structure stays unsupported; assigning '
                'the test result per section lets a later section switch it back on', facts, bfn)
    if ok:
        ctx.ok(rule, q, 'count_base_structures incremented iff supported; raw list always', facts)


def _is_set_expr(v):
    return isinstance(v, (ast.Set, ast.SetComp)) or (isinstance(v, ast.Call) and call_name(v) in ('set', 'frozenset'))


def r6_determinism(ctx, rule):
    cg = ctx.cg
    closure = ctx.resolver.closure(['trainer.py'])
    ctx.fn(RT)
    par = cg.reach([RT], closure)
    bad = False
    ncalls = 0
    set_returning = set()
    for q in sorted(par):
        ctx.stats['functions'].add(q)
        fn = ctx.repo.fn(q)
        mod = ctx.repo.modules[q.partition('::')[0]]
        for call, tgts in cg.calls(q, closure):
            ncalls += 1
            for t in tgts:
                if t.startswith('ext:') and nondet_source(t[4:]):
                    # allowed: uuid4 flowing only into the config option 'uuid'
                    p = mod.parents.get(id(call))
                    chain = [call]
                    while p is not None and isinstance(p, ast.Call) and call_name(p) in ('str',):
                        chain.append(p)
                        p = mod.parents.get(id(p))
                    okk = t[4:] in ('uuid.uuid4',) and isinstance(p, ast.Call) and isinstance(p.func, ast.Attribute) \
                        and p.func.attr == 'set' and len(p.args) == 3 and const(p.args[1]) == 'uuid'
                    if not okk:
                        bad = True
                        ctx.bad(rule, q, 'nondeterminism source ' + t[4:], 'training must be a deterministic function of input '
                                'and options apart from the uuid (path %s)' % ' -> '.join(cg.path_to(par, q)), None, call)
        for n in walk_local(fn):
            if isinstance(n, (ast.For, ast.comprehension)):
                it = n.iter
                if isinstance(it, (ast.Set, ast.SetComp)) or (isinstance(it, ast.Call) and call_name(it) in ('set', 'frozenset')):
                    bad = True
                    ctx.bad(rule, q, 'iterates a set: ' + U(it)[:50], 'iteration order of a set of strings varies between runs '
                            '(hash randomisation) and can reach the written files', None, it)
            if isinstance(n, ast.Return) and n.value is not None and (_is_set_expr(n.value) or (
                    isinstance(n.value, ast.Name) and any(v is not None and _is_set_expr(v) for s_, v in stores_in(fn).get(n.value.id, [])))):
                set_returning.add(q)
            if isinstance(n, ast.Call) and call_name(n) in ('os.listdir', 'glob.glob', 'os.scandir'):
                bad = True
                ctx.bad(rule, q, 'directory listing ' + U(n)[:40], 'listing order is not deterministic', None, n)
    # second pass: iteration over values that are sets (set displays / set() / results of set-returning functions)
    for q in sorted(par):
        fn = ctx.repo.fn(q)
        setnames = set()
        for nm, lst in stores_in(fn).items():
            for s_, v in lst:
                if v is None:
                    continue
                if _is_set_expr(v):
                    setnames.add(nm)
                if isinstance(v, ast.Call):
                    tg = ctx.resolver.resolve_call(q, v, closure)
                    if any(t in set_returning for t in tg):
                        setnames.add(nm)
        for n in walk_local(fn):
            its = []
            if isinstance(n, (ast.For, ast.comprehension)):
                its.append(n.iter)
            if isinstance(n, ast.Call) and call_name(n) in ('list', 'tuple', 'enumerate', 'iter', 'next') and n.args:
                its.append(n.args[0])
            if isinstance(n, ast.Call) and isinstance(n.func, ast.Attribute) and n.func.attr == 'join' and n.args:
                its.append(n.args[0])
            for it in its:
                hit = (isinstance(it, ast.Name) and it.id in setnames)
                if isinstance(it, ast.Call):
                    tg = ctx.resolver.resolve_call(q, it, closure)
                    hit = hit or any(t in set_returning for t in tg)
                if hit:
                    bad = True
                    ctx.bad(rule, q, 'iterates a set: ' + U(it)[:50], 'the iteration order of a set of strings changes from one '
                            'interpreter process to the next (hash randomisation); when the order decides a result (first match '
                            'wins, output order) the same input trains different rulesets', None, it)
    ctx.stats['call_sites'] += ncalls
    if ctx.floor(rule, RT, len(par), 25, 'functions reachable from run_trainer') and not bad:
        ctx.ok(rule, RT, 'the only nondeterminism source reachable from run_trainer (%d functions) is uuid4() stored as the '
               'config option uuid' % len(par))


def r9_coverage_plumbing(ctx, rule):
    """The coverage the user asked for is the coverage run_trainer gets: program_info['coverage'] = args.coverage, verbatim.
    0 is a meaningful value (Markov only) and is falsy: `args.coverage or <default>` silently trains with the default instead
    (seed C06-g)."""
    q = 'trainer.py::parse_command_line'
    fn = ctx.fn(q)
    sets = [s_ for s_ in walk_stmts(fn.body) if isinstance(s_, ast.Assign) and U(s_.targets[0]) == "program_info['coverage']"]
    if not sets:
        ctx.unk(rule, q, "no assignment of program_info['coverage'] found")
        return
    for s_ in sets:
        v = s_.value
        if U(v) in ('args.coverage', 'float(args.coverage)'):
            ctx.ok(rule, q, "program_info['coverage'] = args.coverage (0.0 reaches the trainer as 0.0)")
        elif isinstance(v, ast.BoolOp) and isinstance(v.op, ast.Or) or (isinstance(v, ast.IfExp) and U(v.test) in ('args.coverage', 'not args.coverage')):
            ctx.bad(rule, q, "program_info['coverage'] = %s" % U(v)[:70],
                    "coverage 0 means 'only the Markov structure'; a truthiness test treats 0.0 like 'not given' and the ruleset is "
                    "trained with the default coverage instead", None, s_)
        else:
            ctx.unk(rule, q, "coverage is derived as %s" % U(v)[:60])


def r8_memo(ctx, rule):
    from .common import memo_discipline
    memo_discipline(ctx, rule, ['trainer.py'], RT)


def _counters(ctx, rule):
    # every item is tallied under its own length in a Counter of its own (seed C06-h shared one Counter object between two
    # length classes: both files then hold the union, divided by the joint total)
    from . import c05
    return c05.r6_counter_pairing(ctx, rule)


def _prince_tally(ctx, rule):
    # the PRINCE list is one of the observed lists: its counts are occurrences of labels, not passwords containing them (seed C06-i)
    from . import c17
    return c17.r4_prince_tally(ctx, rule)


def r12_counts_per_training(ctx, rule):
    """The counts written are those of THIS training: no trainer class keeps a mutable container at class level that its methods
    fill in place (seed C06-k moved the five length-indexed tables of PCFGPasswordParser to the class body - the second training
    of a process inherits the terminals and counts of the first)."""
    from .common import no_shared_class_state
    no_shared_class_state(ctx, rule, ['lib_trainer/'], 8, 'the object is shared by every instance: a second parser / trainer object '
                          'of the same process starts with the counts of the first, so lists hold items the training set never had')


def _splice_discipline(ctx, rule):
    # every item the segmentation produced is counted: a detector driver appends what its detector found unconditionally (seed
    # C06-o: words of 21+ letters still labelled A<n> in the section list but no longer handed to the alpha / mask counters)
    from . import c05
    return c05.r1_splice_discipline(ctx, rule)

def _shared_rule(mod, name, **kw):
    def run(ctx, rule):
        import importlib
        return getattr(importlib.import_module('sa.props.' + mod), name)(ctx, rule, **kw)
    return run


def rules(tier):
    return [('C06.R1', r1_relative_frequency), ('C06.R2', r2_all_items_written), ('C06.R3', c07.r6_wipe_before_write),
            ('C06.R4', r4_coverage_algebra), ('C06.R5', r5_supported_only), ('C06.R6', r6_determinism),
            ('C06.R7', c07.r1b_validate_final_value), ('C06.R8', r8_memo), ('C06.R9', r9_coverage_plumbing), ('C06.R10', _counters), ('C06.R11', _prince_tally), ('C06.R12', r12_counts_per_training), ('C06.R13', _splice_discipline),
            # C06-ca: first pass reads the option under a misspelt key - N is the number of lines, not the sum of the counts
            ('C06.R14', _shared_rule('c19', 'r1_three_passes')),
            # C06-cb: mask of a multiword's later words sliced from the run's first letters
            ('C06.R15', _shared_rule('c03', 'r2_mask_producer', lower_only=False)),
            # C19-ca idea: a counter read through getattr with a default under a misspelt name
            ('C06.R16', _shared_rule('plumbing', 'defaulted_getattr')),
            # C06-da: Digits lists saved as ASCII - a non-ASCII digit aborts the save half way
            ('C06.R17', _shared_rule('c07', 'r2_encoding_agreement')),
            # C05-da idea: detector results unpacked in the wrong order tally the wrong counter
            ('C06.R18', _shared_rule('plumbing', 'unpack_order')),
            # ruleset files hold one complete list
            ('C06.R19', _shared_rule('plumbing', 'writers_truncate')),
            # probabilities reach the files with all their digits
            ('C06.R20', _shared_rule('plumbing', 'float_text_exact')),
            # mutation sweep: += 2, a deleted tally, append(section[0]) in base_structure_creation
            ('C06.R21', _shared_rule('c06', 'r21_unit_tallies')),
            # C06-ea: print_statistics merges the keyboard counters in place
            ('C06.R22', _shared_rule('plumbing', 'read_only_helpers')),
            # C06-fb: a line counted in N and then skipped by the re-encode check
            ('C06.R23', _shared_rule('c19', 'r3_multiplicity_and_r6_strip')),
            # C06-ga: a K<n> section of the base structure that is never counted in Keyboard/<n>.txt
            ('C06.R24', _shared_rule('c05', 'r25_recursive_merge'))]


META = {
    'explanation': 'Template and algebra rules on the save path: calculate_probabilities = most_common() order with '
                   'count / sum(counts); every element written once in order; one file per key and folder wiped on every path '
                   'before writing; coverage algebra (guard != 1, coverage 0 -> only M, else N/c - N compared with N(1/c-1) as '
                   'a rational function); supported-only guard with a monotone flag; the only nondeterminism source reachable '
                   'from run_trainer is uuid4 flowing to the uuid option.',
    'trusted_base': ['python ast', 'Counter.most_common() is a stable descending sort', 'resolver/call graph'],
    'assumptions': ['Counter insertion order is the order of first occurrence (deterministic input order)'],
    'not_decided': 'that the written numbers sum to 1 (floating point); completeness relative to the parse is C05.R6',
    'technique': 'template matching + rational-function identity check on the extracted expression + effect-set rule',
}

META['explanation'] += ' ' + 'Further: every CFG path from the coverage != 1 branch to the save inserts the Markov pseudo-count; memoisation discipline; name-based uuids are deterministic.'

META['explanation'] += ' ' + 'Round 13: a line that has been counted in N is yielded on every path (no skip between the count and the yield).'
META['explanation'] += ' ' + 'Round 14: a K<n> section found by the recursive call is in the found list the counters are fed from.'
