"""C07 - a saved ruleset means the same thing to every tool that loads it (DESIGN section 4, C07)."""
import ast

from ..core import (TU, U, walk_local, calls_in, call_name, const, NOCONST, params, stores_in, single_def, expand,
                    walk_stmts, arg_for, kwarg, path_conditions, enclosing_stmt_chain, dotted)
from ..cfg import CFG
from ..effects import open_encoding, open_mode
from ..iotable import IOTable
from .common import GIO
from . import c03, c04, c08

TFI = 'lib_trainer/trainer_file_input.py::'
SPD = 'lib_trainer/save_pcfg_data.py::'
OFO = 'lib_trainer/omen/omen_file_output.py::'
SGIO = 'lib_scorer/grammar_io.py::'
OIO = 'lib_guesser/omen/input_file_io.py::'
OSC = 'lib_scorer/omen_scorer.py::OmenScorer.'

# str.splitlines() separator set: what codecs stream iteration / StreamReader.readline split on (assumption A4)
S_CODECS = ['\n', '\r', '\x0b', '\x0c', '\x1c', '\x1d', '\x1e', '\x85', '\u2028', '\u2029']
S_BUILTIN = ['\n', '\r']


def _regex_class(pattern):
    """Set of characters matched by a pattern that is a single character class (or alternation of literals); None otherwise."""
    try:
        import re._parser as sre
    except ImportError:            # python < 3.11
        import sre_parse as sre
    try:
        p = sre.parse(pattern)
    except Exception:
        return None
    if len(p) != 1:
        return None
    op, av = p[0]
    out = set()
    if str(op) == 'IN':
        for o2, a2 in av:
            if str(o2) == 'LITERAL':
                out.add(chr(a2))
            elif str(o2) == 'RANGE':
                out.update(chr(i) for i in range(a2[0], a2[1] + 1))
            else:
                return None
        return out
    if str(op) == 'LITERAL':
        return {chr(av)}
    return None


def _any_guard(t, pw, fn):
    """Characters rejected by a test of the form any(<pred(c)> for c in pw), any(c in pw for c in <literal>) or
    <compiled class>.search(pw); None if the test is not of such a form.  A regex applied with match()/fullmatch() only looks
    at the start of the string and rejects nothing in general."""
    if isinstance(t, ast.Call) and call_name(t) == 'any' and len(t.args) == 1 and isinstance(t.args[0], (ast.GeneratorExp, ast.ListComp)) \
            and len(t.args[0].generators) == 1 and not t.args[0].generators[0].ifs:
        g = t.args[0].generators[0]
        e = t.args[0].elt
        if isinstance(g.target, ast.Name) and U(g.iter) == pw and isinstance(e, ast.Compare) and len(e.ops) == 1:
            c = g.target.id
            l, r, op = e.left, e.comparators[0], e.ops[0]

            def bound(x):
                if isinstance(x, ast.Call) and call_name(x) == 'chr' and isinstance(const(x.args[0]), int):
                    return const(x.args[0])
                if isinstance(const(x), str) and len(const(x)) == 1:
                    return ord(const(x))
                return None
            if U(l) == c and bound(r) is not None and isinstance(op, (ast.Lt, ast.LtE)):
                return {chr(i) for i in range(0, bound(r) + (1 if isinstance(op, ast.LtE) else 0))}
            if U(l) == 'ord(%s)' % c and isinstance(const(r), int) and isinstance(op, (ast.Lt, ast.LtE)):
                return {chr(i) for i in range(0, const(r) + (1 if isinstance(op, ast.LtE) else 0))}
            if U(l) == c and isinstance(op, ast.In) and isinstance(r, (ast.List, ast.Tuple, ast.Set, ast.Constant)):
                vals = [const(x) for x in r.elts] if not isinstance(r, ast.Constant) else list(r.value)
                return {v for v in vals if isinstance(v, str) and len(v) == 1}
        if isinstance(g.target, ast.Name) and isinstance(g.iter, (ast.List, ast.Tuple, ast.Set, ast.Constant)) \
                and isinstance(e, ast.Compare) and len(e.ops) == 1 and isinstance(e.ops[0], ast.In) and U(e.left) == g.target.id \
                and U(e.comparators[0]) == pw:
            vals = [const(x) for x in g.iter.elts] if not isinstance(g.iter, ast.Constant) else list(g.iter.value)
            return {v for v in vals if isinstance(v, str) and len(v) == 1}
    if isinstance(t, ast.Call) and isinstance(t.func, ast.Attribute) and t.func.attr in ('search', 'match', 'fullmatch') \
            and len(t.args) >= 1 and U(t.args[-1]) == pw:
        pat = None
        if isinstance(t.func.value, ast.Name) and t.func.value.id == 're' and len(t.args) == 2:
            pat = const(t.args[0])
        else:
            # a compiled pattern bound once at module level or locally: NAME = re.compile('<pattern>')
            nm = U(t.func.value)
            for root in (fn, getattr(fn, '_module_tree', None)):
                if root is None:
                    continue
                for n in ast.walk(root):
                    if isinstance(n, ast.Assign) and len(n.targets) == 1 and U(n.targets[0]) == nm and isinstance(n.value, ast.Call) \
                            and call_name(n.value) == 're.compile' and n.value.args:
                        pat = const(n.value.args[0])
        if isinstance(pat, str):
            cls = _regex_class(pat)
            if cls is not None:
                return cls if t.func.attr == 'search' else set()
    return None


def _const_chars(node, tree, depth=0):
    """Constant folding of a set/list/tuple/str of single characters: literals, chr(<int>), + concatenation, list/set/frozenset/
    tuple(...) wrappers, [chr(i) for i in range(..)] comprehensions, names bound once at module level.  None if not constant."""
    if depth > 8:
        return None
    if isinstance(node, ast.Constant) and isinstance(node.value, str):
        return set(node.value)
    if isinstance(node, (ast.List, ast.Tuple, ast.Set)):
        out = set()
        for e in node.elts:
            if isinstance(e, ast.Constant) and isinstance(e.value, str) and len(e.value) == 1:
                out.add(e.value)
            elif isinstance(e, ast.Call) and call_name(e) == 'chr' and e.args and isinstance(const(e.args[0]), int):
                out.add(chr(const(e.args[0])))
            else:
                return None
        return out
    if isinstance(node, ast.BinOp) and isinstance(node.op, (ast.Add, ast.BitOr)):
        a, b = _const_chars(node.left, tree, depth + 1), _const_chars(node.right, tree, depth + 1)
        return None if a is None or b is None else a | b
    if isinstance(node, ast.Call) and call_name(node) in ('frozenset', 'set', 'list', 'tuple') and len(node.args) == 1:
        return _const_chars(node.args[0], tree, depth + 1)
    if isinstance(node, (ast.ListComp, ast.SetComp, ast.GeneratorExp)) and len(node.generators) == 1 and not node.generators[0].ifs:
        g = node.generators[0]
        if isinstance(g.target, ast.Name) and isinstance(g.iter, ast.Call) and call_name(g.iter) == 'range' \
                and all(isinstance(const(a), int) for a in g.iter.args) and isinstance(node.elt, ast.Call) and call_name(node.elt) == 'chr' \
                and node.elt.args and U(node.elt.args[0]) == g.target.id:
            return {chr(i) for i in range(*[const(a) for a in g.iter.args])}
        return None
    if isinstance(node, ast.Name) and tree is not None:
        defs = [st.value for st in tree.body if isinstance(st, ast.Assign) and len(st.targets) == 1 and U(st.targets[0]) == node.id]
        defs += [st.value for st in tree.body if isinstance(st, ast.AnnAssign) and U(st.target) == node.id and st.value is not None]
        if len(defs) == 1:
            return _const_chars(defs[0], tree, depth + 1)
    return None


def reject_set(fn):
    """Characters check_valid rejects: set of single characters, extracted from its guard forms."""
    ps = params(fn)
    pw = ps[0]
    rej = set()
    unknown = []
    for st in fn.body:
        # a guard that ACCEPTS early (returns anything but False) short-circuits every guard below it: what follows rejects nothing
        # for the inputs that guard lets through, so only the guards above it count
        if any(isinstance(r_, ast.Return) and const(r_.value) is not False for b_ in (st.body if isinstance(st, (ast.If, ast.For, ast.While)) else [])
               for r_ in ast.walk(b_)) or (isinstance(st, (ast.If,)) and any(isinstance(r_, ast.Return) and const(r_.value) is not False
                                                                              for b_ in st.orelse for r_ in ast.walk(b_))):
            unknown.append('early accept: ' + U(st)[:50].replace('\n', ' '))
            break
        if isinstance(st, ast.If) and st.body and isinstance(st.body[-1], ast.Return) and const(st.body[-1].value) is False:
            t = st.test
            if isinstance(t, ast.Compare) and len(t.ops) == 1 and isinstance(t.ops[0], ast.In) and U(t.comparators[0]) == pw \
                    and isinstance(const(t.left), str) and len(const(t.left)) == 1:
                rej.add(const(t.left))
            elif U(t) in ('len(%s) == 0' % pw, 'not %s' % pw):
                pass
            elif 'splitlines()' in U(t) and U(t).replace(' ', '') in ('len(%s.splitlines())>1' % pw, 'len(%s.splitlines())!=1' % pw):
                # understood, and insufficient: splitlines() does not report a separator at the END of the string, so a value
                # ending in U+2028 / U+0085 / ... passes; the guard guarantees the rejection of no character
                pass
            elif _any_guard(t, pw, fn) is not None:
                rej.update(_any_guard(t, pw, fn))
            elif isinstance(t, ast.UnaryOp) and isinstance(t.op, ast.Not) and isinstance(t.operand, ast.Call) \
                    and isinstance(t.operand.func, ast.Attribute) and t.operand.func.attr == 'isdisjoint' and len(t.operand.args) == 1 \
                    and U(t.operand.args[0]) == pw and _const_chars(t.operand.func.value, getattr(fn, '_module_tree', None)) is not None:
                rej.update(_const_chars(t.operand.func.value, getattr(fn, '_module_tree', None)))
            else:
                unknown.append(U(t))
        elif isinstance(st, ast.For) and isinstance(st.iter, ast.Call) and call_name(st.iter) == 'range' \
                and all(isinstance(const(a), int) for a in st.iter.args) and isinstance(st.target, ast.Name):
            rng = range(*[const(a) for a in st.iter.args])
            v = st.target.id
            for s in st.body:
                if isinstance(s, ast.If) and s.body and isinstance(s.body[-1], ast.Return) and const(s.body[-1].value) is False:
                    t = s.test
                    if isinstance(t, ast.Compare) and len(t.ops) == 1 and isinstance(t.ops[0], ast.In) \
                            and U(t.left) == 'chr(%s)' % v and U(t.comparators[0]) == pw:
                        rej.update(chr(i) for i in rng)
                    else:
                        unknown.append(U(t))
        elif isinstance(st, ast.For) and isinstance(st.iter, (ast.List, ast.Tuple, ast.Constant)) and isinstance(st.target, ast.Name):
            vals = [const(e) for e in st.iter.elts] if not isinstance(st.iter, ast.Constant) else list(st.iter.value)
            for s in st.body:
                if isinstance(s, ast.If) and isinstance(s.test, ast.Compare) and U(s.test.left) == st.target.id \
                        and isinstance(s.test.ops[0], ast.In) and s.body and isinstance(s.body[-1], ast.Return):
                    rej.update(v for v in vals if isinstance(v, str) and len(v) == 1)
    # a final `return <expr>` other than True is one more guard: accepted iff <expr>
    tree = getattr(fn, '_module_tree', None)
    rets = [st for st in fn.body if isinstance(st, ast.Return)]
    if rets and not (const(rets[-1].value) is True):
        v = rets[-1].value
        got = None
        if isinstance(v, ast.Call) and isinstance(v.func, ast.Attribute) and v.func.attr == 'isdisjoint' and len(v.args) == 1:
            if U(v.args[0]) == pw:
                got = _const_chars(v.func.value, tree)
            elif U(v.func.value) in ('set(%s)' % pw, 'frozenset(%s)' % pw):
                got = _const_chars(v.args[0], tree)
        elif isinstance(v, ast.UnaryOp) and isinstance(v.op, ast.Not):
            g = _any_guard(v.operand, pw, fn)
            if g is not None:
                got = g
            elif isinstance(v.operand, ast.BinOp) and isinstance(v.operand.op, ast.BitAnd):
                sides = [v.operand.left, v.operand.right]
                other = [x for x in sides if U(x) not in ('set(%s)' % pw, 'frozenset(%s)' % pw)]
                if len(other) == 1:
                    got = _const_chars(other[0], tree)
        if got is None:
            unknown.append('return ' + U(v)[:60])
        else:
            rej |= got
    return rej, unknown


def r1_separator_inclusion(ctx, rule):
    qual = TFI + 'check_valid'
    fn = ctx.fn(qual)
    fn._module_tree = ctx.repo.modules[qual.partition('::')[0]].tree
    rej, unknown = reject_set(fn)
    # reader kinds of password-derived files
    mods = ctx.resolver.closure(['pcfg_guesser.py', 'password_scorer.py', 'prince_ling.py'])
    tab = IOTable(ctx, mods)
    kinds = set()
    for q, c, m, kind, env in tab.open_sites():
        if 'r' in m and 'b' not in m and q.partition('::')[2] in ('_load_from_file', '_load_ngrams', '_load_alphabet',
                                                                      'OmenScorer._load_omen'):
            kinds.add(kind)
    need = set(['\t']) | set(S_CODECS if 'codecs' in kinds else S_BUILTIN)
    missing = sorted(need - rej)
    facts = {'rejected': sorted('U+%04X' % ord(c) for c in rej), 'reader_kinds': sorted(kinds),
             'required': sorted('U+%04X' % ord(c) for c in need), 'unrecognised_guards': unknown}
    if not kinds:
        ctx.unk(rule, qual, 'no reader of password-derived files found')
        return
    if missing and any(not u_.startswith('early accept') for u_ in unknown):
        ctx.unk(rule, qual, 'check_valid has guards that are not understood (%s); cannot tell whether %s are rejected'
                % (unknown[:3], ['U+%04X' % ord(c) for c in missing][:6]))
    elif missing:
        for ch in missing:
            ctx.bad(rule, qual, 'accepts U+%04X' % ord(ch),
                    'the ruleset files are line- and TAB-separated and are read back by %s readers, which split lines on this '
                    'character: an accepted password containing it puts a value on disk that is read back as two broken '
                    'records' % '/'.join(sorted(kinds)), facts, fn)
    else:
        ctx.ok(rule, qual, 'reject set contains TAB and every line separator of the readers (%d characters required)' % len(need), facts)
    r1b_validate_final_value(ctx, rule)


def r1b_validate_final_value(ctx, rule):
    # the validated value is the yielded value
    qual = TFI + 'check_valid'
    cvf = ctx.fn(qual)
    pw = params(cvf)[0]
    empties = [s for s in cvf.body if isinstance(s, ast.If) and U(s.test) in ('len(%s) == 0' % pw, 'not %s' % pw, "%s == ''" % pw)
               and s.body and isinstance(s.body[-1], ast.Return) and const(s.body[-1].value) is False]
    if empties:
        ctx.ok(rule, qual, 'the empty string is rejected')
    else:
        ctx.bad(rule, qual, 'empty password accepted', 'the parser cannot tile the empty string (it yields an empty O0 segment)', None, cvf)
    rq = TFI + 'TrainerFileInput.read_password'
    rfn = ctx.fn(rq)
    mod = ctx.repo.modules[rq.partition('::')[0]]
    cfg = CFG(rfn)
    yields = [n for n in walk_local(rfn) if isinstance(n, ast.Yield)]
    checks = [c for c in calls_in(rfn) if call_name(c) == 'check_valid']
    if not yields or not checks:
        ctx.bad(rule, rq, 'read_password does not filter with check_valid', 'every yielded password must have passed the '
                'filter', None, rfn)
        return
    yv = U(yields[0].value)
    cv = U(checks[0].args[0]) if checks[0].args else None
    cn = cfg.node_of(c08._stmt_of(mod, checks[0]))
    yn = cfg.node_of(c08._stmt_of(mod, yields[0]))
    defs = [nid for nid, n in cfg.nodes.items() if n.kind == 'stmt' and isinstance(n.stmt, (ast.Assign, ast.AugAssign))
            and any(U(t) == yv for t in (n.stmt.targets if isinstance(n.stmt, ast.Assign) else [n.stmt.target]))]
    okv = cv == yv
    late = [d for d in defs if not cfg.every_path_passes(d, yn, {cn})]
    ctx.stats['paths'] += len(defs)
    # the rejecting branch must not reach the yield
    test_stmt = c08._stmt_of(mod, checks[0])
    rejects = isinstance(test_stmt, ast.If) and U(test_stmt.test) == 'not check_valid(%s)' % cv \
        and test_stmt.body and isinstance(test_stmt.body[-1], (ast.Continue, ast.Return, ast.Raise))
    if okv and not late and rejects:
        ctx.ok(rule, rq, 'check_valid is applied to the value that is yielded, after its last modification', {'value': yv})
    else:
        ctx.bad(rule, rq, 'validated %s, yields %s, %d later modification(s)' % (cv, yv, len(late)),
                'the filter must see the final value (after $HEX[] decoding, count-prefix removal): otherwise a hex entry '
                'decoding to TAB/LF/U+2028 reaches the ruleset files', {'late_definitions': [repr(cfg.nodes[d]) for d in late]},
                checks[0])


def writer_table(ctx, tab):
    """{file id: (encoding class, site)} for everything the trainer writes."""
    out = {}
    folders, pp = c03.save_folders(ctx)
    sq = SPD + 'save_pcfg_data'
    sfn = ctx.fn(sq)
    # encoding class of the third argument of save_indexed_counters, per folder
    for folder, rec in folders.items():
        enc_txt = rec['encoding']
        cls = None
        c = const(ast.parse(enc_txt, mode='eval').body)
        if isinstance(c, str):
            cls = 'ASCII' if c.lower() == 'ascii' else 'LIT(%s)' % c.lower()
        else:
            classes = set()
            for env in tab.contexts(sq):
                classes.add(tab.enc_class(sq, ast.parse(enc_txt, mode='eval').body, env))
            cls = classes.pop() if len(classes) == 1 else 'MIXED(%s)' % ','.join(sorted(classes))
        if 'indexed' in rec:
            out[(folder, '<key>.txt')] = (cls, sq)
        else:
            for stem in rec['named']:
                out[(folder, '%s.txt' % stem)] = (cls, sq)
    # the writer itself must pass the encoding through
    cq = SPD + 'calculate_and_save_counter'
    cfn = ctx.fn(cq)
    opens = [c for c in calls_in(cfn) if open_mode(c)]
    through = opens and U(open_encoding(opens[0])) == params(cfn)[2]
    sq2 = SPD + 'save_indexed_counters'
    s2 = ctx.fn(sq2)
    calls = [c for c in calls_in(s2) if call_name(c) == 'calculate_and_save_counter']
    through = through and calls and len(calls[0].args) >= 3 and U(calls[0].args[2]) == params(s2)[2]
    for q, c, m, kind, env in tab.open_sites():
        if any(ch in m for ch in 'wa') and 'b' not in m and q.startswith(('lib_trainer/omen/', 'lib_trainer/config_file')):
            fid = tab.file_id(q, c, env)
            out[fid] = (tab.enc_class(q, open_encoding(c), env), q)
    return out, through, folders


def reader_sites(ctx, tab, sections):
    out = []
    for q, c, m, kind, env in tab.open_sites():
        if 'r' not in m or 'b' in m:
            continue
        fid = tab.file_id(q, c, env)
        if fid and fid[0].startswith('<dir:'):
            sec = fid[0][5:-1]
            rec = sections.get(sec, {})
            d = rec.get('directory')
            fk, fs = rec.get('filenames', (None, None))
            if fk == 'const':
                for f in fs:
                    out.append(((d, f), tab.enc_class(q, open_encoding(c), env), kind, q, c))
            else:
                out.append(((d, '<key>.txt'), tab.enc_class(q, open_encoding(c), env), kind, q, c))
            continue
        out.append((fid, tab.enc_class(q, open_encoding(c), env), kind, q, c))
    return out


def r2_encoding_agreement(ctx, rule, file_filter=None, entries=None, floor=25):
    tmods = ctx.resolver.closure(['trainer.py'])
    ttab = IOTable(ctx, tmods)
    writers, through, folders = writer_table(ctx, ttab)
    sections = c03.config_sections(ctx)
    if not through:
        ctx.bad(rule, SPD + 'calculate_and_save_counter', 'encoding parameter is not passed through to codecs.open',
                'terminal files would not be written in the encoding named in config.ini', None, None)
    nread = 0
    bad = False
    table = []
    for entry in (entries or (['pcfg_guesser.py', 'prince_ling.py'], ['password_scorer.py'])):
        mods = ctx.resolver.closure(entry)
        tab = IOTable(ctx, mods)
        seen = set()
        for fid, enc, kind, q, c in reader_sites(ctx, tab, sections):
            if fid not in writers:
                continue
            if file_filter is not None and not file_filter(fid):
                continue
            key = (fid, enc, q)
            if key in seen:
                continue
            seen.add(key)
            nread += 1
            wenc, wq = writers[fid]
            okk = (wenc == enc) or (wenc == 'ASCII' and enc == 'DEFAULT')
            table.append({'file': '/'.join(fid), 'writer': wenc, 'reader': enc, 'reader_site': q.partition('::')[2],
                          'tool': entry[0], 'ok': okk})
            if not okk:
                bad = True
                ctx.bad(rule, q, '%s written as %s, read as %s' % ('/'.join(fid), wenc, enc),
                        'the file is written in one encoding and decoded with another: for a ruleset trained in a '
                        'non-ASCII-compatible or non-locale encoding the values are mis-decoded or the ruleset cannot be '
                        'loaded (writer: %s)' % wq.partition('::')[2], {'file': fid, 'writer': wenc, 'reader': enc}, c)
    ctx.stats['call_sites'] += nread
    if ctx.floor(rule, 'Rules/<name>', nread, floor, 'reader sites of trainer-written files') and not bad:
        ctx.ok(rule, 'Rules/<name>', 'writer and reader encoding classes agree for all %d (file, reader) pairs' % nread,
               {'table': table})
    return writers, table


def _concat_parts(node):
    if isinstance(node, ast.BinOp) and isinstance(node.op, ast.Add):
        return _concat_parts(node.left) + _concat_parts(node.right)
    return [node]


def write_layouts(ctx):
    """[(site qual, file hint, [field exprs], separators)] for `f.write(a + '\\t' + b + '\\n')` in the trainer."""
    out = []
    for q in (SPD + 'calculate_and_save_counter', OFO + 'save_omen_rules_to_disk', OFO + '_save_alphabet'):
        fn = ctx.fn(q)
        for c in calls_in(fn):
            if isinstance(c.func, ast.Attribute) and c.func.attr == 'write' and c.args and not U(c.func.value).startswith('config'):
                parts = _concat_parts(c.args[0])
                fields, seps, cur = [], [], []
                for p in parts:
                    k = const(p)
                    if isinstance(k, str) and k in ('\t', '\n', '\r\n'):
                        fields.append(cur)
                        seps.append(k)
                        cur = []
                    else:
                        cur.append(p)
                if cur:
                    fields.append(cur)
                out.append((q, c, fields, seps))
    return out


def r3_record_layout(ctx, rule, scope='all'):
    n = 0
    # writer side
    for q, c, fields, seps in write_layouts(ctx):
        if scope == 'omen' and q.endswith('calculate_and_save_counter'):
            continue
        if scope == 'pcfg' and not q.endswith('calculate_and_save_counter'):
            continue
        n += 1
        facts = {'write': U(c)[:100], 'fields': [[U(x) for x in f] for f in fields], 'separators': seps}
        if seps and seps[-1] != '\n':
            ctx.bad(rule, q, 'record not terminated by LF: ' + U(c)[:80], 'one record per line', facts, c)
            continue
        if q.endswith('calculate_and_save_counter'):
            good = seps == ['\t', '\n'] and [len(f) for f in fields] == [1, 1] \
                and U(fields[0][0]) == 'str(item[0])' and U(fields[1][0]) in ('str(item[1])', 'repr(item[1])')
            if not good:
                ctx.bad(rule, q, 'terminal record ' + U(c.args[0])[:90],
                        'terminal files are value TAB probability LF, probability written with a round-tripping conversion '
                        '(str/repr)', facts, c)
            else:
                ctx.ok(rule, q, 'value TAB str(probability) LF', facts)
        elif q.endswith('_save_alphabet'):
            if seps == ['\n'] and len(fields[0]) == 1:
                ctx.ok(rule, q, 'one alphabet character per line', facts)
            else:
                ctx.bad(rule, q, 'alphabet record ' + U(c.args[0])[:60], 'one character per line', facts, c)
        else:
            if seps == ['\t', '\n'] and len(fields[0]) == 1 and call_name(fields[0][0]) == 'str':
                ctx.ok(rule, q, 'number TAB payload LF: ' + U(c.args[0])[:60], facts)
            elif seps == ['\n'] and len(fields[0]) == 1 and call_name(fields[0][0]) == 'str':
                ctx.ok(rule, q, 'level LF: ' + U(c.args[0])[:60], facts)
            else:
                ctx.bad(rule, q, 'OMEN record ' + U(c.args[0])[:80], 'OMEN files are level TAB n-gram LF (LN.level: level LF)',
                        facts, c)
    # reader side: value = field 0 (verbatim), prob = float(field 1)
    for q in ((GIO + '_load_from_file', SGIO + '_load_from_file') if scope != 'omen' else ()):
        fn = ctx.fn(q)
        n += 1
        mod_ = ctx.repo.modules[q.partition('::')[0]]

        def is_tab_split(c):
            return isinstance(c, ast.Call) and isinstance(c.func, ast.Attribute) and c.func.attr == 'split' and c.args \
                and const(c.args[0]) == '\t'
        split = None
        svs = set()
        for st in walk_stmts(fn.body):
            if isinstance(st, ast.Assign) and is_tab_split(st.value):
                split = st
                svs.add(U(st.targets[0]))
        inline = [c for c in calls_in(fn) if is_tab_split(c)]
        if split is None and not inline:
            ctx.bad(rule, q, 'no split on TAB', 'records are TAB separated', None, fn)
            continue
        uses = {}
        for nnode in walk_local(fn):
            if isinstance(nnode, ast.Subscript) and isinstance(const(nnode.slice), int) and (U(nnode.value) in svs or is_tab_split(nnode.value)):
                par = mod_.parents.get(id(nnode))
                # a field bound to a name: follow the name one step (terminal = fields[0]; table[terminal] = ...)
                ctxt = U(par).replace(U(nnode), 'FIELD%d' % const(nnode.slice))[:60]
                if isinstance(par, ast.Assign) and par.value is nnode and isinstance(par.targets[0], ast.Name):
                    nm = par.targets[0].id
                    outs = [U(mod_.parents.get(id(x)))[:60] for x in walk_local(fn) if isinstance(x, ast.Name) and x.id == nm
                            and isinstance(x.ctx, ast.Load)]
                    ctxt = ' | '.join(outs) or ctxt
                uses.setdefault(const(nnode.slice), []).append(ctxt)
        sv = sorted(svs)[0] if svs else "<line>.split('\t')"
        facts = {'split': U(split) if split is not None else U(inline[0]), 'field_uses': uses}
        split = split if split is not None else inline[0]
        f1_float = any('float(FIELD1)' in u or 'float(' in u for u in uses.get(1, []))
        f0_verbatim = all(not any(x in u for x in ('.strip(', '.lstrip(', '.rstrip(', '.lower(', '.upper(')) for u in uses.get(0, []))
        if f1_float and 0 in uses and f0_verbatim and set(uses) <= {0, 1}:
            ctx.ok(rule, q, 'value = field 0 verbatim, probability = float(field 1)', facts)
        else:
            ctx.bad(rule, q, 'field use %s' % uses, 'the value is field 0 (unchanged) and the probability float(field 1)', facts, split)
    # OMEN n-gram readers: level = int(field 0), n-gram = field 1
    for q in ((OIO + '_load_ngrams', OSC + '_load_omen') if scope != 'pcfg' else ()):
        fn = ctx.fn(q)
        n += 1
        # which field becomes the level (int(...)) and which the n-gram, whatever the fields are called: split('\t') gives fields
        # 0 / 1, partition('\t') gives 0 / 2; fields may be indexed or unpacked
        verdicts = []
        for n_ in walk_local(fn):
            if not (isinstance(n_, ast.Assign) and isinstance(n_.value, (ast.Call, ast.Name))):
                continue
            v_ = n_.value
            kind = None
            if isinstance(v_, ast.Call) and isinstance(v_.func, ast.Attribute) and v_.func.attr in ('split', 'partition') and v_.args \
                    and const(v_.args[0]) == '\t':
                kind = v_.func.attr
            if kind is None:
                continue
            ng_idx = 1 if kind == 'split' else 2
            tgt = n_.targets[0]
            lvl_src, ng_src = None, None
            if isinstance(tgt, ast.Name):
                lvl_src, ng_src = '%s[0]' % tgt.id, '%s[%d]' % (tgt.id, ng_idx)
                # a later unpacking of the fields: a, b = fields
                for m_ in walk_local(fn):
                    if isinstance(m_, ast.Assign) and isinstance(m_.targets[0], ast.Tuple) and isinstance(m_.value, ast.Name) and m_.value.id == tgt.id \
                            and len(m_.targets[0].elts) == ng_idx + 1 and all(isinstance(e, ast.Name) for e in m_.targets[0].elts):
                        lvl_src, ng_src = m_.targets[0].elts[0].id, m_.targets[0].elts[ng_idx].id
            elif isinstance(tgt, ast.Tuple) and len(tgt.elts) == ng_idx + 1 and all(isinstance(e, ast.Name) for e in tgt.elts):
                lvl_src, ng_src = tgt.elts[0].id, tgt.elts[ng_idx].id
            if lvl_src is None:
                continue
            txt = TU(fn)
            lvl_ok = ('int(%s)' % lvl_src) in txt
            lvl_wrong = ('int(%s)' % ng_src) in txt
            ng_used = ng_src in txt.replace('int(%s)' % ng_src, '')
            verdicts.append((lvl_ok and ng_used and not lvl_wrong, lvl_wrong, lvl_src, ng_src))
        if not verdicts:
            # the split written out at every use (no local holds the fields)
            txt = TU(fn)
            for n_ in walk_local(fn):
                if isinstance(n_, ast.Call) and isinstance(n_.func, ast.Attribute) and n_.func.attr in ('split', 'partition') and n_.args \
                        and const(n_.args[0]) == '\t':
                    ng_idx = 1 if n_.func.attr == 'split' else 2
                    lvl_src, ng_src = '%s[0]' % U(n_), '%s[%d]' % (U(n_), ng_idx)
                    lvl_ok = ('int(%s)' % lvl_src) in txt
                    lvl_wrong = ('int(%s)' % ng_src) in txt
                    ng_used = ng_src in txt.replace('int(%s)' % ng_src, '')
                    verdicts.append((lvl_ok and ng_used and not lvl_wrong, lvl_wrong, lvl_src, ng_src))
                    break
        if verdicts and all(v[0] for v in verdicts):
            ctx.ok(rule, q, 'level = int(field 0), n-gram = the field after the TAB', {'fields': [(v[2], v[3]) for v in verdicts]})
        elif any(v[1] for v in verdicts):
            ctx.bad(rule, q, 'OMEN reader field use', 'level TAB n-gram expected: the level is the field BEFORE the TAB', None, fn)
        else:
            ctx.unk(rule, q, 'the TAB-separated fields of the OMEN reader are not recognised')
    ctx.floor(rule, 'Rules/<name>', n, {'all': 10, 'omen': 6, 'pcfg': 3}[scope], 'record writer/reader sites')


def _universal_newlines(fn):
    """every file the function opens is a builtin text-mode open() without a newline= argument (CR LF arrives as LF)"""
    opens = [c for c in calls_in(fn) if call_name(c) in ('open', 'codecs.open', 'io.open')]
    if not opens:
        return False
    for c in opens:
        if call_name(c) == 'codecs.open':
            return False
        if any(k.arg == 'newline' for k in c.keywords) or len(c.args) >= 6:
            return False
        mode = const(c.args[1]) if len(c.args) > 1 else next((const(k.value) for k in c.keywords if k.arg == 'mode'), 'r')
        if not isinstance(mode, str) or 'b' in mode:
            return False
    return True


def r5_strip_discipline(ctx, rule, only=None, floor=8):
    """Readers may only remove line terminators where the value is the last field; never strip the value field."""
    n = 0
    specs = [(GIO + '_load_from_file', 'first'), (SGIO + '_load_from_file', 'first'), (GIO + 'load_omen_keyspace', 'first'),
             (OIO + '_load_ngrams', 'last'), (OIO + '_load_alphabet', 'last'), (OSC + '_load_omen', 'last'),
             (GIO + '_load_base_structures', 'first')]
    if only is not None:
        specs = [x for x in specs if x[0] in only]
    for q, where in specs:
        fn = ctx.fn(q)
        for c in calls_in(fn):
            if isinstance(c.func, ast.Attribute) and c.func.attr in ('strip', 'lstrip', 'rstrip'):
                recv = U(c.func.value)
                if recv in ('line', 'value') or recv.endswith(']'):
                    n += 1
                    arg = const(c.args[0]) if c.args else None
                    only_eol = isinstance(arg, str) and set(arg) <= set('\r\n')
                    m = c.func.attr
                    if m in ('strip', 'lstrip') and not only_eol:
                        ctx.bad(rule, q, U(c)[:60], 'leading whitespace belongs to the value (values with leading spaces must '
                                'be read back unchanged)', None, c)
                    elif m == 'rstrip' and where == 'last' and not only_eol:
                        ctx.bad(rule, q, U(c)[:60], 'the value (n-gram / character) is the last field of the line: a '
                                'whitespace rstrip() removes trailing spaces that are part of it; only \\r\\n may be removed',
                                None, c)
                    elif m == 'rstrip' and where == 'last' and only_eol and set(arg) != set('\r\n') and not _universal_newlines(fn):
                        ctx.bad(rule, q, U(c)[:60], 'the value is the last field of the line and the stream does not translate line '
                                'endings (codecs.open, or open(..., newline=...)): with only %r removed, a ruleset whose files end their '
                                'lines with CR LF keeps the CR as the last character of every value' % arg, None, c)
                    else:
                        ctx.ok(rule, q, '%s: only %s' % (U(c)[:40], 'line terminators removed' if only_eol else
                                                          'trailing whitespace after the last (numeric) field removed'))
    ctx.floor(rule, 'readers', n, floor, 'strip-family calls on lines in the ruleset readers')


def r6_wipe_before_write(ctx, rule):
    q = SPD + 'save_indexed_counters'
    fn = ctx.fn(q)
    mod = ctx.repo.modules[q.partition('::')[0]]
    cfg = CFG(fn)
    ps = params(fn)
    wipes = []
    for nid, node in cfg.nodes.items():
        if node.kind == 'iter' and isinstance(node.stmt.iter, ast.Call) and call_name(node.stmt.iter) == 'os.walk' \
                and node.stmt.iter.args and U(node.stmt.iter.args[0]) == ps[0]:
            if any(call_name(c) in ('os.unlink', 'os.remove') for c in calls_in(node.stmt)):
                wipes.append(nid)
    okrets = [nid for nid, node in cfg.nodes.items() if node.kind == 'stmt' and isinstance(node.stmt, ast.Return)
              and const(node.stmt.value) is True]
    writes = [nid for nid, node in cfg.nodes.items() if node.stmt is not None and node.kind in ('stmt', 'test')
              and any(call_name(c) == 'calculate_and_save_counter' for c in calls_in(node.stmt if node.kind == 'stmt' else node.stmt.test))]
    facts = {'wipe_loops': len(wipes), 'success_returns': len(okrets), 'write_sites': len(writes)}
    if not wipes:
        ctx.bad(rule, q, 'no wipe of the folder before writing', 'a retrain into an existing ruleset leaves files of lengths '
                'that no longer occur; config.ini does not list them', facts, fn)
        return
    bad = [t for t in okrets + writes if not cfg.every_path_passes(cfg.entry, t, set(wipes))]
    ctx.stats['paths'] += len(okrets) + len(writes)
    if bad:
        w = cfg.witness_path(cfg.entry, bad[0], avoid=wipes)
        facts['witness'] = cfg.describe(w) if w else None
        ctx.bad(rule, q, 'a path reaches %s without wiping the folder' % repr(cfg.nodes[bad[0]]),
                'when the folder is not wiped (e.g. an early return for an empty category) stale <n>.txt files of a previous '
                'training survive and the file lists in config.ini no longer name exactly the files that exist', facts, cfg.nodes[bad[0]].stmt)
    else:
        ctx.ok(rule, q, 'every path to a write or to `return True` passes the unlink loop over the folder', facts)
    # one file per key
    lp = [n for n in walk_local(fn) if isinstance(n, ast.For) and '.items()' in U(n.iter) and U(n.iter).startswith(ps[1])]
    good = False
    if lp:
        l = lp[0]
        k = U(l.target.elts[0]) if isinstance(l.target, ast.Tuple) else None
        txt = TU(l)
        good = k is not None and ("os.path.join(%s, str(%s) + '.txt')" % (ps[0], k)) in txt \
            and not any(isinstance(s, (ast.Continue, ast.Break)) for s in walk_stmts(l.body))
    if good:
        ctx.ok(rule, q, "one file str(key) + '.txt' per key of the counter dictionary")
    else:
        ctx.bad(rule, q, 'file naming / coverage of keys', "every key must be written to <folder>/str(key).txt", None, fn)


def r7_paths_written(ctx, rule):
    tmods = ctx.resolver.closure(['trainer.py'])
    ttab = IOTable(ctx, tmods)
    writers, through, folders = writer_table(ctx, ttab)
    sections = c03.config_sections(ctx)
    n = 0
    bad = False
    for entry in (['pcfg_guesser.py', 'prince_ling.py'], ['password_scorer.py']):
        tab = IOTable(ctx, ctx.resolver.closure(entry))
        seen = set()
        for fid, enc, kind, q, c in reader_sites(ctx, tab, sections):
            if fid in seen or not fid or fid[-1].startswith('<') and fid[-1] != '<key>.txt':
                continue
            if fid[-1].endswith(('.sav', '.omn')) or fid == ('<?>',):
                continue
            seen.add(fid)
            n += 1
            if fid not in writers:
                bad = True
                ctx.bad(rule, q, 'reads %s which the trainer never writes' % '/'.join(str(x) for x in fid),
                        'every file a loader opens must be produced by the trainer under the same path', None, c)
    if ctx.floor(rule, 'Rules/<name>', n, 15, 'distinct ruleset files read') and not bad:
        ctx.ok(rule, 'Rules/<name>', 'all %d distinct files the loaders open are written by the trainer' % n)


def r10_loader_complete(ctx, rule):
    """The guesser's terminal loader turns every well-formed line into a value: the only skips are its error recovery."""
    q = GIO + '_load_from_file'
    fn = ctx.fn(q)
    mod = ctx.repo.modules[q.partition('::')[0]]
    loops = [n for n in walk_local(fn) if isinstance(n, ast.For)]
    if not loops:
        ctx.unk(rule, q, 'line loop not found')
        return
    lp = loops[0]
    bad = False
    n = 0
    # the skip flag by its role: a local that is a boolean constant everywhere, set to True inside a handler of the line loop
    FLAG = 'error_flag'
    for nm_, lst_ in stores_in(fn).items():
        vals_ = [v_ for s_, v_ in lst_ if v_ is not None]
        if vals_ and all(isinstance(const(v_), bool) for v_ in vals_) and any(
                const(v_) is True and any(isinstance(a, ast.ExceptHandler) for a in enclosing_stmt_chain(mod, s_)) for s_, v_ in lst_ if v_ is not None):
            FLAG = nm_
    for st in walk_stmts(lp.body):
        if isinstance(st, (ast.Continue, ast.Break, ast.Return)):
            n += 1
            in_handler = any(isinstance(a, ast.ExceptHandler) for a in enclosing_stmt_chain(mod, st))
            conds = [(U(t), p_) for t, p_ in path_conditions(mod, st, stop=lp)]
            ok_skip = in_handler or conds == [(FLAG, True)]
            if not ok_skip and isinstance(st, ast.Continue):
                # not a skip at all if the value of this line was stored earlier in the same block
                par = mod.parents.get(id(st))
                for field in ('body', 'orelse'):
                    blk = getattr(par, field, None)
                    if isinstance(blk, list) and any(x is st for x in blk):
                        k = [j for j, x in enumerate(blk) if x is st][0]
                        sec = params(fn)[0]
                        if any(isinstance(x, ast.Expr) and isinstance(x.value, ast.Call) and isinstance(x.value.func, ast.Attribute)
                               and x.value.func.attr == 'append' and U(x.value.func.value).startswith(sec) for x in blk[:k]):
                            ok_skip = True
                            n -= 1
            if not ok_skip or isinstance(st, (ast.Break, ast.Return)):
                bad = True
                ctx.bad(rule, q, 'loader skips lines under %s' % (conds or U(st)),
                        'every line of a terminal file is a value of the grammar; a loader that drops lines by their content '
                        "(blank, starting with '#', ...) silently removes terminals - and whole probability groups - that the "
                        'trainer wrote', None, st)
    # the other spelling of "skip the line after a malformed one": next(<the file>, None) inside the handler
    for c in calls_in(lp):
        if call_name(c) == 'next' and c.args and U(c.args[0]) == U(lp.iter):
            n += 1
            st_ = mod.parents.get(id(c))
            while st_ is not None and not isinstance(st_, ast.stmt):
                st_ = mod.parents.get(id(st_))
            if st_ is None or not any(isinstance(a, ast.ExceptHandler) for a in enclosing_stmt_chain(mod, st_)):
                bad = True
                ctx.bad(rule, q, 'loader consumes a line outside its error recovery: ' + U(c)[:60],
                        'every line of a terminal file is a value of the grammar', None, c)
    # the skip flag: False before the first line, set in the handler only, cleared when it has been honoured
    flag_sets = [(s_, v) for s_, v in stores_in(fn).get(FLAG, []) if v is not None]
    if flag_sets:
        first = min(flag_sets, key=lambda t: t[0].lineno)
        if const(first[1]) is not False:
            bad = True
            ctx.bad(rule, q, '%s starts as %s' % (FLAG, U(first[1])), 'the first line of a terminal file is its most probable value: nothing is '
                    'skipped before a malformed line has been seen', None, first[0], firm=True)
        for s_, v in flag_sets:
            in_h = any(isinstance(a, ast.ExceptHandler) for a in enclosing_stmt_chain(mod, s_))
            conds_ = [(U(t), p_) for t, p_ in path_conditions(mod, s_, stop=lp)] if any(x is s_ for b_ in lp.body for x in ast.walk(b_)) else None
            if const(v) is True and not in_h and s_ is not first[0]:
                bad = True
                ctx.bad(rule, q, FLAG + ' set outside the error recovery: ' + U(s_)[:50], 'only a malformed line makes the loader skip its '
                        'successor', None, s_, firm=True)
            if const(v) is False and conds_ == [(FLAG, True)]:
                pass
        skips = [st_ for st_ in lp.body if isinstance(st_, ast.If) and FLAG in U(st_.test)]
        for st_ in skips:
            if U(st_.test) != FLAG:
                bad = True
                ctx.bad(rule, q, 'a line is skipped when ' + U(st_.test), 'a line is skipped only after a malformed one', None, st_, firm=True)
            elif not any(isinstance(x, ast.Assign) and U(x.targets[0]) == FLAG and const(x.value) is False for x in st_.body):
                bad = True
                ctx.bad(rule, q, 'the skip flag is not cleared when it is honoured', 'one malformed line costs one following line, not the rest '
                        'of the file', None, st_, firm=True)
    if ctx.floor(rule, q, n, 3, 'skip statements in the terminal loader') and not bad:
        ctx.ok(rule, q, 'the only skipped lines are the error-recovery cases (undecodable line, unparsable record, line after one)')


def guesser_loads_faithfully(prefix):
    """Rule bundle: the guesser reads the PCFG part of a ruleset exactly as written (shared by C02/C03/C04/C17)."""
    readers = (GIO + '_load_from_file', GIO + '_load_base_structures')
    return [
        (prefix + 'a', lambda c, r: r3_record_layout(c, r, scope='pcfg')),
        (prefix + 'b', lambda c, r: r5_strip_discipline(c, r, only=readers, floor=2)),
        (prefix + 'c', lambda c, r: r2_encoding_agreement(c, r, entries=(['pcfg_guesser.py', 'prince_ling.py'],),
                                                         file_filter=lambda fid: fid[0] not in ('Omen', 'Emails', 'Websites'), floor=8)),
        (prefix + 'd', r10_loader_complete),
    ]


def _renorm(ctx, rule):
    # every probability the trainer wrote is read back unchanged: the base-structure loader divides by exactly 1.0 unless
    # skip_brute removes the Markov structure (seed C07-g renormalised by the float sum of the file, an ulp off 1.0)
    from . import c14
    return c14.r2_renormalisation(ctx, rule)


def r13_recorded_encoding_verbatim(ctx, rule):
    """The guesser reads - and PRINCE-LING writes its word list - with the encoding the trainer recorded: _load_config stores
    config.get('TRAINING_DATASET_DETAILS', 'encoding') into ruleset_info['encoding'] as it is, once.  (Seed C17-j mapped utf-8 to
    utf-8-sig "to tolerate byte order marks": every file the tool writes with that encoding then starts with a BOM glued to the
    first word, so the list in the file differs from the list on stdout.)"""
    q = GIO + '_load_config'
    fn = ctx.fn(q)
    stores = stores_in(fn)
    sts = [s_ for s_ in walk_stmts(fn.body) if isinstance(s_, ast.Assign) and len(s_.targets) == 1 and isinstance(s_.targets[0], ast.Subscript)
           and const(s_.targets[0].slice) == 'encoding']
    if not ctx.floor(rule, q, len(sts), 1, "stores to ruleset_info['encoding']"):
        return
    bad = False
    for s_ in sts:
        v = s_.value
        name_defs = stores.get(v.id, []) if isinstance(v, ast.Name) else []
        e = expand(fn, v, stores)
        ok_ = isinstance(e, ast.Call) and isinstance(e.func, ast.Attribute) and e.func.attr == 'get' and len(e.args) == 2 \
            and const(e.args[1]) == 'encoding' and len(name_defs) <= 1
        if not ok_:
            bad = True
            ctx.bad(rule, q, "ruleset_info['encoding'] = %s%s" % (U(e)[:60], ' (re-bound %d times)' % len(name_defs) if len(name_defs) > 1 else ''),
                    'the encoding must be the recorded one: it is used to read every rule file and to write the --output file, and a '
                    'different codec (utf-8-sig, a fallback, a normalised alias with other error handling) changes what is read or written',
                    None, s_)
    if len(sts) > 1:
        bad = True
        ctx.bad(rule, q, "ruleset_info['encoding'] stored %d times" % len(sts), 'stored once, as recorded', None, sts[1])
    if not bad:
        ctx.ok(rule, q, "ruleset_info['encoding'] is config.get(<section>, 'encoding'), stored once")


def _not_aliased(ctx, rule):
    # what is read back for one file must not also be what is read back for another (seed C07-i: M, E and W one list)
    from . import c01
    return c01.r11_sections_not_aliased(ctx, rule)


def _scorer_state_per_object(ctx, rule):
    # what a scorer holds after loading is what the files of ITS ruleset say (seed C07-k: the length-indexed tables moved to the
    # class body, so a scorer loaded later kept the lengths of the ruleset loaded before)
    from . import c13
    return c13.r11_no_shared_class_state(ctx, rule)

def _cp_count(ctx, rule):
    # the guesser reads LN.level with the n-gram size the trainer used (seed C07-o: _load_length given a default min_size = 4 and no
    # longer passed grammar['ngram'] - rulesets trained with another n-gram size get their lengths shifted)
    from . import c11
    return c11.r3_cp_count(ctx, rule)

def _shared_rule(mod, name, **kw):
    def run(ctx, rule):
        import importlib
        return getattr(importlib.import_module('sa.props.' + mod), name)(ctx, rule, **kw)
    return run


def r22_keyspace_types(ctx, rule):
    """omen_keyspace.txt is `level<TAB>keyspace`, both integers, and every consumer indexes the loaded table with an int level
    (get_status: self.omen_keyspace[level] with level = int(...)): load_omen_keyspace converts BOTH fields with int().  (Seed
    C12-da kept the level as the string read from the file: the status report inside a Markov level raises KeyError in the
    keyboard thread, which dies silently - a `q` typed during that level never stops the session.)"""
    q = GIO + 'load_omen_keyspace'
    fn = ctx.fn(q)
    ctx.stats['functions'].add(q)
    stores = stores_in(fn)
    rets = [r for r in walk_local(fn) if isinstance(r, ast.Return) and r.value is not None]
    if not rets or not isinstance(rets[-1].value, ast.Name):
        ctx.unk(rule, q, 'load_omen_keyspace does not return a named table')
        return
    tbl = rets[-1].value.id
    pairs = []
    for st in walk_local(fn):
        if isinstance(st, ast.Assign) and len(st.targets) == 1 and isinstance(st.targets[0], ast.Subscript) and U(st.targets[0].value) == tbl:
            pairs.append((st.targets[0].slice, st.value, st))
        if isinstance(st, ast.Assign) and len(st.targets) == 1 and U(st.targets[0]) == tbl and isinstance(st.value, ast.DictComp):
            pairs.append((st.value.key, st.value.value, st))
    if not pairs:
        ctx.unk(rule, q, 'the way the keyspace table is filled is not of a form this rule knows')
        return
    ok = True
    for k, v, st in pairs:
        for what, e in (('level', k), ('keyspace', v)):
            x = expand(fn, e, stores, depth=2)
            if isinstance(x, ast.Name):
                ok = False
                ctx.unk(rule, q, 'the %s is bound in a way this rule does not follow (%s)' % (what, U(x)))
                continue
            if isinstance(x, ast.Call) and call_name(x) == 'int' and len(x.args) == 1 and isinstance(x.args[0], ast.Subscript) \
                    and isinstance(const(x.args[0].slice), int) and const(x.args[0].slice) != (0 if what == 'level' else 1):
                ok = False
                ctx.bad(rule, q, 'the %s is taken from field %s' % (what, const(x.args[0].slice)), 'omen_keyspace.txt is level<TAB>keyspace', None, st, firm=True)
                continue
            if not (isinstance(x, ast.Call) and call_name(x) == 'int' and len(x.args) == 1):
                ok = False
                ctx.bad(rule, q, 'the %s is stored as %s' % (what, U(x)[:50]), 'both columns of omen_keyspace.txt are integers and are looked '
                        'up / multiplied as integers; kept as text, the level is never found (KeyError in the status thread)', None, st, firm=True)
    if ok:
        ctx.ok(rule, q, 'level and keyspace are both converted with int() before they are stored')


def r18_scorer_encoding_before_omen(ctx, rule):
    """The scorer opens IP.level / CP.level in the ruleset's encoding: PCFGPasswordScorer.create_omen_scorer hands self.encoding to
    OmenScorer, and self.encoding is None until load_grammar has read the ruleset's config - so in password_scorer.main every path
    to create_omen_scorer passes through load_grammar (seed C07-ca: the OMEN block moved above the grammar load; the level files
    of a cp1252 / utf-16 ruleset are then decoded with the platform default)."""
    from ..cfg import CFG
    q = 'password_scorer.py::main'
    fn = ctx.fn(q)
    mod = ctx.repo.modules['password_scorer.py']
    ctx.stats['functions'].add(q)
    creates = [c for c in calls_in(fn) if isinstance(c.func, ast.Attribute) and c.func.attr == 'create_omen_scorer']
    loads = [c for c in calls_in(fn) if call_name(c) == 'load_grammar']
    if len(creates) != 1 or len(loads) != 1:
        ctx.unk(rule, q, 'expected one create_omen_scorer and one load_grammar call in main (%d / %d)' % (len(creates), len(loads)))
        return
    # the object the grammar is loaded into is the object that creates the OMEN scorer
    recv = U(creates[0].func.value)
    if not loads[0].args or U(loads[0].args[0]) != recv:
        ctx.unk(rule, q, 'load_grammar(%s) and %s.create_omen_scorer do not name the same object' % (U(loads[0].args[0]) if loads[0].args else '', recv))
        return
    pfn = ctx.fn('lib_scorer/pcfg_password_scorer.py::PCFGPasswordScorer.create_omen_scorer')
    uses_enc = any(isinstance(x, ast.Attribute) and x.attr == 'encoding' and U(x.value) == 'self' for x in ast.walk(pfn))
    if not uses_enc:
        ctx.unk(rule, q, 'create_omen_scorer no longer reads self.encoding')
        return
    from . import c08 as _c08
    cfg = CFG(fn)
    cn = cfg.node_of(_c08._stmt_of(mod, creates[0]))
    ln = cfg.node_of(_c08._stmt_of(mod, loads[0]))
    ctx.stats['paths'] += 1
    if cfg.every_path_passes(cfg.entry, cn, {ln}):
        ctx.ok(rule, q, 'every path to %s.create_omen_scorer passes through load_grammar(%s, ..), which sets the encoding' % (recv, recv))
    else:
        ctx.bad(rule, q, 'create_omen_scorer is reached without load_grammar', 'the OMEN scorer is built with encoding None: the level files '
                'are decoded with the platform default instead of the encoding recorded in the ruleset', None, creates[0], firm=True)


def rules(tier):
    return [('C07.R1', r1_separator_inclusion), ('C07.R2', lambda c, r: r2_encoding_agreement(c, r)),
            ('C07.R3', r3_record_layout), ('C07.R5', r5_strip_discipline), ('C07.R6', r6_wipe_before_write),
            ('C07.R7', r7_paths_written), ('C07.R8', c04.r5_grouping_kernel), ('C07.R9', lambda c, r: c03.r1_tag_chain(c, r, scope='disk')),
            ('C07.R10', r10_loader_complete), ('C07.R11', _renorm), ('C07.R12', _not_aliased), ('C07.R13', r13_recorded_encoding_verbatim), ('C07.R14', _scorer_state_per_object), ('C07.R15', _cp_count),
            # C07-cb: the scorer reads LN.level line k as the level of length k+1
            ('C07.R16', _shared_rule('c11', 'r1_formula_skeleton')),
            # C10-ca: a config option means the same to writer and reader
            ('C07.R17', _shared_rule('c10', 'r20_omen_config_keys')),
            # C07-ca: OMEN scorer initialised before the grammar (and the encoding) is loaded
            ('C07.R18', _shared_rule('c07', 'r18_scorer_encoding_before_omen')),
            # C07-da: value lines written through csv.writer - a value containing a double quote is quoted on disk, every reader still splits on TAB
            ('C07.R19', _shared_rule('c06', 'r2_all_items_written')),
            # C07-db: A12 paired with C1 instead of C12 (len_str = replacement[i][1])
            ('C07.R20', _shared_rule('c03', 'r3_mask_insertion')),
            # C09-da / C19-da: the error policy of a reader is part of what a ruleset file means
            ('C07.R21', _shared_rule('plumbing', 'decode_error_policy')),
            # C12-da: the OMEN level read from omen_keyspace.txt kept as a string
            ('C07.R22', _shared_rule('c07', 'r22_keyspace_types')),
            # mutation sweep: a base structure means the same transitions to the loader as to the trainer
            ('C07.R23', _shared_rule('c14', 'r20_structure_tokeniser')),
            # mutation sweep: IP.level / CP.level mean the same to the scorer as to the guesser
            ('C07.R24', _shared_rule('c11', 'r20_scorer_table_fields')),
            # C07-eb: the scorer loader stores NFC-normalised keys
            ('C07.R25', _shared_rule('c13', 'r5_loader')),
            # C07-eb: the scorer normalises the password before segmenting it
            ('C07.R26', _shared_rule('c13', 'r1_detector_order')),
            # a terminal file means the same values to the guesser whatever the options
            ('C07.R27', _shared_rule('plumbing', 'terminals_stored_as_read')),
            # C07-ga: the scorer's loader drops lines with probability 1.0 (single-value files)
            ('C07.R28', _shared_rule('plumbing', 'loader_prob_verbatim'))]


META = {
    'explanation': 'Writer/reader tables extracted from both sides: the character set check_valid rejects includes TAB and '
                   'the line-separator set of every reader kind (codecs readers split with str.splitlines); the filter sees '
                   'the final yielded value; for every trainer-written file each reader site opens it with the same encoding '
                   'class (call-site specialised); record layout (value TAB str(prob) LF; level TAB n-gram LF) and field use '
                   'agree; readers strip only what cannot belong to a value; folders are wiped on every path before writing; '
                   'every file read is written; exact-equality grouping; category tag chain.',
    'trusted_base': ['python ast', 'A4: codecs stream iteration splits on the str.splitlines set, builtin text open on \\n/\\r',
                     'str(float) is the shortest round-tripping repr', 'call-site specialisation depth 4'],
    'assumptions': ['A3 the process locale encoding is ASCII-compatible (ASCII writer / DEFAULT reader accepted)'],
    'not_decided': 'nothing value-level; numeric round trip rests on str(float)/float()',
    'technique': 'set inclusion over extracted reject/separator sets + writer/reader encoding-class table with call-site '
                 'specialisation + CFG must-pass-through (validate-before-yield, wipe-before-write)',
}

META['explanation'] += ' ' + "Further: loader completeness (the only skipped lines are the loader's error recovery)."
META['explanation'] += ' ' + 'Round 14: neither terminal loader rewrites a probability or drops a line because of its probability (1.0 of a single-value file, 0.0).'
