"""C08 - resume loses nothing and repeats only the tied group (DESIGN section 4, C08)."""
import ast

from ..core import (U, walk_local, calls_in, call_name, const, NOCONST, params, stores_in, single_def, expand,
                    walk_stmts, arg_for, path_conditions, dotted, kwarg, param_default)
from ..order import Terms, tabulate, show_table, outcomes, eval_cond, LT, EQ, GT, Hooks
from ..cfg import CFG
from .common import (PG, PGF, PQ, PQF, CS, CSF, find_prob_call, position_loops, neighbour_in_loop, analyse_step,
                     resolve_range_src)
from . import c01

MAIN = 'pcfg_guesser.py::main'
LOAD_SAVE = 'pcfg_guesser.py::load_save'
SR = 'lib_guesser/status_report.py::StatusReport.'


def _stmt_of(mod, node):
    cur = node
    while cur is not None and not isinstance(cur, ast.stmt):
        cur = mod.parents.get(id(cur))
    return cur


def r1_uuid_gate(ctx, rule):
    fn = ctx.fn(MAIN)
    mod = ctx.repo.modules['pcfg_guesser.py']
    cfg = CFG(fn)
    # the resume call: X.run(load_session=...) of a CrackingSession
    runs = [c for c in calls_in(fn) if isinstance(c.func, ast.Attribute) and c.func.attr == 'run'
            and kwarg(c, 'load_session') is not None]
    loads = [c for c in calls_in(fn) if call_name(c) == 'load_save']
    if not runs or not loads:
        ctx.unk(rule, MAIN, 'cannot find load_save(...) and <session>.run(load_session=...) in main')
        return
    run_n = cfg.node_of(_stmt_of(mod, runs[0]))
    load_n = cfg.node_of(_stmt_of(mod, loads[0]))
    # comparison of the two uuids
    cmp_nodes = []
    has_nodes = []
    for nid, n in cfg.nodes.items():
        if n.kind == 'test' and isinstance(n.stmt, ast.If):
            t = n.stmt.test
            if isinstance(t, ast.Compare) and len(t.ops) == 1 and isinstance(t.ops[0], (ast.Eq, ast.NotEq)):
                l, r = U(t.left), U(t.comparators[0])
                if 'uuid' in l and 'uuid' in r and (('save_config' in l) != ('save_config' in r)) \
                        and ('ruleset_info' in l or 'ruleset_info' in r):
                    cmp_nodes.append((nid, isinstance(t.ops[0], ast.NotEq)))
            if isinstance(t, ast.Call) and isinstance(t.func, ast.Attribute) and t.func.attr == 'has_option' \
                    and [const(a) for a in t.args] == ['rule_info', 'uuid']:
                has_nodes.append(nid)
    facts = {'uuid_comparisons': [repr(cfg.nodes[n]) for n, _ in cmp_nodes]}
    if not cmp_nodes:
        ctx.bad(rule, MAIN, 'no comparison of the saved uuid with the ruleset uuid',
                'a session must be refused when the ruleset uuid differs from the saved one', facts, fn)
        return
    nid, is_ne = cmp_nodes[0]
    unequal_label = 'T' if is_ne else 'F'
    # (a) the unequal branch cannot reach the run
    starts = [b for b, lab in cfg.succ[nid] if lab == unequal_label]
    leak = any(run_n in cfg.reachable(b) for b in starts)
    # (b) every path load_save -> run passes the comparison (has_option(uuid) holds after a successful load_save)
    avoid = {(h, 'F') for h in has_nodes}
    gate = cfg.every_path_passes(load_n, run_n, {nid}, avoid_edges=avoid)
    ctx.stats['paths'] += 2
    if leak:
        ctx.bad(rule, MAIN, 'uuid mismatch branch reaches run()', 'the branch taken when the uuids differ must leave '
                'main without starting the session', facts, cfg.nodes[nid].stmt)
    elif not gate:
        w = cfg.witness_path(load_n, run_n, avoid=[nid])
        facts['witness'] = cfg.describe(w) if w else None
        ctx.bad(rule, MAIN, 'path from load_save to run() that skips the uuid comparison',
                'every resumed session must pass the uuid comparison', facts, cfg.nodes[run_n].stmt)
    else:
        ctx.ok(rule, MAIN, 'uuid comparison dominates the resumed run; mismatch branch leaves main', facts)
    # load_save rejects a file without uuid
    ls = ctx.fn(LOAD_SAVE)
    okk = False
    for n in walk_local(ls):
        if isinstance(n, ast.If):
            t = n.test
            neg = isinstance(t, ast.UnaryOp) and isinstance(t.op, ast.Not)
            c = t.operand if neg else t
            if isinstance(c, ast.Call) and isinstance(c.func, ast.Attribute) and c.func.attr == 'has_option' \
                    and [const(a) for a in c.args] == ['rule_info', 'uuid']:
                br = n.body if neg else n.orelse
                if br and isinstance(br[-1], (ast.Raise, ast.Return)):
                    okk = True
    if okk:
        ctx.ok(rule, LOAD_SAVE, 'a save file without rule_info.uuid is rejected')
    else:
        ctx.bad(rule, LOAD_SAVE, 'no has_option(rule_info, uuid) rejection', 'a save file without uuid would bypass '
                'the comparison (main treats a missing uuid as a new session)', None, ls)


class RestoreHooks(Hooks):
    def __init__(self, save_name, rec_name):
        super().__init__()
        self.save_name = save_name
        self.rec_name = rec_name

    def event(self, stmt):
        for c in calls_in(stmt):
            d = call_name(c)
            if d == self.save_name:
                return 'save'
            if d == self.rec_name:
                return 'descend'
        return None

    def loop(self, stmt):
        for c in calls_in(stmt):
            if call_name(c) == self.rec_name:
                return 'descend'
        return 'loop'


def _returns_outside_prob_tests(stmts, amax):
    """a `return` the position guard alone decides: nested `if <.. prob ..>:` blocks (the parent test itself, which the any() / guard-first
    spellings put under the position guard) are not entered"""
    for st in stmts:
        if isinstance(st, ast.Return):
            return True
        if isinstance(st, ast.If):
            t = U(st.test)
            if 'prob' in t or (amax and amax in t):
                continue
            if _returns_outside_prob_tests(st.body + st.orelse, amax):
                return True
        elif isinstance(st, (ast.For, ast.While, ast.With, ast.Try)):
            inner = list(getattr(st, 'body', [])) + list(getattr(st, 'orelse', [])) + list(getattr(st, 'finalbody', []))
            for h in getattr(st, 'handlers', []):
                inner += h.body
            if _returns_outside_prob_tests(inner, amax):
                return True
    return False


def restore_regions(ctx, rule):
    """(candidate region C, around region A, facts) or None."""
    qual = PG + '_recursive_restore_prob_order'
    fn = ctx.fn(qual)
    ps = params(fn)   # self, pt_item, max_prob, min_prob, save_function, left_index
    # roles from restore_prob_order's call
    launcher = ctx.fn(PG + 'restore_prob_order')
    lcall = [c for c in calls_in(launcher) if call_name(c) == 'self._recursive_restore_prob_order']
    # the queue's call of restore_prob_order: in restore_base_item, or wherever that call now lives in PcfgQueue
    pcall = []
    for lname_, f_ in ctx.repo.modules[PQ.partition('::')[0]].funcs.items():
        if lname_.startswith('PcfgQueue.'):
            pcall += [c for c in calls_in(f_) if call_name(c) == 'self.pcfg.restore_prob_order']
    if len(lcall) != 1 or len(pcall) != 1:
        ctx.unk(rule, qual, 'restore call chain not found')
        return None
    role = {}
    lps = params(launcher)
    for pname in lps[1:]:
        a = arg_for(pcall[0], launcher, pname)
        if a is None:
            continue
        t = U(a)
        if t == 'self.max_probability':
            role_l = 'max'
        elif t == 'self.min_probability':
            role_l = 'min'
        elif t in ('self.insert_queue',):
            role_l = 'save'
        else:
            role_l = 'item'
        role[pname] = role_l
    krole = {}
    for pname in ps[1:]:
        a = arg_for(lcall[0], fn, pname)
        if a is not None and isinstance(a, ast.Name) and a.id in role:
            krole[role[a.id]] = pname
    if not {'max', 'min', 'save', 'item'} <= set(krole):
        ctx.unk(rule, qual, 'cannot determine parameter roles (%s)' % krole)
        return None
    stores = stores_in(fn)
    sp = {"%s['prob']" % krole['item']: 'P', krole['max']: 'MAX', krole['min']: 'MIN'}
    for name, lst in stores.items():
        if len(lst) == 1 and lst[0][1] is not None and U(lst[0][1]) == "%s['prob']" % krole['item']:
            sp[name] = 'P'
    terms = Terms(sp)
    body = [s for s in fn.body if not (isinstance(s, ast.Expr) and isinstance(s.value, ast.Constant))]
    body = [s for s in body if not (isinstance(s, ast.Assign) and len(s.targets) == 1
                                    and isinstance(s.targets[0], ast.Name) and s.targets[0].id in sp)]
    hooks = RestoreHooks(krole['save'], 'self._recursive_restore_prob_order')
    around_calls = [c for c in calls_in(fn) if call_name(c) == 'self.is_parent_around']
    facts = {'roles': krole}
    pairs = [('P', 'MAX')]
    res = {}
    for around in (True, False):
        fx = {U(c): around for c in around_calls}
        # P >= MIN assumed (MIN is the memory-management floor, 0.0 in every session)
        tab = {}
        for rel in (LT, EQ, GT):
            sig = {('P', 'MAX'): rel, ('P', 'MIN'): GT}
            tab[rel] = outcomes(body, sig, terms, hooks, fx)
        res[around] = tab
        ctx.stats['kernel_states'] += 3
    # a node exactly AT the floor (min_prob is 0.0 in every session; rulesets do contain zero-probability groups, e.g. unused OMEN
    # levels) must be treated like a node above it: only nodes strictly below the floor are dropped
    for around in (True, False):
        fx = {U(c): around for c in around_calls}
        for rel in (LT, EQ, GT):
            at_floor = outcomes(body, {('P', 'MAX'): rel, ('P', 'MIN'): EQ}, terms, hooks, fx)
            norm = lambda outs: sorted('%s %s [%s]' % (k, d, '+'.join(t)) for k, d, t in outs)
            if norm(at_floor) != norm(res[around][rel]):
                ctx.bad(rule, qual, 'a node with probability == min_prob is handled as %s, one above it as %s' % (norm(at_floor)[:2], norm(res[around][rel])[:2]),
                        'min_prob is 0.0: the test must drop only nodes strictly below it, a zero-probability node (and its sub-tree) '
                        'is otherwise lost by every restore', None, fn, firm=True)
                return None
        ctx.stats['kernel_states'] += 3
    facts['table'] = {('around=%s' % a): {rel: sorted('%s %s [%s]' % (k, d, '+'.join(t)) for k, d, t in outs)
                                           for rel, outs in tab.items()} for a, tab in res.items()}
    if not around_calls:
        facts['note'] = 'no is_parent_around call'
    # is_parent_around kernel
    aq = PG + 'is_parent_around'
    afn = ctx.fn(aq)
    aps = params(afn)
    amax = None
    if around_calls:
        for pname in aps[1:]:
            a = arg_for(around_calls[0], afn, pname)
            if a is not None and U(a) == krole['max']:
                amax = pname
    astores = stores_in(afn)
    aloops = [x for x in position_loops(afn)]
    A = None
    if amax and len(aloops) == 1:
        loop, pos, item, src, start = aloops[0]
        for g_ in loop.body:
            if isinstance(g_, ast.If) and 'prob' not in U(g_.test) and amax not in U(g_.test) \
                    and _returns_outside_prob_tests(g_.body + g_.orelse, amax):
                ctx.bad(rule, aq, 'a position is skipped by returning: if %s: %s' % (U(g_.test)[:40], U(g_.body[-1])[:30]),
                        'a position without a parent (index 0) says nothing about the positions to its right: the loop must go on', None, g_, firm=True)
                return None
        brk_ = [x for b_ in loop.body for x in ast.walk(b_) if isinstance(x, ast.Break)]
        if brk_:
            ctx.bad(rule, aq, 'the parent loop of is_parent_around is left by break (line %d)' % brk_[0].lineno,
                    'parents at the positions to the right are never looked at: a child whose live parent sits there is restored although '
                    'that parent will push it again', None, brk_[0], firm=True)
            return None
        nb = neighbour_in_loop(afn, loop, pos, item, src, astores)
        if nb is not None and resolve_range_src(afn, nb, astores):
            analyse_step(afn, nb, astores)
            pprob = None
            for st in walk_stmts(loop.body):
                if isinstance(st, ast.Assign) and len(st.targets) == 1 and isinstance(st.targets[0], ast.Name):
                    fp = find_prob_call(st.value)
                    if fp and U(fp[0]) == nb.new:
                        pprob = st.targets[0].id
            if not pprob:
                # the probability compared in place: if self._find_prob(<neighbour>, ..) <= max_prob
                for n_ in ast.walk(loop):
                    if isinstance(n_, ast.Compare):
                        if not pprob:
                            for side in [n_.left] + list(n_.comparators):
                                if isinstance(side, ast.Call) and find_prob_call(side) and U(find_prob_call(side)[0]) == nb.new:
                                    pprob = U(side)
            if pprob:
                aterms = Terms({pprob: 'PP', amax: 'MAX'})
                amod = ctx.repo.modules[PGF]
                exist = {}
                for test, pol in path_conditions(amod, nb.store_stmt, stop=loop):
                    if eval_cond(test, {('PP', 'MAX'): LT}, aterms) is None:
                        exist[U(test)] = pol
                A = set()
                atab = {}
                for rel in (LT, EQ, GT):
                    outs = outcomes(loop.body, {('PP', 'MAX'): rel}, aterms, Hooks(allow_def={pprob} if pprob.isidentifier() else set()), exist)
                    atab[rel] = sorted('%s %s' % (k, d) for k, d, t in outs)
                    kinds = {(k, d) for k, d, t in outs}
                    if kinds == {('return', 'True')}:
                        A.add(rel)
                    elif kinds <= {('fall', ''), ('continue', '')}:
                        pass
                    else:
                        A.add('?' + rel)
                    ctx.stats['kernel_states'] += 1
                facts['around_table'] = atab
                abody = [s for s in afn.body if not (isinstance(s, ast.Expr) and isinstance(s.value, ast.Constant))]
                idx = next((i for i, s in enumerate(abody) if s is loop), None)
                after = outcomes(abody[idx + 1:], {}, aterms) if idx is not None else set()
                facts['around_after_loop'] = sorted('%s %s' % (k, d) for k, d, t in after)
                facts['around_after_ok'] = {(k, d) for k, d, t in after} == {('return', 'False')}
    return res, A, facts, krole


def r2_region_agreement(ctx, rule):
    qual = PG + '_recursive_restore_prob_order'
    r = restore_regions(ctx, rule)
    if r is None:
        return
    res, A, facts, krole = r
    fn = ctx.repo.fn(qual)

    def has(outs, ev):
        return any(ev in t for k, d, t in outs)

    def unknown(outs):
        return any(k == 'unknown' or d == 'unknown' for k, d, t in outs)
    for around in (True, False):
        for rel in (LT, EQ, GT):
            if unknown(res[around][rel]):
                ctx.unk(rule, qual, 'cannot evaluate the restore walk for prob %s max (around=%s)' % (rel, around), facts)
                return
    # candidate region: relations for which the node itself may be queued (save possible when no parent is around)
    C = {rel for rel in (LT, EQ, GT) if has(res[False][rel], 'save')}
    descends = {rel for rel in (LT, EQ, GT) if has(res[False][rel], 'descend') or has(res[True][rel], 'descend')}
    facts['candidate_region'] = sorted(C)
    facts['descend_region'] = sorted(descends)
    facts['around_region'] = sorted(A) if A is not None else None
    ok = True
    if EQ not in C or LT not in C:
        ok = False
        ctx.bad(rule, qual, 'candidate region %s' % sorted(C),
                'a node whose probability equals (or is below) the saved position must be restorable: the node popped '
                'when the user quit was not guessed yet', facts, fn)
    if GT in C:
        ok = False
        ctx.bad(rule, qual, 'candidate region %s contains GT' % sorted(C),
                'a node more probable than the saved position was already guessed and must not be queued again', facts, fn)
    if GT not in descends:
        ok = False
        ctx.bad(rule, qual, 'prob > max does not descend', 'the walk must pass through already-guessed nodes to reach '
                'the frontier', facts, fn)
    if descends & C:
        ok = False
        ctx.bad(rule, qual, 'candidate handling descends for %s' % sorted(descends & C),
                'children of a restored candidate are created twice (by the walk and when the candidate is popped)', facts, fn)
    for rel in C:
        if has(res[True][rel], 'save'):
            ok = False
            ctx.bad(rule, qual, 'candidate with a parent around is saved (prob %s max)' % rel,
                    'a candidate whose adopting parent will be restored is pushed again by that parent: duplicate', facts, fn)
    if A is None:
        ctx.unk(rule, PG + 'is_parent_around', 'cannot tabulate is_parent_around', facts)
        return
    if any(str(a).startswith('?') for a in A) or not facts.get('around_after_ok'):
        ok = False
        ctx.bad(rule, PG + 'is_parent_around', 'around kernel not a pure existential test: %s / after loop %s'
                % (facts.get('around_table'), facts.get('around_after_loop')),
                'is_parent_around must return True iff some parent lies in the restored region', facts,
                ctx.repo.fn(PG + 'is_parent_around'))
    elif A != C:
        ok = False
        ctx.bad(rule, PG + 'is_parent_around', 'around region %s != candidate region %s' % (sorted(A), sorted(C)),
                'a parent counts as "around" for exactly the probabilities for which a node is restored; if the around '
                'region is smaller, children of a restored parent are queued too and come out twice; if larger, nodes '
                'are lost', facts, ctx.repo.fn(PG + 'is_parent_around'))
    if ok:
        ctx.ok(rule, qual, 'candidate region = around region = {LT, EQ}; prob > max descends; candidates never descend; '
               'a candidate is saved iff no parent is around', facts)


def r3_canonical_descent(ctx, rule):
    qual = PG + '_recursive_restore_prob_order'
    fn = ctx.fn(qual)
    stores = stores_in(fn)
    ps = params(fn)
    rec = [c for c in calls_in(fn) if call_name(c) == 'self._recursive_restore_prob_order']
    loops = [x for x in position_loops(fn)]
    if len(rec) != 1 or len(loops) != 1:
        ctx.unk(rule, qual, 'expected one recursive call and one position loop (found %d, %d)' % (len(rec), len(loops)))
        return
    loop, pos, item, src, start = loops[0]
    facts = {'loop': U(loop.iter), 'recursive_call': U(rec[0])}
    # which parameter is the start of the range?
    if start is None or not isinstance(start, ast.Name) or start.id not in ps:
        ctx.bad(rule, qual, 'position loop starts at %s' % (U(start) if start is not None else '0 (all positions)'),
                'children must be generated only at positions >= the position last incremented (canonical order); '
                'otherwise a node is reached along several paths and restored more than once', facts, loop)
        return
    li = start.id
    d = param_default(fn, li)
    if d is None or const(d) != 0:
        ctx.bad(rule, qual, 'left index default %s' % U(d), 'the walk must start at position 0 for the root', facts, fn)
        return
    a = arg_for(rec[0], fn, li)
    if a is None or U(a) != pos:
        ctx.bad(rule, qual, 'recursive call passes %s=%s' % (li, U(a) if a is not None else '<default>'),
                'the recursive call must pass the position just incremented as the new left index', facts, rec[0])
        return
    # other parameters unchanged
    ok = True
    for pname in ps[2:]:
        if pname == li:
            continue
        aa = arg_for(rec[0], fn, pname)
        if aa is None or U(aa) != pname:
            ok = False
            ctx.bad(rule, qual, 'recursive call changes %s to %s' % (pname, U(aa) if aa is not None else '<default>'),
                    'max/min/save callback must be passed down unchanged', facts, rec[0])
    # the launcher does not pass a left index
    launcher = ctx.fn(PG + 'restore_prob_order')
    lc = [c for c in calls_in(launcher) if call_name(c) == 'self._recursive_restore_prob_order']
    if lc and arg_for(lc[0], fn, li) is not None and const(arg_for(lc[0], fn, li)) != 0:
        ok = False
        ctx.bad(rule, PG + 'restore_prob_order', 'root walk starts at ' + U(arg_for(lc[0], fn, li)),
                'the root must be walked from position 0', facts, lc[0])
    # loop covers up to the end: stop == len(list)
    nb = neighbour_in_loop(fn, loop, pos, item, src, stores)
    if nb is None or not resolve_range_src(fn, nb, stores):
        ok = False
        ctx.bad(rule, qual, 'range end ' + U(loop.iter), 'the loop must run to the last position', facts, loop)
    if ok:
        ctx.ok(rule, qual, 'children only at positions >= left_index; recursive call passes the loop position', facts)
    # all base structures are walked on restore
    from .common import queue_init_modes
    modes = queue_init_modes(ctx, PQ + '__init__')
    found = any(x in ('self.restore_base_item', 'self.pcfg.restore_prob_order') for x in modes['restore'])
    if modes.get('per_item'):
        ctx.bad(rule, PQ + '__init__', 'base structures are restored selectively: %s' % modes['per_item'][0][:90],
                'every base structure must be restored: the nodes of a skipped one that were still queued when the session was saved '
                '(for the Markov structure: every level after the interrupted one) are never emitted by the resumed run', None, None)
        return
    if not found and modes['unknown']:
        ctx.unk(rule, PQ + '__init__', 'the restore walk depends on conditions that are not understood: %s' % modes['unknown'][:3])
        return
    if found:
        ctx.ok(rule, PQ + '__init__', 'restore walks every base structure')
    else:
        ctx.bad(rule, PQ + '__init__', 'restore path does not walk every base structure',
                'every base structure must be restored', None, None)


def r4_saved_position(ctx, rule):
    nq = PQ + 'next'
    fn = ctx.fn(nq)
    mod = ctx.repo.modules[PQF]
    cfg = CFG(fn)
    pops = [c for c in calls_in(fn) if call_name(c) in ('heapq.heappop',)]
    if len(pops) != 1:
        ctx.unk(rule, nq, 'expected one heappop')
        return
    pop_stmt = _stmt_of(mod, pops[0])
    popped = pop_stmt.targets[0].id if isinstance(pop_stmt, ast.Assign) and isinstance(pop_stmt.targets[0], ast.Name) else None
    assigns = []
    for n in walk_local(fn):
        if isinstance(n, ast.Assign) and len(n.targets) == 1 and U(n.targets[0]) == 'self.max_probability':
            assigns.append(n)
    # the popped value may be bound as the QueueItem (x.pt_item['prob']) or already unwrapped (x = heappop(..).pt_item; x['prob'])
    unwrapped = isinstance(pop_stmt, ast.Assign) and isinstance(pop_stmt.value, ast.Attribute) and pop_stmt.value.attr == 'pt_item' \
        and pop_stmt.value.value is pops[0]
    good = [a for a in assigns if popped and U(a.value) in (("%s['prob']" % popped,) if unwrapped else ("%s.pt_item['prob']" % popped,))]
    facts = {'pop': U(pop_stmt), 'assignments': [U(a) for a in assigns]}
    if not good:
        ctx.bad(rule, nq, 'max_probability not updated from the popped item: %s' % facts['assignments'],
                'the saved position must be the probability of the node popped last', facts, pop_stmt)
    else:
        pn = cfg.node_of(pop_stmt)
        gn = {cfg.node_of(a) for a in good}
        if cfg.every_path_passes(pn, cfg.exit, gn):
            ctx.ok(rule, nq, 'max_probability := popped probability on every path that pops', facts)
        else:
            ctx.bad(rule, nq, 'a path from the pop to the return skips the max_probability update',
                    'the saved position must be updated on every pop', facts, pop_stmt)
        ctx.stats['paths'] += 1
    # quit path of run(): _save_session precedes the break/return
    rq = CS + 'run'
    rfn = ctx.fn(rq)
    rmod = ctx.repo.modules[CSF]
    quit_ifs = [n for n in walk_local(rfn) if isinstance(n, ast.If) and 'should_exit' in U(n.test)]
    if not quit_ifs:
        ctx.unk(rule, rq, 'no quit test on should_exit in run()')
        return
    for q in quit_ifs:
        body = q.body
        exits = [s for s in walk_stmts(body) if isinstance(s, (ast.Break, ast.Return))]
        saves = [s for s in body if isinstance(s, ast.Expr) and isinstance(s.value, ast.Call)
                 and call_name(s.value) == 'self._save_session']
        if not exits:
            continue
        first_exit = min(body.index(s) if s in body else len(body) for s in exits)
        if not saves or body.index(saves[0]) > first_exit:
            ctx.bad(rule, rq, 'quit branch leaves the loop without _save_session() first',
                    'the session state must be saved before the run stops on a quit', None, q)
        else:
            ctx.ok(rule, rq, '_save_session() precedes the exit on the quit branch')
    # exhaustion: a quit requested during the last pre-terminal is never seen at a boundary; the final position must be saved
    ex = [n for n in walk_local(rfn) if isinstance(n, ast.If) and U(n.test) in ('pt_item is None', 'not pt_item', 'pt_item == None')]
    if not ex:
        ctx.unk(rule, rq, 'exhaustion test (pt_item is None) not found in run()')
    else:
        b = ex[0].body
        sv = [k for k, s_ in enumerate(b) if isinstance(s_, ast.Expr) and isinstance(s_.value, ast.Call) and call_name(s_.value) == 'self._save_session']
        xt = [k for k, s_ in enumerate(b) if isinstance(s_, (ast.Return, ast.Break))]
        if sv and xt and sv[0] < xt[0]:
            ctx.ok(rule, rq, 'the final position is saved when the grammar is exhausted')
        else:
            ctx.bad(rule, rq, 'run() returns on exhaustion without saving',
                    'a quit requested while the last pre-terminal is expanded is never noticed at a boundary; if the session is '
                    'not saved then, the save file still describes an earlier position and --load repeats everything after it',
                    None, ex[0])
    # _save_session reaches the queue's update_save_config which writes max_probability, and writes the file
    sq = CS + '_save_session'
    sfn = ctx.fn(sq)
    calls = [call_name(c) for c in calls_in(sfn)]
    uq = ctx.fn(PQ + 'update_save_config')
    writes = {}
    for c in calls_in(uq):
        if isinstance(c.func, ast.Attribute) and c.func.attr == 'set' and len(c.args) == 3:
            writes[(const(c.args[0]), const(c.args[1]))] = U(c.args[2])
    w = writes.get(('guessing_info', 'max_probability'))
    facts = {'save_session_calls': calls, 'queue_writes': {str(k): v for k, v in writes.items()}}
    ok = 'self.pqueue.update_save_config' in calls and w in ('str(self.max_probability)', 'repr(self.max_probability)') \
        and any(c and c.endswith('.write') for c in calls)
    # the update must not be conditional on anything but the mode - and on the mode the right way round
    smod = ctx.repo.modules[CSF]
    for c in calls_in(sfn):
        if call_name(c) == 'self.pqueue.update_save_config':
            for t, pol in path_conditions(smod, _stmt_of(smod, c)):
                txt = U(t)
                if txt in ("self.mode == 'priority_queue'", "'priority_queue' == self.mode"):
                    if not pol:
                        ok = False
                elif txt in ("self.mode != 'priority_queue'", "'priority_queue' != self.mode"):
                    if pol:
                        ok = False
                elif 'self.mode' in txt:
                    ctx.unk(rule, sq, 'the queue position is saved under a test on the mode this rule does not know: ' + txt[:60])
                    return
            if not ok:
                ctx.bad(rule, sq, 'the queue position is saved only when the mode is NOT priority_queue',
                        'in the probability-order mode every save must carry the position of the queue (max_probability / min_probability); '
                        'without them the save file describes nothing', facts, c, firm=True)
                return
    if ok:
        ctx.ok(rule, sq, '_save_session -> PcfgQueue.update_save_config writes max_probability = str(self.max_probability) '
               'and the config is written to disk', facts)
    else:
        ctx.bad(rule, sq, 'saved max_probability: %s' % w, 'the save path must persist the exact popped probability '
                '(str/repr of the float) and write the file', facts, sfn)


GETTERS = {'get': 'str', 'getint': 'int', 'getfloat': 'float', 'getboolean': 'bool'}


def config_reads(fn, cfgnames=None):
    """[(section, option, getter, node)] with constant keys; loops over constant lists are specialised."""
    out = []
    consts_for = {}
    for n in walk_local(fn):
        if isinstance(n, ast.For) and isinstance(n.target, ast.Name) and isinstance(n.iter, (ast.List, ast.Tuple)):
            vals = [const(e) for e in n.iter.elts]
            if all(isinstance(v, str) for v in vals):
                consts_for[n.target.id] = vals
    for c in calls_in(fn):
        if isinstance(c.func, ast.Attribute) and c.func.attr in GETTERS and len(c.args) >= 2:
            recv = U(c.func.value)
            if 'config' not in recv:
                continue
            secs = [const(c.args[0])] if const(c.args[0]) is not NOCONST else consts_for.get(getattr(c.args[0], 'id', None), [None])
            opts = [const(c.args[1])] if const(c.args[1]) is not NOCONST else consts_for.get(getattr(c.args[1], 'id', None), [None])
            for s in secs:
                for o in opts:
                    out.append((s, o, c.func.attr, c))
    # subscript reads: cfg['sec']['opt']
    for n in walk_local(fn):
        if isinstance(n, ast.Subscript) and isinstance(n.ctx, ast.Load) and isinstance(n.value, ast.Subscript):
            if 'config' in U(n.value.value) and isinstance(const(n.slice), str) and isinstance(const(n.value.slice), str):
                out.append((const(n.value.slice), const(n.slice), 'get', n))
    return out


def config_writes(fn):
    out = []
    sec_var = {}
    for st in walk_stmts(fn.body):
        if isinstance(st, ast.Assign) and len(st.targets) == 1 and isinstance(st.targets[0], ast.Name) \
                and isinstance(const(st.value), str):
            sec_var[st.targets[0].id] = const(st.value)
        for c in calls_in(st) if not isinstance(st, (ast.If, ast.For, ast.While, ast.Try, ast.With)) else []:
            if isinstance(c.func, ast.Attribute) and c.func.attr == 'set' and len(c.args) == 3 and 'config' in U(c.func.value):
                s = const(c.args[0])
                if s is NOCONST and isinstance(c.args[0], ast.Name):
                    s = sec_var.get(c.args[0].id)
                out.append((s, const(c.args[1]), c.args[2], c))
    # options written from a table: for k, v in {<const keys>: ...}.items(): config.set(section, k, <value of v>)
    dlits = {n.targets[0].id: n.value for n in walk_local(fn) if isinstance(n, ast.Assign) and len(n.targets) == 1
             and isinstance(n.targets[0], ast.Name) and isinstance(n.value, ast.Dict)}
    for lp in [n for n in walk_local(fn) if isinstance(n, ast.For) and isinstance(n.target, ast.Tuple) and len(n.target.elts) == 2
               and all(isinstance(e, ast.Name) for e in n.target.elts)]:
        it = lp.iter
        if not (isinstance(it, ast.Call) and isinstance(it.func, ast.Attribute) and it.func.attr == 'items' and not it.args):
            continue
        d = it.func.value
        if isinstance(d, ast.Name):
            d = dlits.get(d.id)
        if not (isinstance(d, ast.Dict) and d.keys and all(k is not None and isinstance(const(k), str) for k in d.keys)):
            continue
        kv, vv = lp.target.elts[0].id, lp.target.elts[1].id
        for c in calls_in(lp):
            if isinstance(c.func, ast.Attribute) and c.func.attr == 'set' and len(c.args) == 3 and 'config' in U(c.func.value) \
                    and isinstance(c.args[1], ast.Name) and c.args[1].id == kv:
                s = const(c.args[0])
                if s is NOCONST and isinstance(c.args[0], ast.Name):
                    s = sec_var.get(c.args[0].id)
                for k, v in zip(d.keys, d.values):
                    # the value expression with the loop variable replaced by the table entry
                    import copy as _cp

                    class T(ast.NodeTransformer):
                        def visit_Name(self, n_):
                            return _cp.deepcopy(v) if n_.id == vv and isinstance(n_.ctx, ast.Load) else n_
                    out.append((s, const(k), T().visit(_cp.deepcopy(c.args[2])), c))
    return out


def r5_sav_keys(ctx, rule, sections=None, floor=10):
    readers = [LOAD_SAVE, MAIN, SR + 'load', PQ + '__init__', CS + 'run']
    writers = ['pcfg_guesser.py::create_save_config', MAIN, SR + 'update_save_config', PQ + 'update_save_config',
               CS + '_save_session']
    written = {}
    for w in writers:
        for s, o, v, node in config_writes(ctx.fn(w)):
            written[(s, o)] = (w, v)
    # type of a written value from the defaults
    main = ctx.fn(MAIN)
    defaults = {}
    for n in walk_local(main):
        if isinstance(n, ast.Dict):
            for k, v in zip(n.keys, n.values):
                if k is not None and isinstance(const(k), str) and const(v) is not NOCONST:
                    defaults[const(k)] = type(const(v)).__name__

    def vtype(node):
        if isinstance(node, ast.Call) and call_name(node) in ('str', 'repr') and node.args:
            a = node.args[0]
            if isinstance(a, ast.Subscript) and isinstance(const(a.slice), str) and 'program_info' in U(a.value):
                return defaults.get(const(a.slice))
        return None
    nreads = 0
    bad = False
    for r in readers:
        for s, o, getter, node in config_reads(ctx.fn(r)):
            if s is None or o is None:
                continue
            if sections is not None and s not in sections:
                continue
            nreads += 1
            if (s, o) not in written:
                bad = True
                ctx.bad(rule, r, 'reads [%s] %s which no save path writes' % (s, o),
                        'every option read from the .sav must be written by the save path', None, node)
                continue
            wt = vtype(written[(s, o)][1])
            want = {'bool': {'getboolean'}, 'int': {'getint', 'getfloat'}, 'float': {'getfloat'}}.get(wt)
            if want and getter not in want:
                bad = True
                ctx.bad(rule, r, '[%s] %s written as str(%s) but read with %s()' % (s, o, wt, getter),
                        'the option does not round-trip: a str(bool) read back with get() is the non-empty string '
                        "'False'/'True', which is always true", {'writer': written[(s, o)][0]}, node)
    if ctx.floor(rule, 'pcfg_guesser.py', nreads, floor, 'constant-key reads of the save config') and not bad:
        ctx.ok(rule, 'pcfg_guesser.py', 'all %d (section, option) reads of the .sav are written by the save path with '
               'round-tripping types' % nreads, {'written': sorted('%s.%s' % k for k in written)})


def r11_restore_is_verbatim(ctx, rule):
    """load_save copies rule name and flags from the save file unconditionally and never edits the loaded config."""
    fn = ctx.fn(LOAD_SAVE)
    mod = ctx.repo.modules['pcfg_guesser.py']
    ps = params(fn)
    if len(ps) < 2:
        ctx.unk(rule, LOAD_SAVE, 'load_save no longer receives the option dictionary it restores into (parameters %s)' % ps)
        return
    pin = ps[1]
    ok = True
    seen = {}
    for st in walk_stmts(fn.body):
        if isinstance(st, ast.Assign) and isinstance(st.targets[0], ast.Subscript) and U(st.targets[0].value) == pin \
                and const(st.targets[0].slice) in ('rule_name', 'skip_brute', 'skip_case'):
            k = const(st.targets[0].slice)
            conds = [(U(t), p) for t, p in path_conditions(mod, st) if 'has_option' not in U(t)]
            seen[k] = (U(st.value), conds)
            if conds:
                ok = False
                ctx.bad(rule, LOAD_SAVE, "program_info['%s'] restored only under %s" % (k, conds),
                        'a resumed session must use the grammar of the saved session', None, st)
            if 'save_config.get' not in U(st.value):
                ok = False
                ctx.bad(rule, LOAD_SAVE, "program_info['%s'] = %s" % (k, U(st.value)[:50]), 'the value must come from the save file', None, st)
            else:
                # ... and from the option of the same name: the writer (create_save_config, C14.R14) stores each flag under its own key
                opts = [const(c.args[-1]) for c in ast.walk(st.value) if isinstance(c, ast.Call) and isinstance(c.func, ast.Attribute)
                        and c.func.attr in GETTERS and c.args and isinstance(const(c.args[-1]), str)]
                if opts and k not in opts:
                    ok = False
                    ctx.bad(rule, LOAD_SAVE, "program_info['%s'] restored from the option %s" % (k, opts),
                            'every flag of a saved session is read back from the key it was saved under; read from the other '
                            "flag's key, a session started with exactly one of --skip_brute / --all_lower resumes in another grammar",
                            None, st, firm=True)
    for c in calls_in(fn):
        if isinstance(c.func, ast.Attribute) and c.func.attr in ('set', 'remove_option', 'remove_section', 'add_section') and 'save_config' in U(c.func.value):
            ok = False
            ctx.bad(rule, LOAD_SAVE, 'load_save edits the loaded config: ' + U(c)[:70],
                    'the flags of a saved session are part of its identity: the saved max_probability only makes sense for the '
                    'grammar (skip_brute / skip_case / rule) it was computed with; letting the command line override them on '
                    '--load resumes the position in a different grammar', None, c)
    if set(seen) != {'rule_name', 'skip_brute', 'skip_case'}:
        ok = False
        ctx.bad(rule, LOAD_SAVE, 'restored keys %s' % sorted(seen), 'rule_name, skip_brute and skip_case must be restored', None, fn)
    if ok:
        ctx.ok(rule, LOAD_SAVE, 'rule_name / skip_brute / skip_case are copied from the save file unconditionally; the loaded config is not edited',
               {'restored': {k: v[0] for k, v in seen.items()}})


def r9_restore_depth(ctx, rule):
    """The restore walk is recursive; its depth is the number of +1 steps from the root to the frontier."""
    q = PG + 'restore_prob_order'
    fn = ctx.fn(q)
    rec = ctx.fn(PG + '_recursive_restore_prob_order')
    recursive = any(call_name(c) == 'self._recursive_restore_prob_order' for c in calls_in(rec))
    if not recursive:
        ctx.ok(rule, q, 'restore walk is not recursive (no recursion bound to respect)', nontrivial=False)
        return
    lims = [c for c in calls_in(fn) if call_name(c) == 'sys.setrecursionlimit']
    stores = stores_in(fn)
    vals = []
    for c in lims:
        a = expand(fn, c.args[0], stores) if c.args else None
        v = None
        if a is not None:
            cc = const(a)
            if isinstance(cc, int):
                v = cc
            elif isinstance(a, ast.BinOp) and isinstance(a.op, ast.Pow) and isinstance(const(a.left), int) and isinstance(const(a.right), int):
                v = const(a.left) ** const(a.right)
        vals.append(v)
    facts = {'recursion_limits': vals}
    if not lims or any(v is None for v in vals):
        ctx.unk(rule, q, 'recursion limit for the restore walk not found / not constant', facts)
    elif min(vals) < 10 ** 6:
        ctx.bad(rule, q, 'recursion limit %s for the restore walk' % min(vals),
                'the recursive restore descends one frame per index increment on the way to the frontier; a long session '
                'has frontier nodes thousands of increments deep, the walk then hits RecursionError, restore_prob_order '
                'returns False and the caller continues with a partly restored queue: sub-trees are silently lost', facts, lims[0])
    else:
        ctx.ok(rule, q, 'recursion limit for the restore walk is %s' % min(vals), facts)
    from . import c02
    c02.push_unconditional(ctx, rule)


def _exact_float(ctx, rule):
    from . import c01 as _c01
    return _c01.r9_exact_float_discipline(ctx, rule)


FRESH_UUID = {'uuid.uuid4', 'uuid.uuid1', 'uuid4', 'uuid1'}


def r12_uuid_is_fresh(ctx, rule):
    """The uuid gate (R1) refuses a stale session only if every training run stamps the ruleset with a new identity:
    the trainer's 'uuid' option must come from a random/time based uuid constructor, never from a function of the
    training options (a retrained, different grammar would keep the uuid and the stale .sav would be accepted)."""
    sites = []
    for qual, fn in ctx.repo.all_funcs():
        rel = qual.partition('::')[0]
        if not rel.startswith('lib_trainer/') or 'future_research' in rel:
            continue
        for c in calls_in(fn):
            if isinstance(c.func, ast.Attribute) and c.func.attr == 'set' and len(c.args) == 3 and const(c.args[1]) == 'uuid':
                sites.append((qual, fn, c))
    if not ctx.floor(rule, 'lib_trainer/config_file.py::add_dataset_details', len(sites), 1, "config.set(<section>, 'uuid', ...) sites in the trainer"):
        return
    for qual, fn, c in sites:
        ctx.stats['functions'].add(qual)
        v = expand(fn, c.args[2], stores_in(fn))
        srcs = [call_name(x) for x in ast.walk(v) if isinstance(x, ast.Call) and (call_name(x) or '').rpartition('.')[2].startswith('uuid')]
        fresh = [s_ for s_ in srcs if s_ in FRESH_UUID]
        stale = [s_ for s_ in srcs if s_ not in FRESH_UUID]
        wrappers_ok = all(call_name(x) in FRESH_UUID | {'str'} or (isinstance(x.func, ast.Attribute) and x.func.attr in ('hex', '__str__'))
                          for x in ast.walk(v) if isinstance(x, ast.Call))
        if fresh and not stale and wrappers_ok:
            ctx.ok(rule, qual, "the ruleset uuid is %s: a new identity for every training run" % U(v), {'value': U(v)})
        else:
            ctx.bad(rule, qual, "ruleset uuid = " + U(v)[:80],
                    'the uuid written by the trainer must be new for every training run (uuid4/uuid1); a value computed from '
                    'the training options is shared by different grammars, so the guesser no longer refuses a session saved '
                    'against the previous grammar', {'value': U(v)}, c)


def r13_grammar_order(ctx, rule):
    """The restore walks the grammar by index (left-to-right canonical descent over group indexes): the resumed process
    must load the same group order as the one that saved, so no list of the loaded grammar may take its order from a set."""
    from .common import no_set_order
    no_set_order(ctx, rule, 'lib_guesser/grammar_io.py', 5, 'the loaded grammar',
                 'a parse tree is a list of indexes into the grammar lists; the resumed process re-creates the frontier by '
                 'index, which denotes the same pre-terminals only if the loader orders every list identically in every '
                 'process (set iteration order of strings changes with the hash seed)')


def _one_shot(ctx, rule):
    # the interrupted Markov level is replayed once: the option that triggers the OMEN restore is removed on every path
    # (seed C08-g: left in the save file on resumes without --limit, every later resume emitted the level's tail again)
    from . import c15
    return c15.r1_one_shot_key(ctx, rule)


def _omn_names(ctx, rule):
    from . import c15
    return c15.r9_session_file_names(ctx, rule)


def _omen_save_restore(ctx, rule):
    # the interrupted Markov level is saved to and restored from the same <session>.omn (seed C08-h)
    from . import c15
    return c15.r2_no_generated_unemitted(ctx, rule)


def r17_session_state_per_object(ctx, rule):
    """What is saved and restored is the state of one session: no guesser class keeps a mutable container at class level that its
    methods change in place (it would be shared with - and restored into - every other object of the process)."""
    from .common import no_shared_class_state
    no_shared_class_state(ctx, rule, ['lib_guesser/'], 12, 'the object is shared by every instance of the class: a second session / queue / generator created in the same process starts with (and keeps changing) the state of the first one')


def _quit_points(ctx, rule):
    # the saved probability stands for un-guessed work only if a quit is honoured at a pre-terminal boundary (or between two Markov
    # guesses, whose position is saved separately): polled inside an expansion, the rest of that pre-terminal is lost (seed C08-i)
    from . import c12
    return c12.r3_quit_points(ctx, rule)


def _heap_ownership(ctx, rule):
    # nothing is lost on restore only if every restored node reaches the heap: the only writers of the heap are heappush(QueueItem(..))
    # and heappop (seed C08-k collected the restored nodes in a set of QueueItems hashed by probability - exact ties collapsed)
    return c01.r2_heap_ownership(ctx, rule)


def r24_restore_visits_every_position(ctx, rule):
    """The restore walk looks at EVERY position from left_index on: its position loop is left by no break / return (a position
    whose variable is at its last group is skipped with `continue`).  Seed C14-db turned that continue into break: under --all_lower
    every capitalisation list has one entry, so the walk stops at each C position and children to the right are never restored."""
    q = PG + '_recursive_restore_prob_order'
    fn = ctx.fn(q)
    ctx.stats['functions'].add(q)
    loops = [x for x in position_loops(fn)]
    if len(loops) != 1:
        ctx.unk(rule, q, 'expected one position loop in the restore walk (found %d)' % len(loops))
        return
    loop = loops[0][0]
    exits = [x for b in loop.body for x in ast.walk(b) if isinstance(x, (ast.Break, ast.Return))
             and not isinstance(x, (ast.FunctionDef,))]
    # breaks of nested loops belong to those loops
    inner = {id(y) for b in loop.body for l2 in ast.walk(b) if isinstance(l2, (ast.For, ast.While)) for z in l2.body for y in ast.walk(z)
             if isinstance(y, ast.Break)}
    exits = [x for x in exits if id(x) not in inner]
    if exits:
        ctx.bad(rule, q, 'the position loop of the restore walk is left early (%s at line %d)' % (type(exits[0]).__name__.lower(), exits[0].lineno),
                'positions to the right of the one where the loop stops are never examined: their children are not restored', None, exits[0], firm=True)
    else:
        ctx.ok(rule, q, 'the restore walk examines every position from left_index on (no break / return inside the position loop)')


def r23_no_save_after_generation(ctx, rule):
    """The saved position is the probability of the pre-terminal popped LAST, which the resumed run emits again: so a save must
    come before that pre-terminal is expanded.  In CrackingSession.run no call of _save_session is reachable from create_guesses
    within the same iteration (without going through the next pop).  Seed C02-da honoured a quit right after the expansion: the
    .sav then records the probability of a pre-terminal that has already been generated, and --load emits it and its ties again."""
    from ..cfg import CFG
    q = CSF + '::CrackingSession.run'
    fn = ctx.fn(q)
    mod = ctx.repo.modules[CSF]
    ctx.stats['functions'].add(q)
    gens = [c for c in calls_in(fn) if isinstance(c.func, ast.Attribute) and c.func.attr == 'create_guesses']
    pops = [c for c in calls_in(fn) if U(c.func).endswith('pqueue.next')]
    saves = [c for c in calls_in(fn) if U(c.func) == 'self._save_session']
    if len(gens) != 1 or len(pops) != 1 or not saves:
        ctx.unk(rule, q, 'expected one create_guesses, one pqueue.next and at least one _save_session in run (%d / %d / %d)' % (len(gens), len(pops), len(saves)))
        return
    cfg = CFG(fn)
    gn = cfg.node_of(_stmt_of(mod, gens[0]))
    pn = cfg.node_of(_stmt_of(mod, pops[0]))
    reach = cfg.reachable(gn, avoid={pn})
    ctx.stats['paths'] += 1
    late = [c for c in saves if cfg.node_of(_stmt_of(mod, c)) in reach]
    if late:
        ctx.bad(rule, q, '_save_session reachable after create_guesses in the same iteration (line %d)' % late[0].lineno,
                'the session is saved with the probability of a pre-terminal that has already been generated: after --load that '
                'pre-terminal (and everything tied with it) is generated a second time', None, late[0], firm=True)
    else:
        ctx.ok(rule, q, 'every _save_session in run() precedes the expansion of the popped pre-terminal (%d save sites)' % len(saves))


def r20_position_verbatim(ctx, rule):
    """The position a queue is restored to is the saved one, bit for bit: every store to self.max_probability in PcfgQueue is the
    fresh-session constant, the option read back from the save file, or the probability of the item just popped - never a
    function of the restored value (seed C15-o: math.nextafter(self.max_probability, 0.0) after an OMEN quit; the pre-terminal
    popped at the quit sits exactly AT the saved probability and the restore needs `<=` to put it back)."""
    mod = ctx.repo.modules[PQF]
    n_ok = 0
    ok = True
    for lname, fn in mod.funcs.items():
        if not lname.startswith('PcfgQueue.'):
            continue
        q = PQF + '::' + lname
        ctx.stats['functions'].add(q)
        for n in walk_local(fn):
            tgts = n.targets if isinstance(n, ast.Assign) else [n.target] if isinstance(n, (ast.AugAssign, ast.AnnAssign)) else []
            for t in tgts:
                for leaf in (t.elts if isinstance(t, (ast.Tuple, ast.List)) else [t]):
                    if U(leaf) != 'self.max_probability':
                        continue
                    v = getattr(n, 'value', None)
                    if v is None:
                        continue
                    if isinstance(n, ast.Assign) and not isinstance(t, (ast.Tuple, ast.List)):
                        if isinstance(const(v), (int, float)):
                            n_ok += 1
                            continue
                        if isinstance(v, ast.Call) and isinstance(v.func, ast.Attribute) and v.func.attr in ('getfloat',) \
                                and len(v.args) >= 2 and const(v.args[1]) == 'max_probability' and len(v.args) + len(v.keywords) == 2:
                            n_ok += 1
                            continue
                        if isinstance(v, ast.Subscript) and const(v.slice) == 'prob':
                            n_ok += 1       # which item: C08.R4
                            continue
                    ok = False
                    reads = {U(x) for x in ast.walk(v) if isinstance(x, (ast.Attribute, ast.Name))}
                    if isinstance(n, ast.AugAssign) or 'self.max_probability' in reads or any('getfloat' in r for r in reads):
                        ctx.bad(rule, q, 'self.max_probability %s %s' % ('(aug)=' if isinstance(n, ast.AugAssign) else '=', U(v)[:80]),
                                'the restored position is a function of the saved one, not the saved one: items that sit exactly at '
                                'the saved probability (the pre-terminal popped when the session quit) fall on the wrong side of the restore test',
                                None, n, firm=True)
                    else:
                        ctx.unk(rule, q, 'store to self.max_probability of a kind this rule does not know: ' + U(n)[:90])
    if ctx.floor(rule, PQF, n_ok, 3, 'recognised stores to self.max_probability') and ok:
        ctx.ok(rule, PQF + '::PcfgQueue', 'self.max_probability is stored %d times: a constant, the saved option read with getfloat, the popped probability' % n_ok)


def _below_every_probability(v):
    """True: a value no pre-terminal probability (>= 0.0) is at or below; False: a value some pre-terminal can be at or below; None: not known"""
    if isinstance(v, ast.UnaryOp) and isinstance(v.op, ast.USub):
        c = const(v.operand)
        if isinstance(c, (int, float)) and not isinstance(c, bool):
            return c > 0
        if U(v.operand) in ('math.inf', "float('inf')", 'float("inf")', 'inf'):
            return True
        return None
    c = const(v)
    if isinstance(c, (int, float)) and not isinstance(c, bool):
        return c < 0
    if U(v) in ("float('-inf')", 'float("-inf")'):
        return True
    return None


def r28_exhausted_session_restores_nothing(ctx, rule):
    """The save made when the grammar is exhausted describes "nothing left".

    PcfgQueue.next() leaves max_probability at the probability of the pre-terminal popped last; that pre-terminal has been guessed (or, after
    a quit inside its Markov level, is finished by restore_omen).  The restore re-creates every pre-terminal with probability <= the saved one,
    so a final save of that value makes the resumed session guess the last pre-terminal a second time - after a quit inside the last Markov
    level: the remainder of the level, then the whole level again (C15: "none repeated"; demonstrations of seeds C15-a / C15-b, cut positions in
    the last pre-terminal).  Necessary condition decided here: on the exhaustion path the saved position is first moved below every probability
    (a negative constant / -inf), either in run() in front of _save_session() or in next() on the empty-heap branch."""
    rq = CS + 'run'
    rfn = ctx.fn(rq)
    ex = [n for n in walk_local(rfn) if isinstance(n, ast.If) and U(n.test) in ('pt_item is None', 'not pt_item', 'pt_item == None')]
    if not ex:
        ctx.unk(rule, rq, 'exhaustion test (pt_item is None) not found in run()')
        return
    b = ex[0].body
    sv = [k for k, s_ in enumerate(b) if isinstance(s_, ast.Expr) and isinstance(s_.value, ast.Call) and call_name(s_.value) == 'self._save_session']
    if not sv:
        ctx.ok(rule, rq, 'no save on the exhaustion branch (judged by the saved-position rule)')
        return
    verdicts = []
    for s_ in b[:sv[0]]:
        for n in ast.walk(s_):
            if isinstance(n, ast.Assign) and len(n.targets) == 1 and U(n.targets[0]) in ('self.pqueue.max_probability',):
                verdicts.append((_below_every_probability(n.value), n))
            elif isinstance(n, (ast.AugAssign, ast.AnnAssign)) and U(n.target) == 'self.pqueue.max_probability':
                verdicts.append((None, n))
    # the same move made by the queue itself: next(), empty heap
    nfn = ctx.fn(PQ + 'next')
    for n in walk_local(nfn):
        if isinstance(n, ast.If) and ('len(self.p_queue)' in U(n.test) or U(n.test) in ('not self.p_queue',)) \
                and any(isinstance(x, ast.Return) and (x.value is None or const(x.value) is None) for x in n.body):
            for x in n.body:
                if isinstance(x, ast.Assign) and len(x.targets) == 1 and U(x.targets[0]) == 'self.max_probability':
                    verdicts.append((_below_every_probability(x.value), x))
    # anything between the branch start and the save that could change the position in a way this rule does not follow
    if any(v is None for v, _ in verdicts):
        ctx.unk(rule, rq, 'the saved position is set on the exhaustion path to a value this rule cannot place: ' + U([n for v, n in verdicts if v is None][0])[:80])
        return
    if verdicts and verdicts[-1][0] is True and all(v for v, _ in verdicts):
        ctx.ok(rule, rq, 'the position saved on exhaustion is below every pre-terminal (%s): a restored session has nothing to repeat' % U(verdicts[-1][1]))
        return
    if verdicts:
        ctx.bad(rule, rq, 'the position saved on exhaustion is %s' % U(verdicts[-1][1].value),
                'a restored session re-creates every pre-terminal whose probability is at or below the saved one; with a non-negative value the '
                'last pre-terminal(s) are guessed again', None, verdicts[-1][1], firm=True)
        return
    ctx.bad(rule, rq, 'run() saves the probability of the last popped pre-terminal when the grammar is exhausted',
            'PcfgQueue.next() leaves max_probability at the pre-terminal popped last, which has been guessed: the restore re-creates every '
            'pre-terminal at or below the saved probability, so the resumed session guesses it again (after a quit inside the last Markov level: the '
            'rest of the level, then the whole level once more)', None, b[sv[0]], firm=True)


def _shared_rule(mod, name, **kw):
    def run(ctx, rule):
        import importlib
        return getattr(importlib.import_module('sa.props.' + mod), name)(ctx, rule, **kw)
    return run


def r29_find_prob_scaled(ctx, rule):
    """Every probability the restore compares with the saved position is the FULL probability of a pre-terminal: base-structure
    probability times the terminal probabilities.  _find_prob takes the base probability as its second argument; a call without it
    (seed C08-fa gave the parameter a default of 1.0 and dropped the argument in is_parent_around) prices the parent 1/base_prob too
    high, `parent <= saved position` fails for parents that are still queued, and their children are restored AND pushed again."""
    n = 0
    ok = True
    for lname in ('is_parent_around', 'find_children', '_recursive_restore_prob_order', 'initalize_base_structures', '_are_you_my_child'):
        q = PG + lname
        fn = ctx.fn(q)
        ctx.stats['functions'].add(q)
        for c in calls_in(fn):
            fp = find_prob_call(c)
            if fp is None:
                continue
            n += 1
            if fp[1] is None:
                ok = False
                ctx.bad(rule, q, 'probability without the base-structure probability: ' + U(c)[:60],
                        'the saved position, the queue and the adoption test all speak of base probability x terminal probabilities; a '
                        'probability that leaves the base factor out is compared with them as if it were on the same scale', None, c, firm=True)
    if ctx.floor(rule, PGF, n, 4, '_find_prob calls in the queue / restore code') and ok:
        ctx.ok(rule, PGF, 'all %d _find_prob calls of the queue and restore code pass the base probability' % n)


def rules(tier):
    return [('C08.R1', r1_uuid_gate), ('C08.R2', r2_region_agreement), ('C08.R3', r3_canonical_descent),
            ('C08.R4', r4_saved_position), ('C08.R5', r5_sav_keys), ('C08.R6', c01.r5_successor),
            ('C08.R7', c01.r4_prob_pt_coupling), ('C08.R8', c01.r1_heap_order), ('C08.R9', r9_restore_depth), ('C08.R11', r11_restore_is_verbatim),
            ('C08.R10', _exact_float), ('C08.R12', r12_uuid_is_fresh), ('C08.R13', r13_grammar_order), ('C08.R14', _one_shot), ('C08.R15', _omn_names), ('C08.R16', _omen_save_restore), ('C08.R17', r17_session_state_per_object), ('C08.R18', _quit_points), ('C08.R19', _heap_ownership), ('C08.R20', r20_position_verbatim),
            # C08-cb: _are_you_my_child operands swapped - the restore walk assumes the least probable parent adopts
            ('C08.R21', _shared_rule('c02', 'r1_adoption_kernel')),
            # C08-ca: skip_case saved from program_info['skip_brute']
            ('C08.R22', _shared_rule('c14', 'r14_saved_flags_verbatim')),
            # C02-da: a quit honoured right after create_guesses saves the probability of an already generated pre-terminal
            ('C08.R23', _shared_rule('c08', 'r23_no_save_after_generation')),
            # C14-db: continue -> break in the restore walk
            ('C08.R24', _shared_rule('c08', 'r24_restore_visits_every_position')),
            # session files hold one state
            ('C08.R25', _shared_rule('plumbing', 'writers_truncate')),
            # next() ends the run only on an empty heap
            ('C08.R26', _shared_rule('plumbing', 'generator_glue')),
            # C08-ea: save_session pickles cur_guess.target_level in place of the cracker's target_level
            ('C08.R27', _shared_rule('c15', 'r3_pickle_layout')),
            # fix 718673a: the save made on exhaustion must not name the last pre-terminal as still to do
            ('C08.R28', r28_exhausted_session_restores_nothing),
            # C08-fa: _find_prob(new_parent) without base_prob in is_parent_around
            ('C08.R29', r29_find_prob_scaled),
            ('C08.R30', _shared_rule('plumbing', 'ruleset_info_keys')),
            ('C08.R31', _shared_rule('c01', 'r20_records_are_fresh'))]


META = {
    'explanation': 'Restore correctness reduced to local obligations: the uuid comparison dominates every resumed run; '
                   'the region of probabilities (relative to the saved max) in which a node is a restore candidate equals '
                   'the region in which a parent counts as still queued (both tabulated over LT/EQ/GT), prob>max '
                   'descends, candidates never descend; canonical left-index descent; max_probability updated on every '
                   'pop and saved before exit; .sav keys read = keys written with round-tripping types.',
    'trusted_base': ['python ast', 'CFG of sa/cfg.py', 'paper argument regions A = C = {LT,EQ} DESIGN.md section 4 C08'],
    'assumptions': ['C01 obligations (non-increasing pops)', 'min_probability is the 0.0 floor'],
    'not_decided': 'completeness for a concrete grammar follows from the regions argument (paper proof), not re-derived',
    'technique': 'ordering-domain tabulation of the restore kernels + CFG must-pass-through (uuid gate, saved position) '
                 '+ writer/reader key table',
}

META['explanation'] += ' ' + 'Further: load_save restores verbatim; the trainer stamps every ruleset with a fresh uuid4/uuid1 (a name-based uuid defeats the gate); no list of the loaded grammar is ordered by a set; exact-float discipline; restore runs under the 10**6 frame bound and insert_queue pushes unconditionally.'

META['explanation'] += ' ' + 'Round 13: every _find_prob call of the queue / restore code passes the base probability; ruleset_info is read only under keys the loader writes.'
