"""C09 - stdout is exactly the guess stream and --limit is exact (DESIGN section 4, C09)."""
import ast

from ..core import (U, walk_local, calls_in, call_name, const, NOCONST, params, stores_in, single_def, expand,
                    walk_stmts, arg_for, kwarg, dotted)
from ..order import Terms, outcomes, LT, EQ, GT, Hooks
from ..effects import stdout_write
from .common import PG, PGF, CS, CSF

HS = 'lib_guesser/honeyword_session.py::HoneywordSession.'
ENTRY = 'pcfg_guesser.py'


def _main_guard(st):
    return isinstance(st, ast.If) and isinstance(st.test, ast.Compare) and U(st.test.left) == '__name__'


def output_point(ctx):
    """(qual, the print call) of the single designated stdout writer."""
    q = PG + 'print_guess'
    fn = ctx.fn(q)
    p = params(fn)[1]
    ok_calls = []
    for c in calls_in(fn):
        if stdout_write(c):
            ok_calls.append(c)
    return q, fn, p, ok_calls


def guesser_reach(ctx, entry_rel=ENTRY, extra_entries=()):
    cg = ctx.cg
    closure = ctx.resolver.closure([entry_rel])
    entries = [entry_rel + '::<module>'] + [r + '::<module>' for r in sorted(closure) if r != entry_rel]
    entries += list(extra_entries)
    par = cg.reach(entries, closure)
    return cg, closure, par


def module_level_calls(ctx, rel, is_entry):
    """Call nodes executed at import time of module rel (main-guard bodies only for the entry module)."""
    m = ctx.repo.modules[rel]
    out = []
    for st in m.tree.body:
        if isinstance(st, (ast.FunctionDef, ast.AsyncFunctionDef, ast.ClassDef)):
            continue
        if _main_guard(st) and not is_entry:
            continue
        for n in walk_local(st):
            if isinstance(n, ast.Call):
                out.append(n)
    return out


def _on_refusal_branch(fn, call):
    """Is `call` a statement of a branch that ends by refusing to run (return False / sys.exit / raise)?  Such a write is not part
    of a produced list: prince_ling.py reports '--size 0' this way and then exits without generating anything."""
    def blocks(node):
        for f in ('body', 'orelse', 'finalbody'):
            b = getattr(node, f, None)
            if isinstance(b, list) and b and isinstance(b[0], ast.stmt):
                yield b
                for st in b:
                    yield from blocks(st)
        for h in getattr(node, 'handlers', []) or []:
            yield h.body
            for st in h.body:
                yield from blocks(st)
    for b in blocks(fn):
        if b is fn.body:
            continue
        for st in b:
            if isinstance(st, ast.Expr) and st.value is call:
                last = b[-1]
                if isinstance(last, ast.Raise):
                    return True
                if isinstance(last, ast.Return) and isinstance(last.value, ast.Constant) and last.value.value is False:
                    return True
                if isinstance(last, ast.Expr) and isinstance(last.value, ast.Call) and U(last.value.func) in ('sys.exit', 'exit', 'quit', 'os._exit'):
                    return True
    return False


def r1_single_stdout_writer(ctx, rule, entry_rel=ENTRY, refusals_allowed=False):
    q, fn, p, ok_calls = output_point(ctx)
    cg, closure, par = guesser_reach(ctx, entry_rel)
    nsites = 0
    bad = False
    designated = set()
    for c in ok_calls:
        # print(<param>) with no keywords other than flush
        good = call_name(c) == 'print' and len(c.args) == 1 and U(c.args[0]) == p \
            and all(k.arg == 'flush' for k in c.keywords)
        if good:
            designated.add(id(c))
        else:
            bad = True
            ctx.bad(rule, q, 'output point writes ' + U(c)[:80],
                    'the output point must write exactly the guess and a newline (print(guess)); extra arguments, '
                    'sep/end or a second write put something other than one guess per line on stdout', None, c)
    if not designated and not bad:
        ctx.unk(rule, q, 'no print(<guess>) found in the output point')
        return
    for qual in sorted(par):
        rel, _, lname = qual.partition('::')
        if lname == '<module>':
            calls = module_level_calls(ctx, rel, rel == entry_rel)
        else:
            calls = calls_in(ctx.repo.fn(qual))
            ctx.stats['functions'].add(qual)
        for c in calls:
            nsites += 1
            w = stdout_write(c)
            if w and id(c) not in designated:
                if refusals_allowed and lname != '<module>' and _on_refusal_branch(ctx.repo.fn(qual), c):
                    continue
                bad = True
                path = ' -> '.join(cg.path_to(par, qual))
                ctx.bad(rule, qual, 'stdout write: ' + U(c)[:90],
                        'reachable from the guesser (%s): %s; anything on stdout besides guesses is consumed by the '
                        'downstream cracker as a password candidate' % (path, w), {'call_path': cg.path_to(par, qual)}, c, firm=True)
    ctx.stats['call_sites'] += nsites
    if ctx.floor(rule, entry_rel, len(par), 40, 'reachable functions from the guesser entry') and not bad:
        ctx.ok(rule, q, 'the only stdout write reachable from %s (%d functions, %d call sites, incl. the keyboard '
               'thread) is print(<guess>) in print_guess' % (entry_rel, len(par), nsites))


# ---------------------------------------------------------------------------------------------
def is_truthy_guard(test, var):
    t = U(test)
    return t in (var, '%s is not None' % var, '%s != None' % var, '%s > 0' % var, '%s is not None and %s > 0' % (var, var))


def derives_from(fn, expr, var):
    """Does `expr` depend (through any local definitions) on the name `var`?"""
    stores = stores_in(fn)
    seen = set()
    todo = [expr]
    while todo:
        e = todo.pop()
        for x in ast.walk(e):
            if isinstance(x, ast.Name) and isinstance(x.ctx, ast.Load):
                if x.id == var:
                    return True
                if x.id not in seen:
                    seen.add(x.id)
                    for st, val in stores.get(x.id, []):
                        if val is not None:
                            todo.append(val)
                        elif isinstance(st, ast.AugAssign):
                            todo.append(st.value)
    return False


def emitter_quals(ctx, entries=(ENTRY,)):
    """Functions with a parameter named limit (or the like) from which the output point is reachable."""
    cg = ctx.cg
    closure = ctx.resolver.closure(list(entries))
    target = PG + 'print_guess'
    out = {}
    for qual, fn in ctx.repo.all_funcs():
        if qual.partition('::')[0] not in closure:
            continue
        reach = cg.reach([qual], closure)
        if target in reach and qual != target:
            out[qual] = fn
    return out, closure


def budget_var(fn):
    ps = params(fn)
    for cand in ('limit', 'max_size', 'max_guesses', 'budget', 'remaining'):
        if cand in ps:
            return cand
    return None


def emission_events(ctx, qual, fn, emitters, closure):
    """[(stmt, block(list), amount)] amount = '1' for a direct write, else the name the produced count is bound to."""
    mod = ctx.repo.modules[qual.partition('::')[0]]
    ev = []

    def blocks(stmts):
        yield stmts
        for st in stmts:
            for field in ('body', 'orelse', 'finalbody'):
                sub = getattr(st, field, None)
                if isinstance(sub, list) and sub and isinstance(sub[0], ast.stmt) and not isinstance(st, (ast.FunctionDef, ast.ClassDef)):
                    yield from blocks(sub)
            if isinstance(st, ast.Try):
                for h in st.handlers:
                    yield from blocks(h.body)
    for block in blocks(fn.body):
        for i, st in enumerate(block):
            if isinstance(st, ast.Expr) and isinstance(st.value, ast.Call):
                tg = ctx.resolver.resolve_call(qual, st.value, closure)
                if PG + 'print_guess' in tg:
                    ev.append((st, block, i, '1'))
                    continue
                if any(t in emitters for t in tg):
                    ev.append((st, block, i, None))     # result discarded
            elif isinstance(st, (ast.Assign, ast.AugAssign)) and isinstance(st.value, ast.Call):
                tg = ctx.resolver.resolve_call(qual, st.value, closure)
                if any(t in emitters for t in tg):
                    name = None
                    if isinstance(st, ast.Assign) and len(st.targets) == 1 and isinstance(st.targets[0], ast.Name):
                        name = st.targets[0].id
                    ev.append((st, block, i, name or ('+=' + U(st.target) if isinstance(st, ast.AugAssign) else None)))
    return ev


def check_pairing(ctx, rule, qual, fn, var, st, block, i, amount):
    """After emission event `st` in `block`: if <var>: <var> -= amount ; if <var> <= 0: exit."""
    facts = {'event': U(st)[:80], 'amount': amount}
    guard = None
    for nxt in block[i + 1:]:
        if isinstance(nxt, ast.If) and is_truthy_guard(nxt.test, var):
            guard = nxt
            break
        # another emission before any accounting -> stop looking
        if isinstance(nxt, (ast.For, ast.While)):
            break
    if guard is None:
        # join-point accounting: the event sits in a branch of an if/else, every branch records what it emitted in one
        # variable and the budget is reduced by that variable after the if/else
        mod = ctx.repo.modules[qual.partition('::')[0]]
        cur_block, cur = block, st
        while guard is None:
            owner = mod.parents.get(id(cur))
            if isinstance(owner, ast.Try) and any(x is cur for x in owner.body):
                # the event sits in a try body; accounting may follow the whole try statement (the handlers leave the loop)
                gp = mod.parents.get(id(owner))
                outer = None
                for field in ('body', 'orelse', 'finalbody'):
                    lst = getattr(gp, field, None)
                    if isinstance(lst, list) and any(x is owner for x in lst):
                        outer = lst
                handlers_leave = all(h.body and isinstance(h.body[-1], (ast.Break, ast.Return, ast.Raise, ast.Continue)) for h in owner.handlers)
                if outer is None or not handlers_leave or owner.finalbody:
                    break
                j = [k for k, x in enumerate(outer) if x is owner][0]
                tail_in_try = owner.body[[k for k, x in enumerate(owner.body) if x is cur][0] + 1:]
                if any(isinstance(x, (ast.For, ast.While)) for x in tail_in_try):
                    break
                for nxt in outer[j + 1:]:
                    if isinstance(nxt, ast.If) and is_truthy_guard(nxt.test, var):
                        guard = nxt
                        break
                    if isinstance(nxt, (ast.For, ast.While)):
                        break
                if guard is not None:
                    break
                cur = owner
                continue
            if not isinstance(owner, ast.If) or not any(x is cur for x in owner.body + owner.orelse):
                break
            gp = mod.parents.get(id(owner))
            outer = None
            for field in ('body', 'orelse', 'finalbody'):
                lst = getattr(gp, field, None)
                if isinstance(lst, list) and any(x is owner for x in lst):
                    outer = lst
            if outer is None:
                break
            j = [k for k, x in enumerate(outer) if x is owner][0]
            for nxt in outer[j + 1:]:
                if isinstance(nxt, ast.If) and is_truthy_guard(nxt.test, var):
                    guard = nxt
                    break
                if isinstance(nxt, (ast.For, ast.While)):
                    break
            if guard is not None:
                # which variable carries the emitted amount at the join?
                decs = [U(s_.value) if isinstance(s_, ast.AugAssign) else U(s_.value.right) for s_ in guard.body
                        if (isinstance(s_, ast.AugAssign) and U(s_.target) == var and isinstance(s_.op, ast.Sub))
                        or (isinstance(s_, ast.Assign) and U(s_.targets[0]) == var and isinstance(s_.value, ast.BinOp)
                            and isinstance(s_.value.op, ast.Sub) and U(s_.value.left) == var)]
                v = decs[0] if decs else None
                branch = owner.body if any(x is cur for x in owner.body) else owner.orelse
                sets = [s_ for s_ in branch if isinstance(s_, ast.Assign) and len(s_.targets) == 1 and U(s_.targets[0]) == v]
                if v is not None and amount == v:
                    pass                                   # the event itself binds the amount variable
                elif v is not None and len(sets) == 1 and U(sets[0].value) == str(amount):
                    amount = v                             # branch records `v = <amount>`
                    facts['amount'] = '%s (= %s in this branch)' % (v, U(sets[0].value))
                else:
                    guard = None
                break
            cur = owner
    if guard is None:
        ctx.bad(rule, qual, 'no budget accounting after ' + U(st)[:70],
                'after guesses are written the remaining budget must be reduced and tested; otherwise --limit N '
                'writes more than N lines', facts, st)
        return
    dec = None
    test = None
    for k, s in enumerate(guard.body):
        if dec is None:
            if isinstance(s, ast.Assign) and len(s.targets) == 1 and U(s.targets[0]) == var \
                    and isinstance(s.value, ast.BinOp) and isinstance(s.value.op, ast.Sub) and U(s.value.left) == var:
                dec = U(s.value.right)
            elif isinstance(s, ast.AugAssign) and U(s.target) == var and isinstance(s.op, ast.Sub):
                dec = U(s.value)
        elif isinstance(s, ast.If):
            test = s
            break
    facts['decrement'] = dec
    if dec is None:
        ctx.bad(rule, qual, 'budget not decremented after ' + U(st)[:60] + ' (guard: %s)' % U(guard.test),
                'the budget must be reduced by the number of guesses just written', facts, guard)
        return
    if amount is None or dec != amount:
        ctx.bad(rule, qual, 'budget reduced by %s after an emission of %s' % (dec, amount),
                'the budget must be reduced by exactly the number of guesses just written (1 for a direct write, the '
                'returned count for a recursive/emitter call)', facts, guard)
        return
    if test is None:
        ctx.bad(rule, qual, 'no exhaustion test after the decrement of ' + var,
                'when the budget reaches 0 the emitter must stop', facts, guard)
        return
    res = {}
    for rel, samples in ((LT, (-1,)), (EQ, (0,)), (GT, (1, 2, 1000))):
        kinds = set()
        for val in samples:
            v = eval_int_test(test.test, var, val)
            if v is None:
                kinds.add('unknown')
            elif v:
                outs = outcomes(test.body, {}, Terms())
                kinds |= {k for k, d, t in outs}
            else:
                outs = outcomes(test.orelse, {}, Terms())
                kinds |= {k for k, d, t in outs}
        res[rel] = sorted(kinds)
        ctx.stats['kernel_states'] += 1
    facts['exhaustion_table'] = res
    stops = {'return', 'break', 'raise'}
    if 'unknown' in res[EQ] + res[GT]:
        ctx.unk(rule, qual, 'cannot evaluate the exhaustion test ' + U(test.test), facts, test)
        return
    if not set(res[EQ]) <= stops:
        ctx.bad(rule, qual, 'budget == 0 does not stop: %s -> %s' % (U(test.test), res[EQ]),
                'with the budget exhausted the emitter continues: more than N lines', facts, test)
    elif set(res[GT]) & stops:
        ctx.bad(rule, qual, 'budget > 0 stops: %s -> %s' % (U(test.test), res[GT]),
                'the emitter stops while budget remains: fewer than N lines', facts, test)
    else:
        ctx.ok(rule, qual, 'after %s: %s -= %s; stop iff %s <= 0' % (U(st)[:40], var, dec, var), facts)


def eval_int_test(node, var, val):
    """Evaluate a comparison expression over one integer variable at a representative value (sign domain)."""
    def ev(n):
        if isinstance(n, ast.Name) and n.id == var:
            return val
        c = const(n)
        if c is not NOCONST and isinstance(c, (int, float)) and not isinstance(c, bool):
            return c
        if isinstance(n, ast.BinOp) and isinstance(n.op, (ast.Add, ast.Sub)):
            a, b = ev(n.left), ev(n.right)
            if a is None or b is None:
                return None
            return a + b if isinstance(n.op, ast.Add) else a - b
        return None
    if isinstance(node, ast.Name) and node.id == var:
        return val != 0
    if isinstance(node, ast.UnaryOp) and isinstance(node.op, ast.Not):
        v = eval_int_test(node.operand, var, val)
        return None if v is None else not v
    if isinstance(node, ast.BoolOp):
        vs = [eval_int_test(v, var, val) for v in node.values]
        if any(v is None for v in vs):
            return None
        return all(vs) if isinstance(node.op, ast.And) else any(vs)
    if isinstance(node, ast.Compare):
        left = ev(node.left)
        for op, right in zip(node.ops, node.comparators):
            r = ev(right)
            if left is None or r is None:
                return None
            ok = {ast.Lt: left < r, ast.LtE: left <= r, ast.Gt: left > r, ast.GtE: left >= r,
                  ast.Eq: left == r, ast.NotEq: left != r}.get(type(op))
            if ok is None:
                return None
            if not ok:
                return False
            left = r
        return True
    return None


def r2_pairing(ctx, rule, quals=None, entries=(ENTRY,), floor=12, skip_markov=False, extend=True):
    emitters, closure = emitter_quals(ctx, entries)
    quals = list(quals or [PG + '_recursive_guesses', PG + '_honeyword_recursive_guess', PG + 'omen_generate_guesses',
                           CS + 'run', HS + 'run'])
    # plus every other emitter of the closure that has a budget parameter (wrappers normally contain no emission event)
    for q_ in (sorted(emitters) if extend else ()):
        if q_ not in quals and budget_var(emitters[q_]) is not None and q_.startswith('lib_guesser/pcfg_grammar.py'):
            quals.append(q_)
    n = 0
    for qual in quals:
        fn = ctx.fn(qual)
        var = budget_var(fn)
        if var is None:
            ctx.bad(rule, qual, 'emitter without a budget parameter', 'an emitter reachable from a --limit run must '
                    'take the remaining budget', None, fn)
            continue
        evs = emission_events(ctx, qual, fn, emitters, closure)
        # an emission after which no further emission of this activation is reachable needs no accounting here (the caller
        # accounts for what the call returns): e.g. the straight-line honeyword walker
        from ..cfg import CFG as _CFG
        try:
            cfg = _CFG(fn)
            ev_nodes = {}
            for st_, b_, i_, a_ in evs:
                nd = cfg.node_of(st_)
                if nd is not None:
                    ev_nodes[id(st_)] = nd
        except Exception:
            cfg, ev_nodes = None, {}
        for st, block, i, amount in evs:
            if cfg is not None and id(st) in ev_nodes:
                me = ev_nodes[id(st)]
                after = set()
                for b_, lab in cfg.succ[me]:
                    after |= cfg.reachable(b_)
                if not (after & set(ev_nodes.values())):
                    n += 1
                    ctx.ok(rule, qual, 'after %s no further emission is reachable in this activation: nothing to account for here'
                           % U(st)[:50], {'event': U(st)[:80]})
                    continue
            if skip_markov:
                mod_ = ctx.repo.modules[qual.partition('::')[0]]
                from ..core import path_conditions as _pc
                if any(U(t) == "category == 'M'" and p_ for t, p_ in _pc(mod_, st)):
                    continue
            # tail position: `return self.emitter(..., limit)` needs no accounting
            n += 1
            check_pairing(ctx, rule, qual, fn, var, st, block, i, amount)
    ctx.floor(rule, PGF, n, floor, 'emission events in limit-aware emitters')


def r3_threading(ctx, rule, entries=(ENTRY,), floor=8):
    emitters, closure = emitter_quals(ctx, entries)
    n = 0
    for qual, fn in sorted(emitters.items()):
        cvar = budget_var(fn)
        stores = stores_in(fn) if isinstance(fn, ast.FunctionDef) else {}
        for c in calls_in(fn):
            tg = ctx.resolver.resolve_call(qual, c, closure)
            for t in sorted(tg):
                if t not in emitters or t == qual and False:
                    continue
                tfn = emitters[t]
                tvar = budget_var(tfn)
                if tvar is None:
                    if cvar is not None and t != PG + 'print_guess':
                        ctx.bad(rule, t, 'emitter %s has no budget parameter but is called from budgeted %s'
                                % (t.partition('::')[2], qual.partition('::')[2]),
                                'the remaining budget cannot reach this emitter: it writes past --limit', None, tfn)
                        n += 1
                    continue
                if cvar is None:
                    continue
                n += 1
                a = arg_for(c, tfn, tvar)
                facts = {'call': U(c)[:100], 'caller_budget': cvar, 'callee_param': tvar}
                if a is None:
                    ctx.bad(rule, qual, 'call %s does not pass the budget' % U(c)[:80],
                            'an emitter is called without the remaining budget: it writes its whole expansion even '
                            'when --limit is smaller', facts, c)
                    continue
                if not derives_from(fn, a, cvar):
                    ctx.bad(rule, qual, 'budget argument %s does not derive from %s' % (U(a), cvar),
                            'the value passed as budget is unrelated to the remaining budget', facts, c)
                    continue
                ctx.ok(rule, qual, 'passes %s=%s to %s' % (tvar, U(a), t.partition('::')[2]), facts)
    ctx.floor(rule, PGF, n, floor, 'budgeted emitter call sites')


def r4_limit_writers(ctx, rule):
    """The budget is what the user gave on the command line of THIS run: nobody else writes program_info['limit'];
    and nothing re-binds sys.stdout."""
    closure = ctx.resolver.closure([ENTRY])
    n = 0
    bad = False
    for q, fn in ctx.repo.all_funcs():
        rel = q.partition('::')[0]
        if rel not in closure:
            continue
        for node in walk_local(fn):
            if isinstance(node, (ast.Assign, ast.AugAssign)):
                tgts = node.targets if isinstance(node, ast.Assign) else [node.target]
                for t in tgts:
                    if isinstance(t, ast.Subscript) and const(t.slice) == 'limit' and 'program_info' in U(t.value):
                        n += 1
                        if q != ENTRY + '::parse_command_line' or U(node.value) != 'args.limit':
                            bad = True
                            ctx.bad(rule, q, "program_info['limit'] = %s" % U(node.value)[:50],
                                    'the number of guesses to write is the --limit of this invocation; a value restored from a '
                                    'save file (or computed elsewhere) silently replaces what the user asked for', None, node)
                    if dotted(t) in ('sys.stdout', 'sys.__stdout__'):
                        bad = True
                        ctx.bad(rule, q, 'sys.stdout re-bound', 'the guess stream must stay on the real stdout', None, node)
    if ctx.floor(rule, ENTRY, n, 1, "stores to program_info['limit']") and not bad:
        ctx.ok(rule, ENTRY + '::parse_command_line', "program_info['limit'] is written only from args.limit; sys.stdout is never re-bound")


def _limit_blind_queue(ctx, rule):
    # the first N lines of a --limit N run are the first N of the unlimited run only if the limit never reaches the queue: the heap
    # is touched by heappush / heappop alone, so its tie order cannot depend on N (seed C09-i: PcfgQueue.trim(limit) rebuilt the
    # heap with heapq.nsmallest and tied pre-terminals came out in another order)
    from . import c01
    return c01.r2_heap_ownership(ctx, rule)


def _grammar_order(ctx, rule):
    # two processes must walk the values of a pre-terminal in the same order, or --limit N is not a prefix of the unlimited run
    # (seed C09-k: list(set(values)) in the loader - string hashing differs per process)
    from . import c08
    return c08.r13_grammar_order(ctx, rule)

def _walk_seeding(ctx, rule):
    # --limit N is a prefix of a longer run in random_walk mode only if the walk is seeded reproducibly (seed C09-o: a private
    # random.Random() is seeded while random_walk keeps drawing from the global generator)
    from . import c16
    return c16.r3_seeding(ctx, rule)

def _shared_rule(mod, name, **kw):
    def run(ctx, rule):
        import importlib
        return getattr(importlib.import_module('sa.props.' + mod), name)(ctx, rule, **kw)
    return run


def rules(tier):
    return [('C09.R1', r1_single_stdout_writer), ('C09.R2', r2_pairing), ('C09.R3', r3_threading), ('C09.R4', r4_limit_writers),
            ('C09.R5', lambda c, r: __import__('sa.props.c04', fromlist=['x']).r12_output_point_total(c, r)), ('C09.R6', _limit_blind_queue), ('C09.R7', _grammar_order), ('C09.R8', _walk_seeding),
            # --limit and the session options reach the run under their own keys
            ('C09.R9', _shared_rule('plumbing', 'option_round_trip')),
            # C09-ca: os._exit(0) after main(): the buffered tail of the guess stream is never written
            ('C09.R10', _shared_rule('plumbing', 'no_unflushed_exit')),
            # C09-da: _load_ngrams with errors='surrogateescape' - unprintable Markov guesses are counted against --limit
            ('C09.R11', _shared_rule('plumbing', 'decode_error_policy')),
            # create_guesses hands the limit on unchanged
            ('C09.R12', _shared_rule('plumbing', 'generator_glue')),
            # mutation sweep: break -> continue at the limit test of CrackingSession.run
            ('C09.R13', _shared_rule('plumbing', 'limit_exhausted_leaves')),
            # C09-ea: the count of the last sub-tree returned in place of the running total when the limit runs out
            ('C09.R14', _shared_rule('c04', 'r4_count_write_pairing')),
            # C17-eb idea: the output point re-bound
            ('C09.R15', _shared_rule('plumbing', 'who_may'))]


META = {
    'explanation': 'Call-graph effect rule: from the guesser entry (module bodies of its import closure, main, the '
                   'keyboard thread) the only reachable stdout write is print(<guess>) inside PcfgGrammar.print_guess. '
                   'Limit plumbing: after every emission event in every limit-aware emitter the budget is reduced by '
                   'exactly the emitted count and tested (exhaustion kernel tabulated over budget ? 0); every call of an '
                   'emitter from a budgeted caller passes a value derived from the remaining budget.',
    'trusted_base': ['python ast', 'resolver over-approximation (class-hierarchy analysis inside the import closure)',
                     'argparse usage/--help output is outside a guessing run'],
    'assumptions': ['N >= 1 (the property quantifies over N >= 1; -n 0 means no limit)'],
    'not_decided': 'that the N lines are the first N of the unlimited run (follows from determinism C01.R7 + exact pairing)',
    'technique': 'call-graph reachability with an effect table (stdout writers) + syntactic pairing rule with a finite '
                 'ordering-domain kernel for the exhaustion test',
}

META['explanation'] += ' ' + 'Further: nobody but the command line writes the limit, sys.stdout is never re-bound (incl. redirect_stdout); print_guess reaches its write on every non-debug path.'
