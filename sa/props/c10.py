"""C10 - OMEN level enumeration: the cache-independence clause and necessary conditions (narrow claim; DESIGN 4, C10)."""
import ast

from ..core import (U, walk_local, calls_in, call_name, const, NOCONST, params, stores_in, single_def, expand,
                    walk_stmts, arg_for, kwarg, path_conditions, enclosing_stmt_chain, dotted)
from ..lin import lin, Lin
from .common import copy_depth
from . import c08

OPT = 'lib_guesser/omen/optimizer.py::Optimizer.'
GS = 'lib_guesser/omen/guess_structure.py::GuessStructure.'
MC = 'lib_guesser/omen/markov_cracker.py::MarkovCracker.'
MCF = 'lib_guesser/omen/markov_cracker.py'


def mutation_depth(ctx):
    """Depth at which GuessStructure mutates parse trees in place (1 = list ops, 2 = element fields)."""
    depth = 0
    sites = []
    for q, fn in ctx.repo.all_funcs():
        if not q.startswith('lib_guesser/omen/guess_structure.py'):
            continue
        stores = stores_in(fn)
        for n in walk_local(fn):
            tgt = None
            if isinstance(n, ast.AugAssign):
                tgt = n.target
            elif isinstance(n, ast.Assign):
                tgt = n.targets[0]
            if isinstance(tgt, ast.Subscript):
                d = 0
                cur = tgt
                while isinstance(cur, ast.Subscript):
                    d += 1
                    cur = cur.value
                root = U(cur)
                if root == 'self.parse_tree':
                    depth = max(depth, d)
                    sites.append((q, U(tgt), d))
                elif isinstance(cur, ast.Name):
                    # alias of an element: last_item = self.parse_tree[-1]
                    for s, v in stores.get(cur.id, []):
                        if v is not None and U(v).startswith('self.parse_tree['):
                            depth = max(depth, d + 1)
                            sites.append((q, U(tgt) + ' (alias of %s)' % U(v), d + 1))
    return depth, sites


def r1_copy_discipline(ctx, rule):
    need, sites = mutation_depth(ctx)
    facts = {'in_place_mutation_depth': need, 'mutation_sites': sites[:8]}
    if need == 0:
        ctx.unk(rule, GS + 'next_guess', 'no in-place mutation of parse trees found (anchor changed?)', facts)
        return
    cq = OPT + 'custom_copy'
    cfn = ctx.fn(cq)
    p = params(cfn)[1]
    depths = []
    for r in (n for n in walk_local(cfn) if isinstance(n, ast.Return)):
        if const(r.value) is None:
            continue
        d, src = copy_depth(r.value)
        if d and U(src) == p:
            depths.append(d)
        else:
            depths.append(0)
    facts['custom_copy_depth'] = depths
    cdepth = min(depths) if depths else 0
    ok = True
    if cdepth < need:
        ok = False
        ctx.bad(rule, cq, 'custom_copy copies %d level(s), parse trees are mutated at depth %d' % (cdepth, need),
                'a cached parse tree shares its [prefix, level, index] elements with the structure that keeps incrementing '
                'them: later lookups return a corrupted completion, so the result depends on the cache history', facts, cfn)
    lq = OPT + 'lookup'
    lfn = ctx.fn(lq)
    def cache_aliases(f):
        # locals that denote (a part of) the cache: bound from an expression rooted at self.tmto_lookup
        out = set()
        for nm, lst in stores_in(f).items():
            if any(v is not None and 'self.tmto_lookup' in U(v) for s_, v in lst):
                out.add(nm)
        return out

    def in_cache(expr, aliases):
        t = U(expr)
        root = expr
        while isinstance(root, (ast.Subscript, ast.Attribute)):
            root = root.value
        return 'self.tmto_lookup' in t or (isinstance(root, ast.Name) and root.id in aliases)
    l_alias = cache_aliases(lfn)
    rets = [r for r in walk_local(lfn) if isinstance(r, ast.Return) and isinstance(r.value, ast.Tuple) and const(r.value.elts[0]) is True]
    for r in rets:
        v = r.value.elts[1]
        if not (isinstance(v, ast.Call) and call_name(v) in ('self.custom_copy', 'copy.deepcopy') and in_cache(v.args[0], l_alias)):
            ok = False
            ctx.bad(rule, lq, 'lookup returns ' + U(v)[:70], 'the cached value must be copied on lookup (the caller mutates what it '
                    'gets)', facts, r)
    if not rets:
        ok = False
        ctx.bad(rule, lq, 'no `return True, <copy>`', 'lookup shape', facts, lfn)
    uq = OPT + 'update'
    ufn = ctx.fn(uq)
    pt = params(ufn)[4]
    u_alias = cache_aliases(ufn)
    stores_ = [s for s in walk_stmts(ufn.body) if isinstance(s, ast.Assign) and isinstance(s.targets[0], ast.Subscript)
               and in_cache(s.targets[0], u_alias) and pt in U(s.value)]
    for s in stores_:
        v = s.value
        if not (isinstance(v, ast.Call) and call_name(v) in ('self.custom_copy', 'copy.deepcopy') and U(v.args[0]) == pt):
            ok = False
            ctx.bad(rule, uq, 'update stores ' + U(v)[:70], 'the value must be copied on store (the caller goes on mutating it)', facts, s)
    if not stores_:
        ok = False
        ctx.bad(rule, uq, 'no store of the parse tree', 'update shape', facts, ufn)
    if ok:
        ctx.ok(rule, cq, 'copy depth %d >= in-place mutation depth %d; copied on store and on lookup' % (cdepth, need), facts)


def r2_memo_key(ctx, rule):
    q = GS + '_fill_out_parse_tree'
    fn = ctx.fn(q)
    ps = params(fn)[1:4]      # ip, length, target_level
    stores = stores_in(fn)
    ok = True
    facts = {'parameters': ps}
    for p in ps:
        if stores.get(p):
            ok = False
            ctx.bad(rule, q, 'parameter %s is re-bound' % p, 'the memo key must be the triple the function was called with', facts, fn)
    aliases = {p: {p} for p in ps}
    for nm, lst in stores.items():
        if len(lst) == 1 and lst[0][1] is not None and isinstance(lst[0][1], ast.Name) and lst[0][1].id in ps:
            aliases[lst[0][1].id].add(nm)
    n = 0
    for c in calls_in(fn):
        d = call_name(c)
        if d in ('self.optimizer.lookup', 'self.optimizer.update'):
            n += 1
            key = [U(a) for a in c.args[:3]]
            facts.setdefault('calls', []).append(U(c)[:90])
            for k, p in zip(key, ps):
                if k not in aliases[p]:
                    ok = False
                    ctx.bad(rule, q, '%s keyed by %s' % (d.split('.')[-1], key),
                            'the cache entry must be stored/looked up under exactly the (ip, length, target level) of this call; '
                            'an entry written under another key (a loop variable, a lower level) answers a different question '
                            'and poisons later queries', facts, c)
                    break
            # an update inside a loop over levels is suspicious only if the key uses the loop variable: covered above
    # guards: lookup/update only for length <= max_length, same guard
    if ctx.floor(rule, q, n, 3, 'optimizer lookup/update calls') and ok:
        ctx.ok(rule, q, 'all %d cache accesses use the key (ip, length, target_level) as received' % n, facts)
    # shared inputs: cp / max_level are per-structure attributes set once
    iq = GS + '__init__'
    ifn = ctx.fn(iq)
    later = []
    for qq, f in ctx.repo.all_funcs():
        if qq.startswith('lib_guesser/omen/guess_structure.py') and qq != iq:
            for nn in walk_local(f):
                if isinstance(nn, ast.Attribute) and isinstance(nn.ctx, ast.Store) and U(nn) in ('self.cp', 'self.max_level'):
                    later.append((qq, U(nn)))
    if later:
        ctx.bad(rule, iq, 'cp/max_level re-assigned: %s' % later, 'every input of a cached result other than the key must be the '
                'same for all structures sharing the optimizer', None, None)
    else:
        ctx.ok(rule, iq, 'cp and max_level (the non-key inputs of a cached completion) are set once per structure')


def _inline_helper(ctx, node):
    """self.helper() with a single `return <expr>` body -> that expr."""
    if isinstance(node, ast.Call) and isinstance(node.func, ast.Attribute) and U(node.func.value) == 'self' and not node.args:
        q = MC + node.func.attr
        if ctx.repo.has(q):
            fn = ctx.repo.fn(q)
            body = [s for s in fn.body if not (isinstance(s, ast.Expr) and isinstance(s.value, ast.Constant))]
            if len(body) == 1 and isinstance(body[0], ast.Return):
                return body[0].value
    return node


def _cursor_aliases(mod, call):
    """Locals that provably equal a cursor field at the construction: `self.A = [x, y]` earlier in the same block with no store
    to x, y or self.A in between makes x == self.A[0] and y == self.A[1]."""
    chain = enclosing_stmt_chain(mod, call)
    out = {}
    if not chain:
        return out
    stmt = chain[0]
    par = mod.parents.get(id(stmt))
    for field in ('body', 'orelse', 'finalbody'):
        blk = getattr(par, field, None)
        if not (isinstance(blk, list) and stmt in blk):
            continue
        before = blk[:blk.index(stmt)]
        for i, st in enumerate(before):
            if not (isinstance(st, ast.Assign) and len(st.targets) == 1 and isinstance(st.targets[0], ast.Attribute)
                    and isinstance(st.value, (ast.List, ast.Tuple)) and U(st.targets[0]).startswith('self.')):
                continue
            later = before[i + 1:]
            killed = set()
            for l2 in later:
                for n in ast.walk(l2):
                    if isinstance(n, ast.Name) and isinstance(n.ctx, ast.Store):
                        killed.add(n.id)
                    if isinstance(n, ast.Attribute) and isinstance(n.ctx, ast.Store):
                        killed.add(U(n))
                    if isinstance(n, ast.Subscript) and isinstance(n.ctx, ast.Store):
                        killed.add(U(n.value))
            if U(st.targets[0]) in killed:
                continue
            for k, e in enumerate(st.value.elts):
                if isinstance(e, ast.Name) and e.id not in killed:
                    out[e.id] = '%s[%d]' % (U(st.targets[0]), k)
    return out


def _subst_names(node, table):
    import copy

    class T(ast.NodeTransformer):
        def visit_Name(self, n):
            if isinstance(n.ctx, ast.Load) and n.id in table:
                return ast.parse(table[n.id], mode='eval').body
            return n
    return T().visit(copy.deepcopy(node))


def r3_sibling_constructions(ctx, rule):
    sites = []
    for q, fn in ctx.repo.all_funcs():
        if not q.startswith(MCF):
            continue
        for c in calls_in(fn):
            if call_name(c) == 'GuessStructure':
                sites.append((q, fn, c))
    if not ctx.floor(rule, MCF, len(sites), 4, 'GuessStructure constructions'):
        return
    want = Lin({'self.target_level': 1, 'self.cur_len[0]': -1, 'self.cur_ip[0]': -1}, 0)
    sig = None
    ok = True
    for q, fn, c in sites:
        kw = {k.arg: k.value for k in c.keywords}
        al = _cursor_aliases(ctx.repo.modules[MCF], c)
        kw = {k: expand(fn, _subst_names(v, al)) for k, v in kw.items()}
        args = {k: U(v) for k, v in kw.items()}
        tl = kw.get('target_level')
        tl = _inline_helper(ctx, tl) if tl is not None else None
        l = lin(tl) if tl is not None else None
        facts = {'site': q, 'arguments': args, 'target_level': U(tl) if tl is not None else None}
        if l != want:
            ok = False
            ctx.bad(rule, q, 'GuessStructure(target_level=%s)' % (U(tl) if tl is not None else None),
                    'the level budget of a structure must be exactly target_level - length level - initial n-gram level; a '
                    'clamped or otherwise different budget makes the structure emit strings whose total cost is not the '
                    'requested level', facts, c)
        rest = {k: v for k, v in args.items() if k != 'target_level'}
        if sig is None:
            sig = rest
        elif rest != sig:
            ok = False
            ctx.bad(rule, q, 'construction differs from its siblings: %s vs %s' % (rest, sig),
                    'all four constructions must build the structure from the current cursors in the same way', facts, c)
        exp = {'cp': "self.grammar['cp']", 'max_level': 'self.max_level',
               'ip': "self.grammar['ip'][self.cur_ip[0]][self.cur_ip[1]]",
               'cp_length': "self.grammar['ln'][self.cur_len[0]][self.cur_len[1]]", 'optimizer': 'self.optimizer'}
        if rest != exp:
            ok = False
            ctx.bad(rule, q, 'construction arguments %s' % rest, 'structure must be built from the current length / initial '
                    'n-gram cursors', facts, c)
    # _increase_len_for_target resets cur_ip before constructing
    q = MC + '_increase_len_for_target'
    fn = ctx.fn(q)
    cons = [c for c in calls_in(fn) if call_name(c) == 'GuessStructure']
    resets = [s for s in walk_stmts(fn.body) if isinstance(s, ast.Assign) and U(s.targets[0]) == 'self.cur_ip'
              and U(s.value) == '[self.start_ip, 0]']
    if not cons or not resets or resets[0].lineno > cons[0].lineno:
        ok = False
        ctx.bad(rule, q, 'cur_ip not reset before the construction', 'a new length must start again at the first initial n-gram', None, fn)
    if ok:
        ctx.ok(rule, MCF, 'all %d constructions pass target_level - cur_len[0] - cur_ip[0] and identical cursor-derived arguments' % len(sites))


def r4_exact_last_transition(ctx, rule):
    """The last transition must use up exactly the remaining level: _find_cp(ip, L, L) returns a level in [bottom, top]
    and the lower bound is never weakened."""
    q = GS + '_find_cp'
    fn = ctx.fn(q)
    ps = params(fn)   # self, ip, top_level, bottom_level
    top, bottom = ps[2], ps[3]
    stores = stores_in(fn)
    ok = True
    facts = {'stores_top': [U(s_) for s_, v in stores.get(top, [])], 'stores_bottom': [U(s_) for s_, v in stores.get(bottom, [])]}
    if stores.get(bottom):
        ok = False
        ctx.bad(rule, q, 'lower bound re-bound: %s' % facts['stores_bottom'],
                'for the last transition of a string the search is called with top == bottom == remaining level; if the lower '
                'bound is lowered (e.g. clamped to max_level) a cheaper transition is accepted and the string is emitted at a '
                'level that is not its cost', facts, fn)
    for s_, v in stores.get(top, []):
        good = (isinstance(s_, ast.AugAssign) and isinstance(s_.op, ast.Sub) and const(s_.value) == 1) or \
               (v is not None and U(v) == 'self.max_level')
        if not good:
            ok = False
            ctx.bad(rule, q, 'upper bound update ' + U(s_), 'the upper bound may only be clamped to max_level and stepped down', facts, s_)
    loops = [n for n in walk_local(fn) if isinstance(n, ast.While)]
    floops = [n for n in walk_local(fn) if isinstance(n, ast.For)]
    if not loops and len(floops) == 1 and isinstance(floops[0].iter, ast.Call) and call_name(floops[0].iter) == 'range' \
            and len(floops[0].iter.args) == 3 and isinstance(floops[0].target, ast.Name):
        # for level in range(min(top, max_level), bottom - 1, -1): the same descending, bottom-inclusive domain
        fl = floops[0]
        lv = fl.target.id
        a0 = expand(fn, fl.iter.args[0], stores)
        start_ok = U(a0) in ('min(%s, self.max_level)' % top, 'min(self.max_level, %s)' % top, top)
        stop = lin(fl.iter.args[1])
        step_ok = const(fl.iter.args[2]) == -1 or U(fl.iter.args[2]) == '-1'
        facts['range'] = U(fl.iter)
        if not start_ok or stop != Lin({bottom: 1}, -1) or not step_ok:
            ok = False
            ctx.bad(rule, q, 'search loop ' + U(fl.iter), 'levels from min(top, max_level) down to bottom inclusive', facts, fl)
        rets = [r for r in walk_local(fl) if isinstance(r, ast.Return)]
        rv = [U(expand(fn, r.value, stores)) for r in rets]
        if len(rets) != 1 or not isinstance(rets[0].value, ast.Tuple) or len(rets[0].value.elts) != 2 \
                or U(expand(fn, rets[0].value.elts[0], stores)) != 'self.cp[%s][%s]' % (ps[1], lv) or U(rets[0].value.elts[1]) != lv:
            ok = False
            ctx.bad(rule, q, 'returns %s' % rv, 'the level found must be reported as found', facts, fl)
    elif len(loops) != 1:
        ok = False
        ctx.unk(rule, q, 'the descending search loop of _find_cp is not in a recognised form')
    elif U(loops[0].test) not in ('%s >= %s' % (top, bottom), '%s <= %s' % (bottom, top)):
        ok = False
        ctx.bad(rule, q, 'search loop ' + U(loops[0].test), 'levels from top down to bottom inclusive', facts, fn)
    else:
        rets = [r for r in walk_local(loops[0]) if isinstance(r, ast.Return)]
        if len(rets) != 1 or U(rets[0].value) != '(self.cp[%s][%s], %s)' % (ps[1], top, top):
            ok = False
            ctx.bad(rule, q, 'returns %s' % [U(r.value) for r in rets], 'the level found must be reported as found', facts, loops[0])
    # the base case of the fill asks for exactly the target
    fq = GS + '_fill_out_parse_tree'
    ff = ctx.fn(fq)
    fps = params(ff)
    base = [n for n in ff.body if isinstance(n, ast.If) and U(n.test) == '%s == 1' % fps[2]]
    calls = [c for n in base for c in calls_in(n) if call_name(c) == 'self._find_cp']
    if len(calls) != 1 or [U(a) for a in calls[0].args] != [fps[1], fps[3], fps[3]]:
        ok = False
        ctx.bad(rule, fq, 'last transition searched with %s' % ([U(a) for a in calls[0].args] if calls else None),
                'length 1 must search for exactly the remaining level (top = bottom = target)', facts, ff)
    if ok:
        ctx.ok(rule, q, 'last transition: _find_cp(ip, L, L); the lower bound is never weakened; top only clamped/stepped down', facts)


def r5_sibling_cursor_advance(ctx, rule):
    """In both cursor-advance functions a candidate that exists at a level within the budget is always taken:
    the `size > index` branch sets the cursor, builds the structure and returns True - no further pruning."""
    n = 0
    for q in (MC + '_increase_len_for_target', MC + '_increase_ip_for_target'):
        fn = ctx.fn(q)
        found = False
        for node in walk_local(fn):
            if isinstance(node, ast.If) and isinstance(node.test, ast.BoolOp) and any(
                    isinstance(v, ast.Compare) and U(v) in ('size > index', 'index < size') for v in node.test.values):
                found = True
                n += 1
                ctx.bad(rule, q, 'candidate test has extra conditions: ' + U(node.test)[:80],
                        'a length / initial n-gram that exists at a level within the budget must be tried; an extra pruning '
                        'condition drops strings of the level', None, node)
                continue
            if isinstance(node, ast.If) and isinstance(node.test, ast.Compare) and len(node.test.ops) == 1 \
                    and isinstance(node.test.ops[0], (ast.Gt, ast.Lt)) and 'index' in U(node.test) and ('size' in U(node.test) or 'len(' in U(node.test)):
                found = True
                n += 1
                body = node.body
                extra = [s_ for s_ in walk_stmts(body) if isinstance(s_, (ast.If, ast.Continue, ast.Break, ast.While, ast.For))]
                ends = body and isinstance(body[-1], ast.Return) and const(body[-1].value) is True
                builds = any(call_name(c) == 'GuessStructure' for s_ in body for c in calls_in(s_))
                facts = {'branch': [U(s_)[:60] for s_ in body]}
                if extra or not ends or not builds:
                    ctx.bad(rule, q, 'candidate branch prunes or does not accept: %s' % (U(extra[0])[:70] if extra else facts['branch'][-1:]),
                            'a length / initial n-gram that exists at a level within the budget must be tried; an extra pruning '
                            'condition (e.g. a bound that forgets what the initial n-gram can absorb) drops strings of the level',
                            facts, node)
                else:
                    ctx.ok(rule, q, 'an existing candidate is always taken (cursor set, structure built, return True)', facts)
        if not found:
            ctx.unk(rule, q, 'candidate test (size > index) not found')
    ctx.floor(rule, MCF, n, 2, 'candidate branches')


_MUT = {'append', 'extend', 'insert', 'pop', 'remove', 'sort', 'reverse', 'clear', 'update', 'setdefault', 'popitem', 'add',
        'discard'}
OMEN_GEN_FILES = ('lib_guesser/omen/markov_cracker.py', 'lib_guesser/omen/guess_structure.py')
OMEN_MODEL_ROOTS = {'self.grammar', 'self.cp'}


def r6_model_immutable(ctx, rule):
    """The loaded OMEN model is read-only for the generator.

    cur_ip / cur_len (and their pickled copies in the .omn file) are *positions* in the model's lists, and the cached parse
    trees refer to it by level and index: a generator that deletes, reorders or adds entries while it runs makes what a
    level yields depend on which levels (and which process) ran before, and makes a saved position point elsewhere after
    a reload (seed C15-f)."""
    n_reads = 0
    bad = False
    for rel in OMEN_GEN_FILES:
        m = ctx.repo.mod(rel)
        for lname, fn in m.funcs.items():
            q = rel + '::' + lname
            ctx.stats['functions'].add(q)
            tainted = set()
            for nm, lst in stores_in(fn).items():
                for s_, v in lst:
                    if v is None:
                        continue
                    r = v
                    while isinstance(r, ast.Subscript):
                        r = r.value
                    if isinstance(r, ast.Attribute) and U(r) in OMEN_MODEL_ROOTS and r is not v:
                        tainted.add(nm)
                    elif isinstance(v, ast.Attribute) and U(v) in OMEN_MODEL_ROOTS:
                        tainted.add(nm)

            def rooted(n):
                while isinstance(n, ast.Subscript):
                    n = n.value
                if isinstance(n, ast.Attribute) and U(n) in OMEN_MODEL_ROOTS:
                    return True
                return isinstance(n, ast.Name) and n.id in tainted
            for node in walk_local(fn):
                hit = None
                if isinstance(node, ast.Subscript) and rooted(node):
                    if isinstance(node.ctx, ast.Load):
                        n_reads += 1
                    else:
                        hit = node
                elif isinstance(node, ast.Call) and isinstance(node.func, ast.Attribute) and node.func.attr in _MUT \
                        and rooted(node.func.value) and not (isinstance(node.func.value, ast.Attribute)
                                                             and U(node.func.value) == 'self.grammar' and False):
                    hit = node
                elif isinstance(node, ast.AugAssign) and rooted(node.target):
                    hit = node
                if hit is not None:
                    # __init__ may bind the model (self.cp = cp) - that is a store to the attribute, not into the model
                    bad = True
                    par = m.parents.get(id(hit))
                    ctx.bad(rule, q, 'OMEN model modified while generating: ' + U(par if isinstance(par, (ast.Delete, ast.Assign, ast.AugAssign)) else hit)[:70],
                            'the generator must treat the loaded model as read-only: saved positions (cur_ip, cur_len, the .omn '
                            'file) and cached parse trees are indexes into its lists, so an entry removed or added during one '
                            'level shifts what every later level - and a restored session that reloads the model from disk - '
                            'sees at the same index', None, hit)
    if ctx.floor(rule, MCF, n_reads, 15, 'reads of the OMEN model in the generator') and not bad:
        ctx.ok(rule, MCF, 'the generator only reads the model (%d subscript reads, no store/delete/mutator call)' % n_reads)


def r7_prune_discipline(ctx, rule):
    """_fill_out_parse_tree gives up (returns None) only where the model has no transition left to try.

    Reference exits: `cp_index is None` (no transition of ip fits the remaining budget) and loop exhaustion. An added exit
    that refuses a remaining budget by its size alone is wrong for length > 1, where the budget is shared by all remaining
    transitions and legitimately exceeds the level of any single one (seed C18-f: `target_level > self.max_level` made the
    strings of levels whose transition budget exceeds max_level disappear while calc_omen_keyspace still counts them)."""
    q = GS + '_fill_out_parse_tree'
    fn = ctx.fn(q)
    mod = ctx.repo.modules[q.partition('::')[0]]
    ps = params(fn)
    tl = 'target_level' if 'target_level' in ps else None
    if tl is None:
        ctx.unk(rule, q, 'parameter target_level not found')
        return
    n = 0
    bad = unk = False
    # the transition list by its role: the first element of what _find_cp returns (`cp_index` in the reference)
    none_tests = {'cp_index is None'}
    for a_ in walk_stmts(fn.body):
        if isinstance(a_, ast.Assign) and len(a_.targets) == 1 and isinstance(a_.targets[0], ast.Tuple) and a_.targets[0].elts \
                and isinstance(a_.targets[0].elts[0], ast.Name) and isinstance(a_.value, ast.Call) and call_name(a_.value).endswith('_find_cp'):
            none_tests.add('%s is None' % a_.targets[0].elts[0].id)
    for st in walk_stmts(fn.body):
        if not (isinstance(st, ast.Return) and (st.value is None or const(st.value) is None)):
            continue
        n += 1
        conds = path_conditions(mod, st)
        for t, pol in conds:
            txt = U(t)
            if (txt in none_tests or txt == 'length == 1') and pol:
                continue
            if not pol:
                continue    # fall-through of an earlier guard whose body left the function: judged at that guard
            if txt in ('length <= self.optimizer.max_length',):
                continue
            if txt in ('found',):
                continue
            owner = mod.parents.get(id(t))
            if isinstance(owner, ast.While):
                continue
            # a guard on the budget
            cmps = [c for c in ast.walk(t) if isinstance(c, ast.Compare) and len(c.ops) == 1]
            upper = [c for c in cmps if (U(c.left) == tl and isinstance(c.ops[0], (ast.Gt, ast.GtE)) and 'length' not in U(c.comparators[0]))
                     or (U(c.comparators[0]) == tl and isinstance(c.ops[0], (ast.Lt, ast.LtE)) and 'length' not in U(c.left))]
            under_len1 = any(U(t2) == 'length == 1' and p2 for t2, p2 in conds)
            if upper and pol and not under_len1:
                bad = True
                ctx.bad(rule, q, 'gives up when %s' % txt,
                        'for length > 1 target_level is the budget of ALL remaining transitions; it may exceed the level of any '
                        'single transition (max_level) and still be reachable as a sum, so refusing it by size drops strings '
                        'that belong to the level (the trainer\'s keyspace still counts them)', None, st)
            elif txt in ('%s < 0' % tl, '0 > %s' % tl, '%s <= -1' % tl) and pol:
                continue    # a negative budget is never satisfiable: sound prune
            else:
                unk = True
                ctx.unk(rule, q, 'exit under unrecognised condition %s%s' % ('' if pol else 'not ', txt))
    if ctx.floor(rule, q, n, 2, 'give-up exits of _fill_out_parse_tree') and not bad and not unk:
        ctx.ok(rule, q, 'all %d give-up exits are "no transition fits" or loop exhaustion' % n)


def r8_guess_from_tree(ctx, rule):
    """What next_guess emits is a function of the current parse tree and of construction-time constants only.

    The parse tree is replaced wholesale (next IP, optimizer hit, restore from the .omn file writes .parse_tree directly), so
    any other mutable attribute that the emitted string is built from is a cache that those sites do not maintain: the
    string then mixes the prefix of an earlier tree with the last transition of the current one (seed C10-e)."""
    rel = GS.partition('::')[0]
    m = ctx.repo.mod(rel)
    meths = {ln.split('.', 1)[1]: f for ln, f in m.funcs.items() if ln.startswith('GuessStructure.') and '<locals>' not in ln}
    written_outside_init = {}
    for name, f in meths.items():
        if name == '__init__':
            continue
        for n in walk_local(f):
            if isinstance(n, ast.Attribute) and isinstance(n.ctx, (ast.Store, ast.Del)) and isinstance(n.value, ast.Name) and n.value.id == 'self':
                written_outside_init.setdefault(n.attr, name)
            if isinstance(n, (ast.AugAssign,)) and isinstance(n.target, ast.Attribute) and U(n.target.value) == 'self':
                written_outside_init.setdefault(n.target.attr, name)
    allowed_mutable = {'parse_tree'}

    def attrs_of(expr, seen):
        out = set()
        for n in ast.walk(expr):
            if isinstance(n, ast.Attribute) and isinstance(n.value, ast.Name) and n.value.id == 'self':
                par = m.parents.get(id(n))
                if isinstance(par, ast.Call) and par.func is n and n.attr in meths:
                    if n.attr not in seen:
                        seen.add(n.attr)
                        for r in walk_local(meths[n.attr]):
                            if isinstance(r, ast.Return) and r.value is not None:
                                out |= attrs_of(expand(meths[n.attr], r.value, stores_in(meths[n.attr])), seen)
                        # loop-carried accumulation: every expression assigned to a returned name
                        for nm, lst in stores_in(meths[n.attr]).items():
                            for s_, v in lst:
                                if v is not None:
                                    out |= attrs_of(v, seen)
                        for a in walk_local(meths[n.attr]):
                            if isinstance(a, ast.For):
                                out |= attrs_of(a.iter, seen)
                else:
                    out.add(n.attr)
        return out
    fn = meths.get('next_guess')
    if fn is None:
        ctx.unk(rule, GS + 'next_guess', 'next_guess not found')
        return
    nret = 0
    bad = False
    for r in walk_local(fn):
        if isinstance(r, ast.Return) and r.value is not None and const(r.value) is NOCONST:
            nret += 1
            used = attrs_of(expand(fn, r.value, stores_in(fn)), set())
            stale = sorted(a for a in used if a in written_outside_init and a not in allowed_mutable)
            if stale:
                bad = True
                ctx.bad(rule, GS + 'next_guess', 'emitted string depends on self.%s (rewritten in %s)' % (stale[0], written_outside_init[stale[0]]),
                        'the guess must be rebuilt from the current parse tree (and construction-time constants) every time: the '
                        'tree is replaced by the optimizer, by the walk to the next initial n-gram and by a restore, none of '
                        'which maintains a cached piece of the string', {'attributes_used': sorted(used)}, r)
    if ctx.floor(rule, GS + 'next_guess', nret, 3, 'string-returning exits of next_guess') and not bad:
        ctx.ok(rule, GS + 'next_guess', 'all %d emitted strings are built from parse_tree and construction-time attributes only' % nret,
               {'attributes_written_after_init': sorted(written_outside_init)})


def _upper_bounds(expr, lin=lin, start=None):
    """Exclusive range stop -> list of (term_text, inclusive_offset); None if not linear in one atom.
    `max(start, T)` with `start` the first level of the walk bounds the levels like T (the first level is visited anyway - the
    reference tests the budget only after moving up a level)."""
    parts = expr.args if isinstance(expr, ast.Call) and call_name(expr) == 'min' and not expr.keywords else [expr]
    shift = 0
    if isinstance(expr, ast.BinOp) and isinstance(expr.op, (ast.Add, ast.Sub)) and isinstance(expr.left, ast.Call) \
            and call_name(expr.left) == 'min' and isinstance(const(expr.right), int):
        parts = expr.left.args
        shift = const(expr.right) if isinstance(expr.op, ast.Add) else -const(expr.right)
    out = []
    for a in parts:
        if start is not None and isinstance(a, ast.Call) and call_name(a) == 'max' and len(a.args) == 2 and not a.keywords:
            rest_ = [x for x in a.args if U(x) != start]
            if len(rest_) == 1:
                a = rest_[0]
        l = lin(a)
        if l is None or len(l.t) != 1 or list(l.t.values())[0] != 1:
            return None
        out.append((list(l.t)[0], l.c + shift - 1))
    return out


def r9_level_cursor_domain(ctx, rule):
    """Both cursor-advance functions walk the levels cur .. min(max_level, budget) INCLUSIVE.

    Levels run 0..max_level inclusive (the loader creates max_level+1 lists, and rare n-grams sit at max_level), and a level
    equal to the remaining budget is still affordable. A bound that stops one short (seed C10-f: range(cur,
    min(budget + 1, max_level))) silently drops every string whose initial n-gram or length has the top level; a bound one
    too far indexes a level that does not exist."""
    specs = [(MC + '_increase_len_for_target', {'self.target_level'}, Lin({'self.target_level': 1}, 0)),
             (MC + '_increase_ip_for_target', {'working_target'}, Lin({'self.target_level': 1, 'self.cur_len[0]': -1}, 0))]
    n = 0
    KNOWN = {'self.target_level', 'self.cur_len[0]', 'self.cur_ip[0]', 'self.max_level', 'working_target'}
    for q, budget_terms, expected in specs:
        fn = ctx.fn(q)
        bounds = None
        site = fn
        bname = sorted(budget_terms)[0]
        stores_ = stores_in(fn)
        # the budget handed in by the caller (IP walk): working_target at the call site
        site_arg = None
        if bname in params(fn):
            for c_ in calls_in(ctx.fn(MC + 'next_guess')):
                if (call_name(c_) or '').endswith(fn.name):
                    a_ = arg_for(c_, fn, bname, bound=True)
                    if a_ is not None:
                        site_arg = lin(expand(ctx.fn(MC + 'next_guess'), a_))
        wrong_budget = []

        def blin(e_, _lin=lin):
            '''linear form of a level bound with the budget, however it is spelled, folded into the one atom `bname`'''
            l_ = _lin(expand(fn, e_, stores_)) if not isinstance(e_, Lin) else e_
            if l_ is None:
                return None
            if bname in l_.t and bname in params(fn) and site_arg is not None:
                pass            # the parameter stands for the budget; its value is checked at the call site below
            d_ = l_ - expected
            if not d_.t and bname not in params(fn):
                return Lin({bname: 1}, d_.c)
            if len(l_.t) > 1 and set(l_.t) <= KNOWN:
                wrong_budget.append(repr(l_))
                return None
            return l_
        if bname in params(fn) and site_arg is not None and site_arg != expected:
            ctx.bad(rule, MC + 'next_guess', 'budget passed to %s: %r' % (fn.name, site_arg),
                    'the initial n-gram walk may use what the length left over: target_level - length level (inclusive)', None, None)
        for node in walk_local(fn):
            if isinstance(node, ast.While) and isinstance(node.test, ast.Compare) and len(node.test.ops) == 1 and U(node.test.left) == 'level':
                site = node
                bounds = []
                op = node.test.ops[0]
                l = blin(node.test.comparators[0])
                if l is None or len(l.t) != 1 or not isinstance(op, (ast.LtE, ast.Lt)):
                    bounds = None
                    break
                bounds.append((list(l.t)[0], l.c + (0 if isinstance(op, ast.LtE) else -1)))
                for st in walk_stmts(node.body):
                    if isinstance(st, ast.If) and isinstance(st.test, ast.Compare) and len(st.test.ops) == 1 and U(st.test.left) == 'level' \
                            and st.body and isinstance(st.body[-1], ast.Return) and const(st.body[-1].value) is False:
                        op2 = st.test.ops[0]
                        l2 = blin(st.test.comparators[0])
                        if l2 is None or len(l2.t) != 1 or not isinstance(op2, (ast.Gt, ast.GtE)):
                            bounds = None
                            break
                        bounds.append((list(l2.t)[0], l2.c + (0 if isinstance(op2, ast.Gt) else -1)))
                break
            if isinstance(node, ast.For) and U(node.target) == 'level' and isinstance(node.iter, ast.Call) and call_name(node.iter) == 'range' \
                    and len(node.iter.args) == 2:
                site = node
                bounds = _upper_bounds(node.iter.args[1], blin, start=U(expand(fn, node.iter.args[0], stores_)))
                if bounds is None:
                    bounds = _upper_bounds(node.iter.args[1], blin, start=U(node.iter.args[0]))
                break
        if bounds is None and wrong_budget:
            n += 1
            ctx.bad(rule, q, 'level bound %s' % wrong_budget[0],
                    'the cursor must visit the levels up to the remaining budget inclusive - here %r; a bound that subtracts more stops '
                    'the walk early and the strings behind the skipped levels are never generated, although the keyspace counts them'
                    % expected, None, site, firm=True)
            continue
        if bounds is None:
            ctx.unk(rule, q, 'level loop bounds not recognised')
            continue
        n += 1
        bd = {}
        for t, off in bounds:
            bd[t] = min(off, bd.get(t, off))
        facts = {'inclusive_upper_bounds': ['level <= %s%+d' % (t, o) if o else 'level <= %s' % t for t, o in sorted(bd.items())]}
        ok = True
        if bd.get('self.max_level') != 0:
            ok = False
            ctx.bad(rule, q, 'levels visited: %s' % facts['inclusive_upper_bounds'],
                    'the cursor must reach level max_level itself (inclusive) and no further: the model has lists for levels '
                    '0..max_level and rare lengths / initial n-grams sit at max_level; stopping one short drops every string that '
                    'uses them', facts, site)
        bt = [t for t in bd if t in budget_terms]
        if ok and (not bt or bd[bt[0]] != 0):
            ok = False
            ctx.bad(rule, q, 'levels visited: %s' % facts['inclusive_upper_bounds'],
                    'a level equal to the remaining budget is affordable (the rest of the string may cost 0): the cursor must '
                    'visit levels up to the budget inclusive, and none above it', facts, site)
        extra = [t for t in bd if t != 'self.max_level' and t not in budget_terms]
        if ok and extra:
            ok = False
            ctx.bad(rule, q, 'additional level bound %s' % extra, 'only max_level and the remaining budget bound the level cursor', facts, site)
        if ok:
            ctx.ok(rule, q, 'levels visited: cur .. min(max_level, budget) inclusive', facts)
    ctx.floor(rule, MCF, n, 2, 'level cursor loops')


def r10_cache_key_agreement(ctx, rule):
    """Optimizer.lookup reads the cache under exactly the key path Optimizer.update writes it under.

    Key path = the sequence of index expressions from self.tmto_lookup down to the stored parse tree (nested subscripts, .get /
    .setdefault hops, aliases, tuple keys flattened, a key bound to a local resolved).  The two must be the same sequence of the
    same parameters: (ip, length, level) written but (ip, level, length) probed never hits - or hits the answer of another
    question (seed C10-h)."""
    paths = {}
    for name in ('lookup', 'update'):
        q = OPT + name
        fn = ctx.fn(q)
        stores = stores_in(fn)
        alias = {}

        def chain(e, depth=0):
            """index expressions from the cache root down to e, or None if e is not rooted in the cache"""
            if depth > 6:
                return None
            if isinstance(e, ast.Attribute) and U(e) == 'self.tmto_lookup':
                return []
            if isinstance(e, ast.Name) and e.id in alias:
                return list(alias[e.id])
            if isinstance(e, ast.Subscript):
                base = chain(e.value, depth + 1)
                if base is None:
                    return None
                k = expand(fn, e.slice, stores)
                ks = [U(x) for x in k.elts] if isinstance(k, ast.Tuple) else [U(k)]
                return base + ks
            if isinstance(e, ast.Call) and isinstance(e.func, ast.Attribute) and e.func.attr in ('get', 'setdefault') and e.args:
                base = chain(e.func.value, depth + 1)
                if base is None:
                    return None
                k = expand(fn, e.args[0], stores)
                ks = [U(x) for x in k.elts] if isinstance(k, ast.Tuple) else [U(k)]
                return base + ks
            return None
        changed = True
        while changed:
            changed = False
            for nm, lst in stores.items():
                if nm in alias:
                    continue
                for s_, v in lst:
                    if v is not None:
                        c = chain(v)
                        if c is not None and c:
                            alias[nm] = c
                            changed = True
        best = []
        for n in walk_local(fn):
            if isinstance(n, ast.Subscript) or (isinstance(n, ast.Call) and isinstance(n.func, ast.Attribute)
                                                 and n.func.attr in ('get', 'setdefault')):
                c = chain(n)
                if c is not None and len(c) > len(best):
                    best = c
        paths[name] = best
    facts = {'lookup_key_path': paths['lookup'], 'update_key_path': paths['update']}
    if len(paths['lookup']) < 2 or len(paths['update']) < 2:
        ctx.unk(rule, OPT + 'lookup', 'cache key paths not recognised: %s' % facts)
        return
    if paths['lookup'] == paths['update'] and sorted(paths['lookup']) == sorted(params(ctx.fn(OPT + 'lookup'))[1:4]):
        ctx.ok(rule, OPT + 'lookup', 'lookup and update address the cache by the same key path %s' % paths['lookup'], facts)
    else:
        ctx.bad(rule, OPT + 'lookup', 'lookup probes %s, update stores under %s' % (paths['lookup'], paths['update']),
                'a completion stored for (n-gram, length, level) must be found again under exactly that question and under no other: '
                'a permuted or partial key makes lookups miss - or return the completion of a different length/level, so what a level '
                'yields depends on what the cache already holds', facts, ctx.fn(OPT + 'lookup'))


def r12_hit_implies_stored(ctx, rule):
    """Optimizer.lookup answers (True, tree) only for a key that was stored: every `.get()` hop on the way to the returned tree
    must be tested for None (and answered with the miss) before the hit is returned.  (Seed C04-i replaced the KeyError handler by
    dict.get(): an n-gram cached for another level came back as (True, None) - "there is no completion" - and the whole
    sub-tree was pruned, so a level lost strings depending on what was expanded before.)"""
    q = OPT + 'lookup'
    fn = ctx.fn(q)
    mod = ctx.repo.modules[q.partition('::')[0]]
    stores = stores_in(fn)
    hits = [r for r in walk_local(fn) if isinstance(r, ast.Return) and isinstance(r.value, ast.Tuple) and len(r.value.elts) == 2
            and const(r.value.elts[0]) is True]
    if not ctx.floor(rule, q, len(hits), 1, 'hit returns in Optimizer.lookup'):
        return
    ok = True
    for r in hits:
        e = r.value.elts[1]
        while isinstance(e, ast.Call) and (call_name(e) or '').rpartition('.')[2] in ('custom_copy', 'copy', 'deepcopy', 'list') and e.args:
            e = e.args[0]
        conds = path_conditions(mod, r)

        def checked(x):
            name = U(x)
            flat = []
            todo = list(conds)
            while todo:
                t, pol = todo.pop()
                if isinstance(t, ast.BoolOp) and ((isinstance(t.op, ast.Or) and not pol) or (isinstance(t.op, ast.And) and pol)):
                    todo.extend((v, pol) for v in t.values)     # every disjunct false / every conjunct true
                elif isinstance(t, ast.UnaryOp) and isinstance(t.op, ast.Not):
                    todo.append((t.operand, not pol))
                else:
                    flat.append((t, pol))
            for t, pol in flat:
                txt = U(t)
                if (txt in ('%s is None' % name, '%s == None' % name) and not pol) or \
                        (txt in ('%s is not None' % name, name, '%s != None' % name) and pol):
                    return True
            return False

        def unguarded_get(x, depth=0):
            """the first .get() hop below x whose None is not excluded on the way to this return, 'unknown', or None.  Once a value
            is known not to be None the hops inside it cannot have missed silently (None.get raises)."""
            if depth > 6:
                return 'unknown'
            if checked(x):
                return None
            if isinstance(x, ast.Name):
                v = single_def(fn, x.id, stores)
                if v is None:
                    return 'unknown' if x.id not in params(fn) else None
                return unguarded_get(v, depth + 1)
            if isinstance(x, ast.Subscript):
                return unguarded_get(x.value, depth + 1)
            if isinstance(x, ast.Attribute):
                return None
            if isinstance(x, ast.Call) and isinstance(x.func, ast.Attribute) and x.func.attr == 'get':
                if len(x.args) != 1 or x.keywords:
                    return 'unknown'
                return x
            return 'unknown'
        g = unguarded_get(e)
        if g == 'unknown':
            ok = False
            ctx.unk(rule, q, 'the value returned as a cache hit is not understood: %s' % U(r.value)[:80])
        elif g is not None:
            ok = False
            ctx.bad(rule, q, 'hit returned without excluding the miss of %s' % U(g)[:60],
                    'dict.get() answers None for a key that was never stored; returned as (True, None) it reads "the cached answer is: '
                    'no completion", the caller prunes the sub-tree, and the level loses strings depending on what was cached before', None, r)
    if ok:
        ctx.ok(rule, q, 'every hit return of Optimizer.lookup excludes the miss of each .get() hop (or indexes under a KeyError handler)',
               {'hits': [U(r.value)[:80] for r in hits]})


def r13_window_slices(ctx, rule):
    """The sliding n-gram window of the OMEN generator is never written as `prefix[-k:]` with a k that can be 0: an initial n-gram
    has ngram-1 >= 1 characters and the supported n-gram sizes start at 2, so ip_length - 1 IS 0 for 2-gram models and
    `prefix[-0:]` is the whole prefix - the refilled prefix is then no key of the transition table, every refill after a backtrack
    fails and strings of the level are silently missing (seeds C10-i, C18-i)."""
    from .common import negated_slice_bounds
    negated_slice_bounds(ctx, rule, ['lib_guesser/omen/'], {'self.ip_length': 1, 'self.ngram': 2, "grammar['ngram']": 2}, 3,
                         'for 2-gram models the expression is 0 and x[-0:] is the whole string (x[:-0] the empty one), not the last 0 '
                         'characters: the window is wrong for that n-gram size only, so strings are missing from every level')


_BUDGET_ATOMS = ('self.target_level', 'target_level', 'working_target', 'req_level')


def r14_zero_budget_is_valid(ctx, rule):
    """A remaining level budget of 0 is a budget like any other: level-0 lengths, initial n-grams and transitions use it up
    exactly.  The reference compares budgets only with levels, never with a constant; a test that tells budget 0 from budget 1
    and leaves (or short-circuits the search) for 0 drops the strings whose remaining items all have level 0 (seed C11-i:
    `working_target <= 0 or not self._increase_ip_for_target(..)` skipped every level-0 initial n-gram but the first).  A test
    `budget < 0` prunes nothing reachable and is accepted."""
    from ..core import _ends_with_jump
    n = 0
    bad = False
    for rel in ('lib_guesser/omen/markov_cracker.py', 'lib_guesser/omen/guess_structure.py'):
        m = ctx.repo.mod(rel)
        for q_, fn in sorted(m.funcs.items()):
            stores = stores_in(fn)
            for node in walk_local(fn):
                if not (isinstance(node, ast.Compare) and len(node.ops) == 1):
                    continue
                n += 1
                for bud, other, flip in ((node.left, node.comparators[0], False), (node.comparators[0], node.left, True)):
                    c = const(other)
                    if c is NOCONST or isinstance(c, bool) or not isinstance(c, (int, float)):
                        continue
                    l = lin(expand(fn, bud, stores))
                    if l is None or not any(a in _BUDGET_ATOMS and k > 0 for a, k in l.t.items()):
                        continue
                    op = type(node.ops[0])
                    if flip:
                        op = {ast.Lt: ast.Gt, ast.Gt: ast.Lt, ast.LtE: ast.GtE, ast.GtE: ast.LtE}.get(op, op)
                    val = {ast.Lt: lambda b: b < c, ast.LtE: lambda b: b <= c, ast.Gt: lambda b: b > c, ast.GtE: lambda b: b >= c,
                           ast.Eq: lambda b: b == c, ast.NotEq: lambda b: b != c}.get(op)
                    if val is None or val(0) == val(1):
                        continue       # does not tell an empty budget from a positive one
                    at0 = val(0)
                    q = '%s::%s' % (rel, q_)
                    # where does the outcome for budget 0 lead?
                    cur, pol = node, at0
                    par = m.parents.get(id(cur))
                    while isinstance(par, ast.UnaryOp) and isinstance(par.op, ast.Not):
                        cur, pol, par = par, not pol, m.parents.get(id(par))
                    prune = False
                    if isinstance(par, ast.BoolOp):
                        later = par.values[[id(v) for v in par.values].index(id(cur)) + 1:]
                        short = (isinstance(par.op, ast.Or) and pol) or (isinstance(par.op, ast.And) and not pol)
                        if short and any(isinstance(x, ast.Call) for v in later for x in ast.walk(v)):
                            prune = True
                    elif isinstance(par, (ast.If, ast.While)) and par.test is cur:
                        branch = par.body if pol else par.orelse
                        if isinstance(par, ast.If) and _ends_with_jump(branch):
                            prune = True
                        if isinstance(par, ast.While) and not pol:
                            prune = True
                    bad = True
                    if prune:
                        ctx.bad(rule, q, 'budget test %s gives up for an empty budget' % U(node)[:60],
                                'a remaining budget of 0 is used up exactly by items of level 0; skipping the search for it drops every '
                                'string whose remaining items are all level 0, while the trainer and the scorer still give those strings '
                                'this level', None, node)
                    else:
                        ctx.unk(rule, q, 'budget test %s tells an empty budget from a positive one' % U(node)[:60])
    if ctx.floor(rule, 'lib_guesser/omen/markov_cracker.py', n, 8, 'comparisons in the OMEN generator') and not bad:
        ctx.ok(rule, 'lib_guesser/omen/markov_cracker.py', 'no comparison treats a zero level budget differently from a positive one '
               '(%d comparisons)' % n)


def r16_no_shared_defaults(ctx, rule):
    """The cache belongs to one optimizer (and so to one ruleset): no function of the guesser keeps or fills a mutable default
    argument (seed C11-j: `def __init__(self, max_length, tmto_lookup=[])` made every Optimizer of the process share one table of
    completions, so the second ruleset was served parse trees computed from the first one's transitions)."""
    from .common import no_mutable_defaults
    no_mutable_defaults(ctx, rule, ['lib_guesser/'], 60, 'the default object is created once and shared by every call that omits the '
                        'argument: state of one generator / session / ruleset leaks into the next one created in the same process')


def _length_domain(ctx, rule):
    # "none missing": the generator walks every length the model lists, starting at the n-gram size (seed C10-k: the length
    # loader's guard compared with min_size instead of min_size - 1 and dropped the shortest length)
    from . import c11
    return c11.r5_length_domain(ctx, rule)


def r18_popped_level_read_once(ctx, rule):
    """Backtracking in GuessStructure.next_guess lowers the level field of the element it is scanning (`last_item[1] = ...`) and
    then pops that very element (`element = self.parse_tree.pop()`): whatever the refill budget needs from a popped element's
    level must have been taken BEFORE the scan touched it.  Inside the backtracking loop the level `[1]` of a name that the
    loop re-binds to the popped element is therefore never read (the reference adds the level of the element that is NEXT to be
    scanned, before scanning it).  Seed C11-k moved the bookkeeping to the loop head and added `element[1]` there: from the
    second pass on that is the lowered level, the budget is too small, and strings are emitted at a level that is not theirs."""
    q = GS + 'next_guess'
    fn = ctx.fn(q)
    loops = [n for n in fn.body if isinstance(n, ast.While) and 'parse_tree' in U(n.test)]
    if not ctx.floor(rule, q, len(loops), 1, 'backtracking loops over self.parse_tree'):
        return
    lp = loops[0]
    popped = {s_.targets[0].id for s_ in walk_stmts(lp.body) if isinstance(s_, ast.Assign) and len(s_.targets) == 1
              and isinstance(s_.targets[0], ast.Name) and isinstance(s_.value, ast.Call) and U(s_.value.func).endswith('parse_tree.pop')}
    scanned_written = any(isinstance(n, ast.Subscript) and isinstance(n.ctx, ast.Store) and const(n.slice) == 1 for n in ast.walk(lp))
    if not popped or not scanned_written:
        ctx.unk(rule, q, 'the backtracking loop does not pop into a name / does not lower a level in place: shape not recognised')
        return
    bad = False
    for n in ast.walk(lp):
        if isinstance(n, ast.Subscript) and isinstance(n.ctx, ast.Load) and isinstance(n.value, ast.Name) and n.value.id in popped \
                and const(n.slice) == 1:
            bad = True
            ctx.bad(rule, q, 'level of the popped element read inside the backtracking loop: %s[1]' % n.value.id,
                    'the popped element is the one the scan has just walked down to a lower level, so its [1] is no longer the level it '
                    'had in the guess that was emitted: a budget built from it is too small and the refilled guess falls short of the '
                    'target level (emitted at the wrong level, while the right strings behind that branch are never produced)', None, n)
    if not bad:
        ctx.ok(rule, q, 'the level of a popped element is not read after the scan lowered it', {'popped_into': sorted(popped)})


def r11_generator_state_per_object(ctx, rule):
    """Cursor, parse tree and cache belong to one generator / one optimizer: no OMEN class keeps a mutable container at class level
    that its methods change in place."""
    from .common import no_shared_class_state
    no_shared_class_state(ctx, rule, ['lib_guesser/omen/'], 6, 'the object is shared by every instance of the class: a second session / queue / generator created in the same process starts with (and keeps changing) the state of the first one')


def _omen_reader_strip(ctx, rule):
    # the generator enumerates the model that is on disk only if its readers remove the line terminator and nothing else (seed
    # C10-j: newline='\n' with rstrip('\n') kept the CR of CR LF files on every n-gram)
    from . import c07, c11
    return c07.r5_strip_discipline(ctx, rule, only=c11._OMEN_READERS, floor=4)


def r25_cracker_plumbing(ctx, rule):
    """Three pieces of glue inside the Markov generator:

      * MarkovCracker.__init__ takes max_level from grammar['max_level'] and the length of an initial n-gram from grammar['ngram'] - 1
        (seed C10-ea merged the two assignments into one tuple assignment with the right-hand sides swapped: every entry above level
        ngram - 1 is silently never visited);
      * GuessStructure._format_guess returns the string spelled by the parse tree and nothing else - no normalisation, case mapping
        or stripping of the result (seed C10-eb: unicodedata.normalize('NFC', guess) - the emitted string is no longer the model's);
      * GuessStructure._find_cp keeps no memo of its own: its answer depends on ip, top_level AND bottom_level, and a dictionary keyed
        by less hands an exact-level lookup the answer of a range lookup (seeds C11-eb / C18-eb / C04-eb)."""
    ok = True
    q1 = MC + '__init__'
    fn = ctx.fn(q1)
    ctx.stats['functions'].add(q1)
    want = {'self.max_level': "grammar['max_level']", 'self.length_ip': "grammar['ngram'] - 1"}
    got = {}
    gparam = params(fn)[1] if len(params(fn)) > 1 else 'grammar'
    for st in walk_local(fn):
        if isinstance(st, ast.Assign) and len(st.targets) == 1:
            t, v = st.targets[0], st.value
            pairs = list(zip(t.elts, v.elts)) if isinstance(t, ast.Tuple) and isinstance(v, ast.Tuple) and len(t.elts) == len(v.elts) else [(t, v)]
            for tt, vv in pairs:
                if U(tt) in want:
                    got[U(tt)] = (U(vv).replace(gparam + '[', 'grammar['), st)
    for k, w in want.items():
        if k not in got:
            ok = False
            ctx.unk(rule, q1, '%s is not bound in a form this rule knows' % k)
        elif got[k][0] != w:
            ok = False
            if got[k][0] in want.values():
                ctx.bad(rule, q1, '%s = %s' % (k, got[k][0]), 'max_level bounds every level walk, length_ip is the length of an initial n-gram (ngram - 1): '
                        'the two values are exchanged', None, got[k][1], firm=True)
            else:
                ctx.unk(rule, q1, '%s = %s' % (k, got[k][0]))
    q2 = GS + '_format_guess'
    f2 = ctx.fn(q2)
    ctx.stats['functions'].add(q2)
    for r in [x for x in walk_local(f2) if isinstance(x, ast.Return) and x.value is not None]:
        v = r.value
        plain = isinstance(v, ast.Name) or (isinstance(v, ast.Call) and U(v.func) == "''.join") or isinstance(v, ast.BinOp)
        if not plain:
            ok = False
            if isinstance(v, ast.Call):
                ctx.bad(rule, q2, 'the guess is returned as ' + U(v)[:60], 'what is emitted is the string the parse tree spells, character for character',
                        None, r, firm=True)
            else:
                ctx.unk(rule, q2, 'return value %s is not of a form this rule knows' % U(v)[:50])
    q3 = GS + '_find_cp'
    f3 = ctx.fn(q3)
    ctx.stats['functions'].add(q3)
    p3 = params(f3)
    for st in walk_local(f3):
        tg = st.targets[0] if isinstance(st, ast.Assign) and len(st.targets) == 1 else None
        if isinstance(tg, ast.Subscript) and isinstance(tg.value, ast.Attribute) and U(tg.value.value) == 'self':
            key_names = {x.id for x in ast.walk(tg.slice) if isinstance(x, ast.Name)}
            if len(p3) >= 4 and p3[3] not in key_names:
                ok = False
                ctx.bad(rule, q3, 'memo %s[%s] = ..' % (U(tg.value), U(tg.slice)[:40]), 'the key leaves out %s: lookups for the last character (an exact '
                        'level) and for inner characters (a range of levels) share entries' % p3[3], None, st, firm=True)
    if ok:
        ctx.ok(rule, MCF, 'max_level / length_ip come from their own model fields; _format_guess returns the spelled string; _find_cp keeps no partial-key memo')


def r23_cursor_starts(ctx, rule):
    """The two cursors of the level walk ([level, index] into the LN and IP tables) start at the FIRST entry of a level: wherever a
    cursor is set from a constant index, that index is 0.  (Mutation sweep: `self.cur_len = [self.start_length, 1]` skipped the first
    length of the first level, silently.)"""
    n = 0
    ok = True
    for lname, fn in ctx.repo.modules[MCF].funcs.items():
        if not lname.startswith('MarkovCracker.'):
            continue
        q = MCF + '::' + lname
        for st in walk_local(fn):
            if isinstance(st, ast.Assign) and len(st.targets) == 1 and U(st.targets[0]) in ('self.cur_len', 'self.cur_ip') \
                    and isinstance(st.value, (ast.List, ast.Tuple)) and len(st.value.elts) == 2:
                n += 1
                ctx.stats['functions'].add(q)
                idx = st.value.elts[1]
                if isinstance(const(idx), int) and not isinstance(const(idx), bool) and const(idx) != 0:
                    ok = False
                    ctx.bad(rule, q, U(st)[:70], 'a cursor set from a constant starts at entry 0 of its level: every entry before the start '
                            'index is never combined with anything', None, st, firm=True)
    # the scan that finds the first populated level (start_ip / start_length) starts at level 0 (seed C04-fb: range(1, max_level + 1)
    # - every initial n-gram and every length of level 0 is never visited, silently)
    scans = 0
    for lname, fn in ctx.repo.modules[MCF].funcs.items():
        if not lname.startswith('MarkovCracker.') and '.' in lname:
            continue
        ps = params(fn)
        for loop in walk_local(fn):
            if not (isinstance(loop, ast.For) and isinstance(loop.target, ast.Name) and isinstance(loop.iter, ast.Call)
                    and call_name(loop.iter) == 'range'):
                continue
            v = loop.target.id
            rets = [r for r in ast.walk(loop) if isinstance(r, ast.Return) and isinstance(r.value, ast.Name) and r.value.id == v]
            tabs = [x for x in ast.walk(loop) if isinstance(x, ast.Subscript) and isinstance(x.value, ast.Name) and x.value.id in ps
                    and isinstance(x.slice, ast.Name) and x.slice.id == v]
            if not rets or not tabs:
                continue
            scans += 1
            q = MCF + '::' + lname
            ctx.stats['functions'].add(q)
            a = loop.iter.args
            if len(a) >= 2:
                c0 = const(a[0])
                if c0 is NOCONST:
                    ok = False
                    ctx.unk(rule, q, 'first-populated-level scan starts at %s - not a constant' % U(a[0])[:40])
                elif c0 != 0:
                    ok = False
                    ctx.bad(rule, q, 'first-populated-level scan: ' + U(loop.iter)[:60], 'levels are numbered from 0: a scan that starts '
                            'later never finds the entries of level 0, so start_ip / start_length skip the most probable n-grams and lengths',
                            None, loop, firm=True)
            if len(a) == 3 and const(a[2]) != 1:
                ok = False
                ctx.unk(rule, q, 'first-populated-level scan with a step: ' + U(loop.iter)[:60])
    if not ctx.floor(rule, MCF, scans, 1, 'first-populated-level scans in markov_cracker.py'):
        ok = False
    if ctx.floor(rule, MCF, n, 3, 'cursor assignments in MarkovCracker') and ok:
        ctx.ok(rule, MCF, 'the %d cursor assignments use index 0 or the loop position; the first-level scan starts at level 0' % n)


def r20_omen_config_keys(ctx, rule):
    """The OMEN config is read under the keys it is written under: every (section, option) _load_config reads is one the
    trainer's _save_config sets, none is read with a fallback (a misspelt key would silently give the default - seed C10-ca:
    getint('training_settings', 'ngrams', fallback=4): every ruleset trained with another n-gram size is walked as a 4-gram
    model), and the n-gram size reaches grammar['ngram'] as an int."""
    wq = 'lib_trainer/omen/omen_file_output.py::_save_config'
    rq = 'lib_guesser/omen/input_file_io.py::_load_config'
    wfn, rfn = ctx.fn(wq), ctx.fn(rq)
    ctx.stats['functions'].update({wq, rq})
    written = {(s_, o) for s_, o, v, c in c08.config_writes(wfn) if s_ is not None and o is not None}
    reads = c08.config_reads(rfn)
    if not ctx.floor(rule, wq, len(written), 2, 'options written to the OMEN config') or \
            not ctx.floor(rule, rq, len(reads), 2, 'options read from the OMEN config'):
        return
    ok = True
    for s_, o, getter, node in reads:
        call = node if isinstance(node, ast.Call) else None
        if s_ is None or o is None:
            ok = False
            ctx.unk(rule, rq, 'config read with a key that is not a constant: ' + U(node)[:70])
            continue
        if (s_, o) not in written:
            ok = False
            ctx.bad(rule, rq, 'reads [%s] %s' % (s_, o), 'the trainer writes %s: an option it never writes is absent from every ruleset'
                    % sorted(written), {'written': sorted(written)}, node, firm=True)
        if call is not None and (any(k.arg == 'fallback' for k in call.keywords) or len(call.args) > 2):
            ok = False
            ctx.bad(rule, rq, 'read with a fallback: ' + U(call)[:80], 'a ruleset whose config lacks the option must be refused, not walked '
                    'with a guessed model parameter', None, node, firm=True)
    # role: grammar['ngram'] <- getint(.., 'ngram')
    for st in walk_local(rfn):
        if isinstance(st, ast.Assign) and len(st.targets) == 1 and isinstance(st.targets[0], ast.Subscript) and const(st.targets[0].slice) == 'ngram':
            v = st.value
            if not (isinstance(v, ast.Call) and isinstance(v.func, ast.Attribute) and v.func.attr == 'getint'):
                if isinstance(v, ast.Call) and isinstance(v.func, ast.Attribute) and v.func.attr in c08.GETTERS:
                    ok = False
                    ctx.bad(rule, rq, "grammar['ngram'] = " + U(v)[:70], 'the n-gram size is used in arithmetic and as a slice bound: it must be read as an int',
                            None, st, firm=True)
                else:
                    ok = False
                    ctx.unk(rule, rq, "grammar['ngram'] is bound to %s - not a config read this rule knows" % U(v)[:60])
    if ok:
        ctx.ok(rule, rq, 'the %d options _load_config reads are options _save_config writes, none with a fallback' % len(reads), {'written': sorted(written)})


def r19_loaded_model_unfiltered(ctx, rule):
    """The tables the enumeration walks are the tables of the ruleset: load_rules hands `grammar` to the readers and does not
    cut the tables down afterwards (seed C10-o: CP restricted to the prefixes that occur in IP - a transition may lead to an
    n-gram that never starts a password, so every guess through it disappears from its level)."""
    q = 'lib_guesser/omen/input_file_io.py::load_rules'
    fn = ctx.fn(q)
    ps = params(fn)
    ctx.stats['functions'].add(q)
    loads = [c for c in calls_in(fn) if any(isinstance(a, ast.Name) and a.id in ps for a in c.args) and (call_name(c) or '').startswith('_load')]
    if not ctx.floor(rule, q, len(loads), 4, 'reader calls in load_rules'):
        return
    gnames = {a.id for c in loads for a in c.args if isinstance(a, ast.Name) and a.id in ps}
    gnames = {g for g in gnames if sum(1 for c in loads if any(isinstance(a, ast.Name) and a.id == g for a in c.args)) == len(loads)
              and g != ps[0]}
    if len(gnames) != 1:
        ctx.unk(rule, q, 'the dictionary every reader fills is not identifiable (%s)' % sorted(gnames))
        return
    g = gnames.pop()
    ok = True

    def root_is_g(e):
        while isinstance(e, (ast.Subscript, ast.Attribute)):
            e = e.value
        return isinstance(e, ast.Name) and e.id == g

    for n in walk_local(fn):
        if isinstance(n, (ast.Assign, ast.AugAssign)):
            tgts = n.targets if isinstance(n, ast.Assign) else [n.target]
            for t in tgts:
                if isinstance(t, ast.Subscript) and root_is_g(t):
                    key = U(t)
                    reads_self = any(isinstance(x, ast.Subscript) and U(x) == key and x is not t for x in ast.walk(n.value))
                    ok = False
                    if reads_self or isinstance(n, ast.AugAssign):
                        ctx.bad(rule, q, '%s re-built from itself: %s' % (key, U(n.value)[:70]),
                                'what the readers loaded must reach the generator unfiltered: every line of IP/CP/EP/LN.level belongs to the model',
                                None, n, firm=True)
                    else:
                        ctx.unk(rule, q, 'load_rules itself stores %s - not a form this rule knows' % U(n)[:80])
        elif isinstance(n, ast.Delete) and any(root_is_g(t) for t in n.targets):
            ok = False
            ctx.bad(rule, q, 'entry removed after loading: ' + U(n)[:70], 'what the readers loaded must reach the generator unfiltered', None, n, firm=True)
        elif isinstance(n, ast.Call) and isinstance(n.func, ast.Attribute) and root_is_g(n.func.value) \
                and n.func.attr in ('pop', 'popitem', 'clear', 'remove', 'discard', 'sort', 'reverse'):
            ok = False
            ctx.bad(rule, q, 'table altered after loading: ' + U(n)[:70], 'what the readers loaded must reach the generator unfiltered', None, n, firm=True)
    if ok:
        ctx.ok(rule, q, 'load_rules passes %s to %d readers and neither re-binds nor shrinks any of its tables' % (g, len(loads)))


def r26_memo_tables_distinct(ctx, rule):
    """The memo has one table per length: a key (ip, level) found in the table of length L must have been stored for length L.  A
    chained assignment or `[{}] * n` binds ONE dict to every length, the key collapses to (ip, level) and a completion cached for
    one length is served for another (wrong-length, duplicate and missing strings, depending on the order levels were run in)."""
    from .common import no_aliased_containers
    no_aliased_containers(ctx, rule, ['lib_guesser/omen/'], 20, 'the OMEN tables and the memo are indexed by length / level: one '
                          'container bound to several slots merges what belongs to different lengths or levels')


def r27_inner_counters(ctx, rule):
    from .common import inner_counters_reset
    inner_counters_reset(ctx, rule, ['lib_guesser/omen/'], 0, 'every pass of the level fall-back walks the whole transition list of the '
                         'lower level: a counter that keeps its value skips the transitions in front of it, the strings behind them are '
                         'emitted at no level (and the failure is cached), although trainer and scorer give them one')


def _shared_rule(mod, name, **kw):
    def run(ctx, rule):
        import importlib
        return getattr(importlib.import_module('sa.props.' + mod), name)(ctx, rule, **kw)
    return run


def rules(tier):
    return [('C10.R1', r1_copy_discipline), ('C10.R2', r2_memo_key), ('C10.R3', r3_sibling_constructions), ('C10.R4', r4_exact_last_transition),
            ('C10.R5', r5_sibling_cursor_advance), ('C10.R6', r6_model_immutable), ('C10.R7', r7_prune_discipline), ('C10.R8', r8_guess_from_tree), ('C10.R9', r9_level_cursor_domain), ('C10.R10', r10_cache_key_agreement), ('C10.R11', r11_generator_state_per_object), ('C10.R12', r12_hit_implies_stored), ('C10.R13', r13_window_slices), ('C10.R14', r14_zero_budget_is_valid), ('C10.R15', _omen_reader_strip), ('C10.R16', r16_no_shared_defaults), ('C10.R17', _length_domain), ('C10.R18', r18_popped_level_read_once), ('C10.R19', r19_loaded_model_unfiltered), ('C10.R20', r20_omen_config_keys),
            # C09-da: the OMEN tables must decode exactly
            ('C10.R21', _shared_rule('plumbing', 'decode_error_policy')),
            # C10-da: the .omn session file opened 'ab' - a second interruption appends behind the first and load_session reads the stale record
            ('C10.R22', _shared_rule('plumbing', 'writers_truncate')),
            # mutation sweep: the length cursor started at index 1
            ('C10.R23', _shared_rule('c10', 'r23_cursor_starts')),
            # C15-eb: a second writer of the OMEN memo
            ('C10.R24', _shared_rule('plumbing', 'who_may')),
            # C10-ea / C10-eb: max_level and length_ip exchanged; the emitted string NFC-normalised
            ('C10.R25', _shared_rule('c10', 'r25_cracker_plumbing')),
            # C10-fb: `self.tmto_lookup = [{}] * (max_length + 1)` - one memo dict for every length
            ('C10.R26', r26_memo_tables_distinct),
            # C11-fb: `cur_index = 0` hoisted out of `while cur_level >= 0` in _fill_out_parse_tree
            ('C10.R27', _shared_rule('c10', 'r27_inner_counters'))]


META = {
    'explanation': 'NARROW CLAIM. Decides only the cache-independence sentence and two necessary conditions of exactness: the '
                   'optimizer copies on store and on lookup at a depth >= the depth at which GuessStructure mutates parse trees '
                   'in place (aliasing analysis); every cache access is keyed by exactly the (ip, length, target_level) triple '
                   'the function received and the remaining inputs are per-structure constants; the four GuessStructure '
                   'constructions pass exactly target_level - length level - ip level (linear normal form) and agree otherwise.',
    'trusted_base': ['python ast', 'linear normal form of the budget expression'],
    'assumptions': [],
    'not_decided': 'EXACTNESS OF THE ENUMERATION (set equality over an exponential space; the backtracking in next_guess has no '
                   'static specification short of re-implementing it) - explicitly not claimed',
    'technique': 'aliasing/copy-depth rule + memo-key completeness rule + sibling-construction comparison in the index domain',
}

META['explanation'] += ' ' + 'Further necessary conditions of exactness: the OMEN model is read-only for the generator; _fill_out_parse_tree gives up only when no transition fits (a budget is never refused by size for length > 1); every emitted string is built from the current parse tree and construction-time attributes; both level cursors visit cur..min(max_level, budget) inclusive; exact last transition; existing candidates are always taken.'

META['explanation'] += ' ' + 'Round 13: one memo table per length (no container repeated or chained into several slots); the counter of the transition scan is re-initialised on every pass of the level fall-back.'
META['technique'] = META.get('technique', '') + ' + container-aliasing rule (one memo table per length) + loop-counter lifetime rule'
