"""C11 - trainer, scorer and guesser agree on every string's OMEN level (DESIGN section 4, C11)."""
import ast
import copy as _copy

from ..core import (TU, U, walk_local, calls_in, call_name, const, NOCONST, params, stores_in, single_def, expand,
                    walk_stmts, arg_for, kwarg, path_conditions, enclosing_stmt_chain, dotted, param_default)
from ..lin import lin, Lin
from . import c07, c08
from .common import interval_guard

FOL = 'lib_trainer/omen/evaluate_password.py::find_omen_level'
SCP = 'lib_scorer/omen_scorer.py::OmenScorer.parse'
SCI = 'lib_scorer/omen_scorer.py::OmenScorer.__init__'
ALP = 'lib_trainer/omen/alphabet_lookup.py::AlphabetLookup.'
LL = 'lib_guesser/omen/input_file_io.py::_load_length'
OFO = 'lib_trainer/omen/omen_file_output.py::save_omen_rules_to_disk'
KS = 'lib_trainer/omen/evaluate_password.py::calc_omen_keyspace'


def skeleton(fn, amap):
    """Feature dictionary of a level formula after renaming through `amap` (text substitutions)."""
    def norm(node):
        t = U(node)
        for a, b in amap:
            t = t.replace(a, b)
        return t
    feats = {}
    body = [s for s in fn.body if not (isinstance(s, ast.Expr) and isinstance(s.value, ast.Constant))]
    # length guard
    guards = [s for s in body if isinstance(s, ast.If) and s.body and isinstance(s.body[-1], ast.Return)
              and const(s.body[-1].value) == -1]
    feats['guards'] = sorted(norm(g.test) for g in guards)
    tries = [s for s in body if isinstance(s, ast.Try)]
    if len(tries) != 1:
        feats['error'] = 'no single try block'
        return feats
    t = tries[0]
    feats['handlers'] = sorted('%s -> %s' % (U(h.type), norm(h.body[-1])) for h in t.handlers)
    loops = [s for s in t.body if isinstance(s, ast.While)]
    assigns = [s for s in t.body if isinstance(s, ast.Assign)]
    feats['straight'] = [norm(s) for s in assigns]
    if len(loops) == 1:
        lp = loops[0]
        feats['loop_cond'] = norm(lp.test)
        feats['loop_body'] = [norm(s) for s in lp.body]
    rets = [s for s in t.body if isinstance(s, ast.Return)]
    feats['returns'] = [norm(r.value) for r in rets]
    return feats


def _lsub(l, var, val):
    """Substitute Lin `val` for atom `var` in Lin `l`."""
    c = l.t.get(var, 0)
    rest = Lin({k: v for k, v in l.t.items() if k != var}, l.c)
    return rest + val.scale(c)


def level_formula(fn, side):
    """Semantic normal form of a level formula (trainer find_omen_level / scorer OmenScorer.parse):

        level = LN(len) + IP(pw[ip_lo:ip_hi]) + sum over v = v0..v1 of CP(pw[a(v):b(v)])

    returns {'guards', 'handlers', 'ln', 'ip': (lo, hi), 'first_window', 'last_window', 'stride', 'width', 'cp', 'returns'}
    with all positions as linear forms over NG (n-gram size) and LEN (string length); 'error' when something is not understood.
    Accepts the while form (v = e0; while v <= X: ...; v += 1) and the for form (for v in range(..)), windows written directly or
    through a temporary."""
    feats = {}
    ps = params(fn)
    pw = 'password'
    owner = ps[0]
    alias = {'%s.ngram' % owner: 'NG', 'ngram': 'NG', 'self.ngram': 'NG', 'pw_len': 'LEN', 'pass_len': 'LEN', 'len(%s)' % pw: 'LEN'}

    def aa(key, node):
        return alias.get(key, key)

    def norm(node):
        t = U(node)
        for k in sorted(alias, key=len, reverse=True):
            t = t.replace(k, alias[k])
        t = t.replace('%s.min_length' % owner, 'MINLEN').replace('%s.max_length' % owner, 'MAXLEN').replace('self.max_len', 'MAXLEN')
        return t
    body = [s_ for s_ in fn.body if not (isinstance(s_, ast.Expr) and isinstance(s_.value, ast.Constant))]
    guards = [s_ for s_ in body if isinstance(s_, ast.If) and s_.body and isinstance(s_.body[-1], ast.Return) and const(s_.body[-1].value) == -1]
    feats['guards'] = sorted(norm(g.test) for g in guards)
    # the guard in the ordering domain: whatever its spelling, does it reject exactly the lengths outside [LO, MAXLEN]?
    try:
        gtests = [ast.parse(g_, mode='eval').body for g_ in feats['guards']]
    except SyntaxError:
        gtests = []
    for lo_ in ('NG', 'MINLEN'):
        if gtests and any(lo_ in g_ for g_ in feats['guards']) and interval_guard(gtests, 'LEN', lo_, 'MAXLEN') == 'ok':
            feats['guards'] = ['LEN < %s or LEN > MAXLEN' % lo_]
    tries = [s_ for s_ in body if isinstance(s_, ast.Try)]
    if len(tries) != 1:
        feats['error'] = 'no single try block'
        return feats
    t = tries[0]
    feats['handlers'] = sorted('%s -> %s' % (U(h.type), norm(h.body[-1])) for h in t.handlers)
    tb = t.body
    rets = [s_ for s_ in tb if isinstance(s_, ast.Return)]
    if len(rets) != 1 or not (isinstance(rets[0].value, ast.BinOp) and isinstance(rets[0].value.op, ast.Add)
                              and isinstance(rets[0].value.left, ast.Name) and isinstance(rets[0].value.right, ast.Name)):
        feats['error'] = 'return is not the sum of two accumulators'
        return feats
    feats['returns'] = 'sum of two accumulators'
    n1, n2 = rets[0].value.left.id, rets[0].value.right.id
    straight = {}
    order = []
    for s_ in tb:
        if isinstance(s_, ast.Assign) and len(s_.targets) == 1 and isinstance(s_.targets[0], ast.Name):
            straight.setdefault(s_.targets[0].id, []).append(s_.value)
            order.append(s_.targets[0].id)
    loops = [s_ for s_ in tb if isinstance(s_, (ast.While, ast.For))]
    if len(loops) != 1:
        feats['error'] = '%d loops in the formula' % len(loops)
        return feats
    lp = loops[0]
    accs = [s_ for s_ in lp.body if isinstance(s_, ast.AugAssign) and isinstance(s_.op, ast.Add) and isinstance(s_.target, ast.Name)
            and s_.target.id in (n1, n2)]
    if len(accs) != 1:
        feats['error'] = 'no single accumulation in the loop'
        return feats
    chain = accs[0].target.id
    lnv = n2 if chain == n1 else n1
    if len(straight.get(lnv, [])) != 1 or len(straight.get(chain, [])) != 1:
        feats['error'] = 'accumulators are not initialised exactly once'
        return feats
    feats['ln'] = norm(straight[lnv][0])

    def resolve(e, scope_assigns):
        # inline a temporary bound once in the same statement list
        if isinstance(e, ast.Name) and len(scope_assigns.get(e.id, [])) == 1:
            return scope_assigns[e.id][0]
        return e

    def window_of(e, scope_assigns):
        """(lo, hi) of the password slice inside e, and e with the slice replaced by W."""
        import copy as _cp
        e = _cp.deepcopy(e)
        # split spelling of one window: pw[a:c] as prefix and pw[c] as last letter  ==  W[:-1] and W[-1] with W = pw[a:c+1]
        sl_ = [n for n in ast.walk(e) if isinstance(n, ast.Subscript) and U(n.value) == pw and isinstance(n.slice, ast.Slice)]
        ix_ = [n for n in ast.walk(e) if isinstance(n, ast.Subscript) and U(n.value) == pw and not isinstance(n.slice, ast.Slice)]
        if len(sl_) == 1 and len(ix_) == 1 and sl_[0].slice.upper is not None and sl_[0].slice.step is None:
            c_ = lin(sl_[0].slice.upper, None, aa)
            d_ = lin(ix_[0].slice, None, aa)
            if c_ is not None and d_ is not None and c_ == d_:
                whole = ast.Subscript(value=ast.Name(id=pw, ctx=ast.Load()),
                                      slice=ast.Slice(lower=sl_[0].slice.lower,
                                                      upper=ast.BinOp(left=sl_[0].slice.upper, op=ast.Add(), right=ast.Constant(value=1)), step=None),
                                      ctx=ast.Load())

                class RS(ast.NodeTransformer):
                    def visit_Subscript(self, n):
                        if n is sl_[0]:
                            return ast.Subscript(value=whole, slice=ast.Slice(lower=None, upper=ast.UnaryOp(op=ast.USub(), operand=ast.Constant(value=1)), step=None), ctx=ast.Load())
                        if n is ix_[0]:
                            return ast.Subscript(value=whole, slice=ast.UnaryOp(op=ast.USub(), operand=ast.Constant(value=1)), ctx=ast.Load())
                        self.generic_visit(n)
                        return n
                e = RS().visit(e)
                ast.fix_missing_locations(e)
        found = []

        class R(ast.NodeTransformer):
            def visit_Name(self, n):
                r = resolve(n, scope_assigns)
                if r is not n and isinstance(r, ast.Subscript) and isinstance(r.slice, ast.Slice) and U(r.value) == pw:
                    found.append(r)
                    return ast.Name(id='W', ctx=ast.Load())
                return n

            def visit_Subscript(self, n):
                if isinstance(n.slice, ast.Slice) and U(n.value) == pw:
                    found.append(n)
                    return ast.Name(id='W', ctx=ast.Load())
                self.generic_visit(n)
                return n
        e2 = R().visit(e)
        if not found:
            # split spelling of one window: pw[a:c] used as prefix and pw[c] as last letter  ==  W[:-1], W[-1] with W = pw[a:c+1]
            e = _cp.deepcopy(e)
            sl_, ix_ = [], []
            for n in ast.walk(e):
                if isinstance(n, ast.Subscript) and U(n.value) == pw:
                    (sl_ if isinstance(n.slice, ast.Slice) else ix_).append(n)
            return None, None, None
        if any(U(f) != U(found[0]) for f in found):
            return None, None, None
        sl = found[0].slice
        lo = lin(sl.lower, None, aa) if sl.lower is not None else Lin({}, 0)
        hi = lin(sl.upper, None, aa) if sl.upper is not None else Lin({'LEN': 1}, 0)
        return lo, hi, U(e2)
    lo, hi, shape = window_of(straight[chain][0], straight)
    if lo is None:
        feats['error'] = 'initial n-gram lookup is not a lookup of a slice of the password'
        return feats
    feats['ip'] = (repr(lo), repr(hi))
    feats['ip_lookup'] = norm(ast.parse(shape, mode='eval').body)
    # loop variable domain
    if isinstance(lp, ast.While):
        tcmp = lp.test
        if not (isinstance(tcmp, ast.Compare) and len(tcmp.ops) == 1 and isinstance(tcmp.left, ast.Name) and isinstance(tcmp.ops[0], (ast.LtE, ast.Lt))):
            feats['error'] = 'loop condition ' + U(tcmp)
            return feats
        v = tcmp.left.id
        v1 = lin(tcmp.comparators[0], None, aa)
        if isinstance(tcmp.ops[0], ast.Lt):
            v1 = v1 + Lin({}, -1)
        if len(straight.get(v, [])) != 1:
            feats['error'] = 'loop variable not initialised once'
            return feats
        v0 = lin(straight[v][0], None, aa)
        steps = [s_ for s_ in lp.body if isinstance(s_, ast.AugAssign) and U(s_.target) == v]
        if len(steps) != 1 or not (isinstance(steps[0].op, ast.Add) and const(steps[0].value) == 1) or steps[0] is not lp.body[-1] \
                or any(isinstance(x, (ast.Continue, ast.Break)) for s_ in lp.body for x in ast.walk(s_)):
            feats['error'] = 'loop step'
            return feats
    else:
        if not (isinstance(lp.target, ast.Name) and isinstance(lp.iter, ast.Call) and call_name(lp.iter) == 'range' and 1 <= len(lp.iter.args) <= 2) \
                or any(isinstance(x, (ast.Continue, ast.Break)) for s_ in lp.body for x in ast.walk(s_)):
            feats['error'] = 'loop header ' + U(lp.iter)
            return feats
        v = lp.target.id
        if len(lp.iter.args) == 1:
            v0, v1 = Lin({}, 0), lin(lp.iter.args[0], None, aa) + Lin({}, -1)
        else:
            v0, v1 = lin(lp.iter.args[0], None, aa), lin(lp.iter.args[1], None, aa) + Lin({}, -1)
    body_assigns = {}
    for s_ in lp.body:
        if isinstance(s_, ast.Assign) and len(s_.targets) == 1 and isinstance(s_.targets[0], ast.Name):
            body_assigns.setdefault(s_.targets[0].id, []).append(s_.value)
    a_, b_, cshape = window_of(accs[0].value, body_assigns)
    if a_ is None or v0 is None or v1 is None:
        feats['error'] = 'transition lookup is not a lookup of a slice of the password'
        return feats
    feats['stride'] = (a_.t.get(v, 0), b_.t.get(v, 0))
    feats['first_window'] = (repr(_lsub(a_, v, v0)), repr(_lsub(b_, v, v0)))
    feats['last_window'] = (repr(_lsub(a_, v, v1)), repr(_lsub(b_, v, v1)))
    feats['width'] = repr(b_ - a_)
    feats['cp_lookup'] = norm(ast.parse(cshape, mode='eval').body)
    return feats


def r1_formula_skeleton(ctx, rule):
    tf = ctx.fn(FOL)
    sf = ctx.fn(SCP)
    tp = params(tf)
    a = level_formula(tf, 'trainer')
    b = level_formula(sf, 'scorer')
    facts = {'trainer': a, 'scorer': b}
    if 'error' in a or 'error' in b:
        ctx.unk(rule, FOL if 'error' in a else SCP, 'level formula not understood: %s' % (a.get('error') or b.get('error')), facts)
        min_length_resolution(ctx, rule)
        return
    # side-specific spellings of the three table lookups
    want_a = {'ln': '%s.ln_lookup[LEN - 1][0]' % tp[0], 'ip_lookup': "%s.grammar[W]['ip_level']" % tp[0],
              'cp_lookup': "%s.grammar[W[:-1]]['next_letter'][W[-1]][0]" % tp[0]}
    want_b = {'ln': 'self.ln[LEN]', 'ip_lookup': 'self.ip[W]', 'cp_lookup': 'self.cp[W]'}
    diffs = []
    for side, f, want, q in (('trainer', a, want_a, FOL), ('scorer', b, want_b, SCP)):
        for k, w in want.items():
            if f.get(k) != w:
                diffs.append((q, '%s %s = %s (expected %s)' % (side, k, f.get(k), w)))
    # lower guard: MINLEN (= max(default 1, ngram) = ngram) on the trainer side, NG on the scorer side
    ag = [g.replace('MINLEN', 'NG') for g in a.get('guards', [])]
    if ag != b.get('guards'):
        diffs.append((SCP, 'length guard: trainer %s / scorer %s' % (ag, b.get('guards'))))
    for key in ('handlers', 'ip', 'first_window', 'last_window', 'stride', 'width'):
        if a.get(key) != b.get(key):
            diffs.append((SCP, '%s differs: trainer %s / scorer %s' % (key, a.get(key), b.get(key))))
    shape = {'ip': ('0', 'NG + -1'), 'first_window': ('0', 'NG'), 'last_window': ('LEN + -1*NG', 'LEN'), 'stride': (1, 1), 'width': 'NG'}
    for key, w in shape.items():
        got = b.get(key)
        if key == 'last_window' and got is not None:
            ok_lw = got[1] == 'LEN' and got[0] in ('LEN + -1*NG', '-1*NG + LEN')
            if not ok_lw:
                diffs.append((SCP, 'last transition window %s (expected [LEN-NG : LEN])' % (got,)))
        elif key == 'ip' and got is not None:
            if got[0] != '0' or got[1] not in ('NG + -1', '-1 + NG'):
                diffs.append((SCP, 'initial n-gram window %s (expected [0 : NG-1])' % (got,)))
        elif got != w:
            diffs.append((SCP, '%s = %s (expected %s)' % (key, got, w)))
    if diffs:
        for q, d in diffs:
            ctx.bad(rule, q, d, 'trainer and scorer must compute the level with the same formula: LN(len) + IP(s[0:n-1]) + sum of '
                    'CP over every n-gram window [e-n:e] for e = n .. len, -1 on the same conditions', facts, sf if q == SCP else tf)
    else:
        ctx.ok(rule, SCP, 'level = LN(len) + IP(s[0:n-1]) + sum CP(s[e-n:e]) for e = n..len on both sides; KeyError -> -1', facts)
    min_length_resolution(ctx, rule)


def _mini_eval(node, env):
    if isinstance(node, ast.Constant) and isinstance(node.value, int):
        return node.value
    t = U(node)
    if t in env:
        return env[t]
    if isinstance(node, ast.Call) and call_name(node) in ('max', 'min') and not node.keywords:
        vs = [_mini_eval(a, env) for a in node.args]
        if None in vs or not vs:
            return None
        return max(vs) if call_name(node) == 'max' else min(vs)
    if isinstance(node, ast.Compare) and len(node.ops) == 1:
        a, b = _mini_eval(node.left, env), _mini_eval(node.comparators[0], env)
        if a is None or b is None:
            return None
        op = node.ops[0]
        return {ast.Lt: a < b, ast.LtE: a <= b, ast.Gt: a > b, ast.GtE: a >= b, ast.Eq: a == b, ast.NotEq: a != b}.get(type(op))
    if isinstance(node, ast.IfExp):
        c = _mini_eval(node.test, env)
        if c is None:
            return None
        return _mini_eval(node.body if c else node.orelse, env)
    return None


def _mini_run(body, env):
    """Interpret the assignments/ifs that mention the tracked names; False if something cannot be interpreted."""
    for st in body:
        if isinstance(st, ast.Assign) and len(st.targets) == 1 and U(st.targets[0]) in ('self.min_length', 'min_length'):
            v = _mini_eval(st.value, env)
            if v is None:
                return False
            env[U(st.targets[0])] = v
        elif isinstance(st, ast.If) and 'min_length' in U(st.test):
            c = _mini_eval(st.test, env)
            if c is None or not _mini_run(st.body if c else st.orelse, env):
                return False
        elif isinstance(st, (ast.For, ast.While, ast.Try, ast.With)) and 'min_length' in U(st):
            return False
    return True


def min_length_resolution(ctx, rule):
    """AlphabetLookup accepts exactly the lengths >= ngram: its min_length resolves to max(min_length, ngram) in each of
    the three orderings of the two numbers (interpreted abstractly on one representative per ordering), the default is 1
    and run_trainer does not override it."""
    iq = ALP + '__init__'
    ifn = ctx.fn(iq)
    d = param_default(ifn, 'min_length')
    cons = [c for q, f in ctx.repo.all_funcs() for c in calls_in(f) if call_name(c) == 'AlphabetLookup'
            and not q.startswith('lib_trainer/unit_tests')]
    passes_min = any(arg_for(c, ifn, 'min_length') is not None for c in cons)
    table = {}
    good = True
    for name, (m, g) in (('min_length < ngram', (1, 4)), ('min_length == ngram', (4, 4)), ('min_length > ngram', (6, 4))):
        env = {'min_length': m, 'ngram': g}
        okrun = _mini_run(ifn.body, env)
        table[name] = env.get('self.min_length') if okrun else None
        if not okrun or env.get('self.min_length') != max(m, g):
            good = False
    facts = {'resolution (min_length, ngram) = (1,4) (4,4) (6,4)': table, 'default': U(d) if d is not None else None,
             'construction sites': len(cons)}
    if good and const(d) == 1 and not passes_min and cons:
        ctx.ok(rule, iq, 'min_length = max(min_length, ngram) in all three orderings; default 1, not overridden: = ngram', facts)
    else:
        ctx.bad(rule, iq, 'min_length resolution', 'the trainer must accept exactly the lengths >= ngram: a password shorter than '
                'ngram has no n-gram window, the guesser can never emit it, yet it would be given a level and counted in the '
                'per-level statistics', facts, ifn)


def r2_ln_offset(ctx, rule):
    ok = True
    # writer: ln_lookup[i] on line i+1
    wf = ctx.fn(OFO)
    wtxt = TU(wf)
    # one line per element of ln_lookup, in list order, holding the element's level (its first component): line k <-> length k.
    # Whatever counter the loop keeps for its progress message is irrelevant.
    w_ok = False
    tp_ = params(wf)[0]
    for lp_ in [n for n in walk_local(wf) if isinstance(n, ast.For)]:
        it_ = lp_.iter
        elem = None
        if U(it_) == '%s.ln_lookup' % tp_:
            elem = lp_.target
        elif isinstance(it_, ast.Call) and call_name(it_) == 'enumerate' and it_.args and U(it_.args[0]) == '%s.ln_lookup' % tp_ \
                and isinstance(lp_.target, ast.Tuple) and len(lp_.target.elts) == 2:
            elem = lp_.target.elts[1]
        if elem is None:
            continue
        if isinstance(elem, ast.Name):
            level_txt = {'%s[0]' % elem.id}
        elif isinstance(elem, ast.Tuple) and elem.elts and isinstance(elem.elts[0], ast.Name):
            level_txt = {elem.elts[0].id}
        else:
            continue
        writes = [c for c in calls_in(lp_) if isinstance(c.func, ast.Attribute) and c.func.attr == 'write']
        plain = not any(isinstance(x, (ast.If, ast.Continue, ast.Break, ast.Try)) for b in lp_.body for x in ast.walk(b))
        if len(writes) == 1 and plain and len(writes[0].args) == 1 and U(writes[0].args[0]) in {"str(%s) + '\\n'" % t for t in level_txt} | \
                {"f'{%s}\\n'" % t for t in level_txt}:
            w_ok = True
    # trainer index len-1 (checked in R1 through the map), scorer pre-seeds one element and indexes len
    sf = ctx.fn(SCI)
    pre = [s for s in walk_stmts(sf.body) if isinstance(s, ast.Assign) and U(s.targets[0]) == 'self.ln' and isinstance(s.value, ast.List)]
    s_ok = len(pre) == 1 and len(pre[0].value.elts) == 1 and 'self.max_len = len(self.ln) - 1' in TU(sf)
    lo = ctx.fn('lib_scorer/omen_scorer.py::OmenScorer._load_omen')
    s_ok = s_ok and 'self.ln.append(level)' in TU(lo)
    # guesser: cur_length starts at 1 and is incremented once per line on every path
    gf = ctx.fn(LL)
    gtxt = TU(gf)
    loops = [n for n in walk_local(gf) if isinstance(n, ast.For)]
    g_ok = 'cur_length = 1' in gtxt
    inc_ok = False
    for l in loops:
        if 'cur_length' in U(l) and l.body and U(l.body[-1]) == 'cur_length += 1' \
                and not any(isinstance(s, ast.Continue) for s in walk_stmts(l.body)):
            inc_ok = True
    facts = {'writer_line_i+1_holds_length_i+1': w_ok, 'scorer_preseed_and_index_len': s_ok, 'guesser_counts_from_1': g_ok and inc_ok}
    if w_ok and s_ok and g_ok and inc_ok:
        ctx.ok(rule, LL, 'LN.level line k holds the level of length k for writer, trainer (index len-1), scorer (pre-seeded, index len) '
               'and guesser (cur_length from 1, +1 per line)', facts)
    else:
        ctx.bad(rule, LL, 'LN line/length offset %s' % facts, 'all tools must map line k of LN.level to password length k', facts, gf)


def r3_cp_count(ctx, rule):
    gf = ctx.fn(LL)
    app = [c for c in calls_in(gf) if isinstance(c.func, ast.Attribute) and c.func.attr == 'append']
    ok = True
    facts = {}
    if len(app) != 1:
        ctx.unk(rule, LL, 'append of the transition count not found')
        return
    l = lin(app[0].args[0])
    want = Lin({'cur_length': 1, 'min_size': -1}, 1)
    facts['guesser_count'] = repr(l)
    if l != want:
        ok = False
        ctx.bad(rule, LL, 'number of transitions stored as %r' % l, 'a string of length L has L - ngram + 1 transitions after the '
                'initial n-gram (of length ngram-1)', facts, app[0])
    # min_size is the ngram
    lr = ctx.fn('lib_guesser/omen/input_file_io.py::load_rules')
    call = [c for c in calls_in(lr) if call_name(c) == '_load_length']
    a = arg_for(call[0], gf, 'min_size', bound=False) if call else None
    if a is None or U(a) != "grammar['ngram']":
        ok = False
        ctx.bad(rule, LL, 'min_size = %s' % (U(a) if a is not None else None), 'the minimum length is the n-gram size', facts, None)
    kf = ctx.fn(KS)
    kc = [c for c in calls_in(kf) if call_name(c) == '_rec_calc_keyspace']
    if kc:
        kl = lin(kc[0].args[2])
        facts['keyspace_count'] = repr(kl)
        if kl != Lin({'length': 1, 'omen_trainer.ngram': -1}, 1):
            ok = False
            ctx.bad(rule, KS, 'keyspace transition count %r' % kl, 'length - ngram + 1 transitions', facts, kc[0])
    if ok:
        ctx.ok(rule, LL, 'transition count = length - ngram + 1 in the guesser table and in the keyspace count (and the trainer loop '
               'runs end = ngram..len)', facts)


def r5_length_domain(ctx, rule):
    """The sites that decide whether a string has a level accept the same lengths: ngram <= len <= number of LN lines."""
    ok = True
    facts = {}
    # training counts
    pf = ctx.fn(ALP + 'parse')
    def returning_guards(f):
        return [s.test for s in f.body if isinstance(s, ast.If) and s.body and isinstance(s.body[-1], ast.Return) and not s.orelse]

    def length_guard(f, q, what, var, lo, hi, why):
        """The returning guards of f that mention the length, taken together, must reject exactly the lengths outside [lo, hi]."""
        gs = [t for t in returning_guards(f) if any(v in U(t) for v in ((var,) if isinstance(var, str) else var))]
        facts[what] = [U(t) for t in gs]
        v = interval_guard(gs, var, lo, hi) if gs else 'wrong'
        if v == 'unknown':
            ctx.unk(rule, q, '%s length guard %s is not understood' % (what, facts[what]), facts)
            return True
        if v == 'wrong':
            ctx.bad(rule, q, '%s length guard %s' % (what, facts[what]), why, facts, f)
            return False
        return True
    ok &= length_guard(pf, ALP + 'parse', 'training', ('pw_len', 'len(password)'), 'self.min_length', ('self.max_length', 'len(self.ln_lookup)'),
                       'lengths ngram..max_length are trained on')
    ff = ctx.fn(FOL)
    tp = params(ff)[0]
    # the length table has exactly max_length entries (checked below), so its len() is another spelling of max_length
    ok &= length_guard(ff, FOL, 'third-pass', ('pw_len', 'len(password)'), '%s.min_length' % tp, ('%s.max_length' % tp, 'len(%s.ln_lookup)' % tp),
                       'the third pass must accept exactly the lengths the counts were trained on (ngram <= len <= max_length, '
                       'both inclusive)')
    sf = ctx.fn(SCP)
    ok &= length_guard(sf, SCP, 'scorer', ('pass_len', 'len(password)'), 'self.ngram', 'self.max_len', 'ngram <= len <= number of LN lines')
    gf = ctx.fn(LL)
    g4 = [U(n.test) for n in walk_local(gf) if isinstance(n, ast.If) and 'cur_length' in U(n.test)]
    facts['guesser'] = g4
    if g4 != ['cur_length >= min_size']:
        ok = False
        ctx.bad(rule, LL, 'guesser length guard %s' % g4, 'the guesser generates every length >= ngram listed in LN.level', facts, gf)
    # upper bounds: ln_lookup has max_length entries; LN.level has one line per entry
    it = U(ctx.fn(ALP + '__init__'))
    if 'self.ln_lookup = [0] * max_length' not in it:
        ok = False
        ctx.bad(rule, ALP + '__init__', 'ln_lookup size', 'one length level per length 1..max_length', facts, None)
    if ok:
        ctx.ok(rule, FOL, 'training, third pass, scorer and guesser accept ngram <= len <= #LN lines', facts)


_OMEN_READERS = ('lib_guesser/omen/input_file_io.py::_load_ngrams', 'lib_guesser/omen/input_file_io.py::_load_alphabet',
                 'lib_scorer/omen_scorer.py::OmenScorer._load_omen')


OMEN_LOADERS = ('lib_scorer/omen_scorer.py::OmenScorer._load_omen', 'lib_guesser/omen/input_file_io.py::_load_ngrams')


def _is_table_store(st):
    """x[...] = v / x[...].append(v) / x.append(v) where x is rooted at self.<attr> or grammar."""
    def rooted(n):
        while isinstance(n, (ast.Subscript, ast.Attribute)):
            if isinstance(n, ast.Attribute) and isinstance(n.value, ast.Name) and n.value.id == 'self':
                return n.attr in ('ip', 'cp', 'ep', 'ln')
            n = n.value
        return isinstance(n, ast.Name) and n.id == 'grammar'
    if isinstance(st, ast.Assign) and isinstance(st.targets[0], ast.Subscript) and rooted(st.targets[0]):
        return True
    if isinstance(st, ast.Expr) and isinstance(st.value, ast.Call) and isinstance(st.value.func, ast.Attribute) \
            and st.value.func.attr in ('append', 'add') and rooted(st.value.func.value):
        return True
    return False


def r10_omen_loaders_complete(ctx, rule):
    """The scorer's and the guesser's IP/CP/LN loaders keep every record of the level files: inside the line loop a
    table store is conditional only on the table being dispatched on (name == 'ip') or on a nested dict needing
    initialisation; nothing is skipped by its level or n-gram (seed C11-f pruned entries above the scorer's cut-off, so a
    string containing one scored -1 while trainer and guesser give its real level)."""
    n_loops = n_stores = 0
    bad = False
    for q in OMEN_LOADERS:
        fn = ctx.fn(q)
        mod = ctx.repo.modules[q.partition('::')[0]]
        ctx.stats['functions'].add(q)
        for lp in [n for n in walk_local(fn) if isinstance(n, ast.For) and isinstance(n.iter, ast.Name) and n.iter.id == 'file']:
            n_loops += 1
            for st in walk_stmts(lp.body):
                if isinstance(st, (ast.Continue, ast.Break)):
                    bad = True
                    ctx.bad(rule, q, 'OMEN loader leaves the line loop: ' + U(st), 'every record of a level file belongs to '
                            'the model; a skipped record changes the level of every string that contains the n-gram', None, st)
                if not _is_table_store(st):
                    continue
                n_stores += 1
                for t, pol in path_conditions(mod, st, stop=lp):
                    txt = TU(t)
                    ok = False
                    if isinstance(t, ast.Compare) and len(t.ops) == 1:
                        if isinstance(t.ops[0], ast.Eq) and U(t.left) == 'name' and isinstance(const(t.comparators[0]), str):
                            ok = True
                        if isinstance(t.ops[0], ast.NotIn) and pol:
                            ok = True       # first sighting of a key: nested container initialised
                    owner = mod.parents.get(id(t))
                    if isinstance(owner, ast.If) and owner.test is t and not pol and owner.body and \
                            isinstance(owner.body[-1], ast.Raise):
                        ok = True           # sanity check that aborts the whole load
                    if not ok:
                        bad = True
                        ctx.bad(rule, q, 'record stored only if %s%s' % ('' if pol else 'not ', txt),
                                'the three parties compute a level from the same tables only if each loader keeps every record '
                                'of IP.level / CP.level / LN.level; a record dropped by its level makes the string unscorable '
                                '(-1) here while the trainer and the other reader still give its level', None, st)
    if ctx.floor(rule, OMEN_LOADERS[0], n_loops, 4, 'line loops in the OMEN loaders') and \
            ctx.floor(rule, OMEN_LOADERS[0], n_stores, 4, 'table stores in the OMEN loaders') and not bad:
        ctx.ok(rule, OMEN_LOADERS[0], 'all %d table stores in %d loader loops are unconditional up to dispatch/initialisation'
               % (n_stores, n_loops))


def _passes(ctx, rule):
    # the third pass must level the very passwords the first pass trained the model on (seed C11-e)
    from . import c19
    return c19.r1_three_passes(ctx, rule)


def _cursor(ctx, rule):
    # the guesser reaches the top level bucket of the length / initial n-gram tables (seed C11-g: trainer and scorer give such
    # strings level 10 + rest, the generator never emitted them)
    from . import c10
    return c10.r9_level_cursor_domain(ctx, rule)


def _zero_budget(ctx, rule):
    # the generator emits a string at the level the trainer / scorer give it only if it searches every budget, 0 included (seed C11-i)
    from . import c10
    return c10.r14_zero_budget_is_valid(ctx, rule)


def _no_shared_defaults(ctx, rule):
    # the generator emits a string at the level the trainer / scorer of THIS ruleset give it: no cache shared across rulesets
    from . import c10
    return c10.r16_no_shared_defaults(ctx, rule)


def _window_slices(ctx, rule):
    # seed C11-d: prefix[1 - ip_length:] is prefix[0:] - the whole prefix - for 2-gram models
    from . import c10
    return c10.r13_window_slices(ctx, rule)


def _popped_level(ctx, rule):
    # seed C11-k
    from . import c10
    return c10.r18_popped_level_read_once(ctx, rule)


def r20_scorer_table_fields(ctx, rule):
    """The scorer reads IP.level / CP.level as `level<TAB>n-gram`: every `self.ip[K] = V` / `self.cp[K] = V` of OmenScorer._load_omen
    stores the level (the int of field 0) under the n-gram (field 1), rejects only NEGATIVE levels, and takes the n-gram size from
    the length of field 1.  (Mutation sweep: `self.ip[line[0]] = level`, `if level <= 0: raise` - level 0 is the most common level -
    were silent.)"""
    q = 'lib_scorer/omen_scorer.py::OmenScorer._load_omen'
    fn = ctx.fn(q)
    mod = ctx.repo.modules['lib_scorer/omen_scorer.py']
    ctx.stats['functions'].add(q)
    n = 0
    ok = True
    for lp in [x for x in walk_local(fn) if isinstance(x, ast.For) and isinstance(x.target, ast.Name)]:
        rec = None
        for st in lp.body:
            if isinstance(st, ast.Assign) and len(st.targets) == 1 and isinstance(st.targets[0], ast.Name) and 'split(' in U(st.value):
                rec = st.targets[0].id
        lvl = [st.targets[0].id for st in lp.body if isinstance(st, ast.Assign) and len(st.targets) == 1 and isinstance(st.targets[0], ast.Name)
               and isinstance(st.value, ast.Call) and call_name(st.value) == 'int']
        for st in walk_stmts(lp.body):
            if isinstance(st, ast.Assign) and len(st.targets) == 1 and isinstance(st.targets[0], ast.Subscript) \
                    and U(st.targets[0].value) in ('self.ip', 'self.cp'):
                n += 1
                if rec is None or len(lvl) != 1:
                    ok = False
                    ctx.unk(rule, q, 'the record / level variables of the %s loop are not identifiable' % U(st.targets[0].value))
                    continue
                lv_def = [s2.value for s2 in lp.body if isinstance(s2, ast.Assign) and U(s2.targets[0]) == lvl[0]][0]
                if U(st.targets[0].slice) != '%s[1]' % rec or U(st.value) != lvl[0] or U(lv_def.args[0]) != '%s[0]' % rec:
                    ok = False
                    ctx.bad(rule, q, '%s with %s = %s' % (U(st), lvl[0], U(lv_def)), 'the table maps the n-gram (field 1) to its level (int of '
                            'field 0)', None, st, firm=True)
        # level guards: only negative levels are refused
        for g in [x for x in walk_stmts(lp.body) if isinstance(x, ast.If) and x.body and isinstance(x.body[-1], ast.Raise) and lvl
                  and any(isinstance(y, ast.Name) and y.id == lvl[0] for y in ast.walk(x.test))]:
            t = U(g.test).replace(' ', '')
            if t not in ('%s<0' % lvl[0], '0>%s' % lvl[0], '%s<=-1' % lvl[0]):
                ok = False
                if isinstance(g.test, ast.Compare) and len(g.test.ops) == 1:
                    ctx.bad(rule, q, 'a level is refused when ' + U(g.test), 'levels are 0 .. max_level: only a negative level is malformed (level 0 is '
                            'the level of the most common n-grams)', None, g, firm=True)
                else:
                    ctx.unk(rule, q, 'level guard %s is not of a form this rule knows' % U(g.test)[:50])
    # LN.level: one level per line, the WHOLE (stripped) line is the number
    for lp in [x for x in walk_local(fn) if isinstance(x, ast.For) and isinstance(x.target, ast.Name)]:
        apps = [c for c in calls_in(lp) if isinstance(c.func, ast.Attribute) and c.func.attr == 'append' and U(c.func.value) == 'self.ln' and len(c.args) == 1]
        if not apps:
            continue
        n += 1
        lv = U(apps[0].args[0])
        defs = [st.value for st in lp.body if isinstance(st, ast.Assign) and len(st.targets) == 1 and U(st.targets[0]) == lv]
        if len(defs) == 1 and isinstance(defs[0], ast.Call) and call_name(defs[0]) == 'int' and len(defs[0].args) == 1:
            a = defs[0].args[0]
            if isinstance(a, ast.Subscript):
                ok = False
                ctx.bad(rule, q, 'LN level read as int(%s)' % U(a), 'a line of LN.level holds one number and nothing else: a subscript of the line '
                        'takes a single digit of it (level 10 is read as 1)', None, apps[0], firm=True)
        else:
            ok = False
            ctx.unk(rule, q, 'the LN level is not read as int(<line>) in a form this rule knows')
    # the n-gram size: length of the key column, set while the attribute still holds its initial "not set" value
    init = ctx.fn(SCI)
    unset = [U(st.value) for st in walk_stmts(init.body) if isinstance(st, ast.Assign) and len(st.targets) == 1 and U(st.targets[0]) == 'self.ngram']
    sets = [st for st in walk_stmts(fn.body) if isinstance(st, ast.Assign) and len(st.targets) == 1 and U(st.targets[0]) == 'self.ngram']
    for st in sets:
        v = st.value
        if isinstance(v, ast.Call) and call_name(v) == 'len' and len(v.args) == 1:
            lp_ = next((lp for lp in walk_local(fn) if isinstance(lp, ast.For) and any(st is x for x in walk_stmts(lp.body))), None)
            keys = {U(x.targets[0].slice) for x in (walk_stmts(lp_.body) if lp_ else []) if isinstance(x, ast.Assign) and len(x.targets) == 1
                    and isinstance(x.targets[0], ast.Subscript) and U(x.targets[0].value) in ('self.ip', 'self.cp')}
            if keys and U(v.args[0]) not in keys:
                ok = False
                ctx.bad(rule, q, 'n-gram size taken from len(%s), the table key is %s' % (U(v.args[0]), sorted(keys)),
                        'the scorer slides a window of self.ngram characters over the password and looks every window up in the tables: the size '
                        'must be the length of the keys stored there', None, st, firm=True)
            elif not keys:
                ok = False
                ctx.unk(rule, q, 'self.ngram is set outside the loop that fills a table')
        else:
            ok = False
            ctx.unk(rule, q, 'self.ngram is set from %s (not the length of a table key)' % U(v)[:50])
        for t, pol in path_conditions(mod, st):
            if 'self.ngram' in U(t):
                if not (pol and isinstance(t, ast.Compare) and len(t.ops) == 1 and isinstance(t.ops[0], ast.Eq) and len(unset) == 1
                        and {U(t.left), U(t.comparators[0])} == {'self.ngram', unset[0]}):
                    ok = False
                    desc = 'self.ngram is set when %s%s, __init__ leaves it at %s' % ('' if pol else 'not ', U(t), unset)
                    if isinstance(t, ast.Compare) and len(unset) == 1:
                        ctx.bad(rule, q, desc, 'the size is taken from the first key read: the test must recognise the value __init__ stored, '
                                'otherwise the size is never set (or reset on every line)', None, st, firm=True)
                    else:
                        ctx.unk(rule, q, desc)
    if sets:
        n += 1
    if ctx.floor(rule, q, n, 2, 'table stores in the scorer loader') and ok:
        ctx.ok(rule, q, 'IP and CP map field 1 to int(field 0); only negative levels are refused; the n-gram size is the length of a table key')


def _model_unfiltered(ctx, rule):
    # seed C10-o: CP cut down to the prefixes found in IP after loading - the level of a string no longer is what the files say
    from . import c10
    return c10.r19_loaded_model_unfiltered(ctx, rule)


def _memo_key(ctx, rule):
    # seed C11-o: completions cached under the loop level instead of the level asked for
    from . import c10
    return c10.r2_memo_key(ctx, rule)

def _shared_rule(mod, name, **kw):
    def run(ctx, rule):
        import importlib
        return getattr(importlib.import_module('sa.props.' + mod), name)(ctx, rule, **kw)
    return run


def rules(tier):
    return [('C11.R1', r1_formula_skeleton), ('C11.R2', r2_ln_offset), ('C11.R3', r3_cp_count), ('C11.R5', r5_length_domain),
            ('C11.R6', lambda c, r: c07.r5_strip_discipline(c, r, only=_OMEN_READERS, floor=4)),
            ('C11.R7', lambda c, r: c07.r3_record_layout(c, r, scope='omen')),
            ('C11.R8', lambda c, r: c07.r2_encoding_agreement(c, r, file_filter=lambda fid: fid[0] == 'Omen' and fid[-1] in
                                                               ('IP.level', 'CP.level', 'LN.level', 'alphabet.txt'), floor=6)),
            ('C11.R9', _passes), ('C11.R10', r10_omen_loaders_complete), ('C11.R11', _cursor), ('C11.R12', _zero_budget), ('C11.R13', _no_shared_defaults), ('C11.R14', _window_slices), ('C11.R15', _popped_level), ('C11.R16', _memo_key), ('C11.R17', _model_unfiltered),
            # C11-ca: next guess fetched before the quit check - one string per interrupted level is lost
            ('C11.R18', _shared_rule('c15', 'r2_no_generated_unemitted')),
            # C10-ca / C18-ca: OMEN config key read with a fallback
            ('C11.R19', _shared_rule('c10', 'r20_omen_config_keys')),
            # mutation sweep: the scorer's table loader storing under field 0 / refusing level 0
            ('C11.R20', _shared_rule('c11', 'r20_scorer_table_fields')),
            # C11-eb: _find_cp memoised without bottom_level - an exact-level lookup answered from a range lookup
            ('C11.R21', _shared_rule('c10', 'r4_exact_last_transition')),
            # C11-eb: _find_cp memo without bottom_level
            ('C11.R22', _shared_rule('c10', 'r25_cracker_plumbing')),
            # "the per-level password counts the trainer saves": one per password, under its level
            ('C11.R23', _shared_rule('c18', 'r22_level_tally')),
            # C11-fb: `cur_index = 0` hoisted out of `while cur_level >= 0` in _fill_out_parse_tree
            ('C11.R24', _shared_rule('c10', 'r27_inner_counters')),
            # C11-ga: IP.level written without the n-grams that never start a password (level 10): the trainer still scores them
            ('C11.R25', _shared_rule('c18', 'r3_writers_complete'))]


META = {
    'explanation': 'Sibling agreement of the level formula: find_omen_level and OmenScorer.parse reduced to a skeleton (length '
                   'guard, LN index, IP slice, loop init/condition/step, window slice, accumulation, KeyError -> -1) under an '
                   'attribute map and compared; LN line<->length offset in writer, trainer, scorer and guesser; transition '
                   'count length-ngram+1 in guesser table and keyspace; the four length-domain guards accept the same lengths; '
                   'record layout/strip/encoding of IP/CP/LN files (shared with C07).',
    'trusted_base': ['python ast', 'attribute map trainer<->scorer (frozen, one line per attribute)'],
    'assumptions': ['the guesser emits s at exactly level(s) - that is C10 exactness, not claimed'],
    'not_decided': 'the guesser side of "same level" (exactness of the enumeration, C10)',
    'technique': 'sibling-implementation cross-check on normalised skeletons + index-domain offsets',
}

META['explanation'] += ' ' + "Further: min_length resolves to max(min_length, ngram) in every ordering (abstractly interpreted); the third pass reads what the first pass read; the scorer's and guesser's OMEN loaders keep every record."

META['explanation'] += ' ' + 'Round 13: the counter of the transition scan is re-initialised on every pass of the level fall-back loop.'
META['technique'] = META.get('technique', '') + ' + loop-counter lifetime rule for the level fall-back'
META['explanation'] += ' ' + 'Round 14: the IP / CP / EP writers save every entry of the in-memory model the trainer scores with.'
