"""C12 - the guess stream does not depend on thread timing or stdin (DESIGN section 4, C12)."""
import ast

from ..core import (U, walk_local, calls_in, call_name, const, NOCONST, params, stores_in, single_def, expand,
                    walk_stmts, arg_for, kwarg, path_conditions, enclosing_stmt_chain, dotted)
from .common import PG, PGF, CS, CSF, PQ
from . import c08, c09

KEY = CSF + '::keypress'
HS = 'lib_guesser/honeyword_session.py::HoneywordSession.'
TAINT_CALLS = ('is_alive', 'isatty', 'fileno', 'readable', 'closed')


def _tainted_expr(fn, node, stores):
    """Does the expression depend on thread liveness / stdin state?"""
    e = expand(fn, node, stores, depth=4)
    for n in ast.walk(e):
        if isinstance(n, ast.Call) and isinstance(n.func, ast.Attribute) and n.func.attr in ('is_alive', 'isatty'):
            return U(n)
        if isinstance(n, ast.Attribute) and dotted(n) in ('sys.stdin', 'sys.__stdin__'):
            return U(n)
        if isinstance(n, ast.Call) and call_name(n) in ('threading.active_count', 'threading.enumerate', 'select.select'):
            return U(n)
    return None


def r1_no_liveness_exit(ctx, rule):
    n = 0
    for qual in (CS + 'run', PG + 'omen_generate_guesses', PG + '_recursive_guesses', HS + 'run', PQ + 'next'):
        fn = ctx.fn(qual)
        stores = stores_in(fn)
        bad = False
        for node in walk_local(fn):
            if isinstance(node, (ast.If, ast.While)):
                n += 1
                t = _tainted_expr(fn, node.test, stores)
                if t:
                    exits = isinstance(node, ast.While) or any(isinstance(s, (ast.Break, ast.Return, ast.Raise))
                                                               for s in walk_stmts(node.body + node.orelse))
                    if exits:
                        bad = True
                        ctx.bad(rule, qual, 'exit controlled by ' + t,
                                'the generation loop stops (or not) depending on whether the keyboard thread is alive / on '
                                'the state of stdin: with stdin closed, empty or /dev/null the helper thread dies at once '
                                'and the run is cut short at a point that depends on scheduling', None, node)
        for h in (x for x in walk_local(fn) if isinstance(x, ast.ExceptHandler)):
            names = U(h.type) if h.type is not None else ''
            if 'EOFError' in names and any(isinstance(s, (ast.Break, ast.Return)) for s in walk_stmts(h.body)):
                bad = True
                ctx.bad(rule, qual, 'EOFError handler leaves the generation loop', 'stdin at EOF must not stop the run', None, h)
        if not bad:
            ctx.ok(rule, qual, 'no loop exit is control-dependent on Thread.is_alive(), stdin state or an input() error')
    ctx.floor(rule, CSF, n, 6, 'conditions examined in the generation loops')


def r2_quit_flag_writers(ctx, rule):
    closure = ctx.resolver.closure(['pcfg_guesser.py'])
    nst = 0
    for qual, fn in ctx.repo.all_funcs():
        rel = qual.partition('::')[0]
        if rel not in closure:
            continue
        mod = ctx.repo.modules[rel]
        for n in walk_local(fn):
            if isinstance(n, ast.Attribute) and n.attr == 'should_exit' and isinstance(n.ctx, ast.Store):
                nst += 1
                st = c08._stmt_of(mod, n)
                val = st.value if isinstance(st, ast.Assign) else None
                if const(val) is False:
                    if qual.endswith('.__init__'):
                        ctx.ok(rule, qual, 'should_exit initialised to False')
                    else:
                        ctx.bad(rule, qual, 'quit flag cleared outside __init__', 'a pending quit request may be lost', None, st)
                    continue
                if qual != KEY:
                    ctx.bad(rule, qual, 'quit flag written in %s: %s' % (qual.partition('::')[2], U(st)[:60]),
                            "only the keyboard thread may request a quit, and only on the user's explicit 'q'", None, st)
                    continue
                stores = stores_in(fn)
                conds = path_conditions(mod, st)
                okq = False
                why = 'no guard'
                for t, p in conds:
                    if isinstance(t, ast.Compare) and len(t.ops) == 1 and isinstance(t.ops[0], ast.Eq) and p:
                        a, b = t.left, t.comparators[0]
                        if const(a) is not NOCONST:
                            a, b = b, a
                        if isinstance(a, ast.Name) and isinstance(const(b), str):
                            defs = stores.get(a.id, [])
                            srcs = [U(v) if v is not None else '<loop/with/except binding>' for s_, v in defs]
                            if len(defs) == 1 and defs[0][1] is not None and isinstance(defs[0][1], ast.Call) \
                                    and call_name(defs[0][1]) == 'input':
                                okq = True
                            else:
                                why = "the compared value has definitions %s, not only input()" % srcs
                facts = {'conditions': [(U(t), p) for t, p in conds]}
                if okq:
                    ctx.ok(rule, qual, "should_exit = True only under <input()> == 'q'", facts)
                else:
                    ctx.bad(rule, qual, 'quit flag set without an explicit user command (%s)' % why,
                            "the quit flag may only be set when the line the user typed is 'q'; anything else (EOF, an "
                            'error, a timeout) makes the stream depend on the environment', facts, st)
    ctx.floor(rule, CSF, nst, 2, 'stores to should_exit')


def r3_quit_points(ctx, rule):
    """The quit flag is read only at a pre-terminal boundary (session loop) and between two OMEN guesses, each
    followed by a save before the exit."""
    closure = ctx.resolver.closure(['pcfg_guesser.py', 'prince_ling.py'])
    allowed = {CS + 'run', PG + 'omen_generate_guesses'}
    nreads = 0
    for qual, fn in ctx.repo.all_funcs():
        rel = qual.partition('::')[0]
        if rel not in closure:
            continue
        mod = ctx.repo.modules[rel]
        for n in walk_local(fn):
            if isinstance(n, ast.Attribute) and n.attr == 'should_exit' and isinstance(n.ctx, ast.Load):
                nreads += 1
                if qual not in allowed:
                    st = c08._stmt_of(mod, n)
                    ctx.bad(rule, qual, 'quit flag polled in ' + qual.partition('::')[2],
                            'an explicit quit may stop the run only at a pre-terminal boundary or between two Markov '
                            'guesses; polling it inside the expansion of a pre-terminal abandons the rest of that '
                            'pre-terminal, which the saved position no longer covers', None, st)
    # session loop: quit test is a direct statement of the generation loop, saves before leaving
    rq = CS + 'run'
    rfn = ctx.fn(rq)
    loops = [n for n in walk_local(rfn) if isinstance(n, ast.While)]
    found = False
    for lp in loops:
        for i, st in enumerate(lp.body):
            if isinstance(st, ast.If) and 'should_exit' in U(st.test):
                found = True
                body = st.body
                saves = [k for k, s in enumerate(body) if isinstance(s, ast.Expr) and isinstance(s.value, ast.Call)
                         and call_name(s.value) == 'self._save_session']
                exits = [k for k, s in enumerate(body) if isinstance(s, (ast.Break, ast.Return))]
                gen = [k for k, s in enumerate(lp.body) if any(call_name(c) == 'self.pcfg.create_guesses' for c in calls_in(s))]
                if not exits or not saves or saves[0] > exits[0]:
                    ctx.bad(rule, rq, 'quit branch: save/exit order wrong', 'the session must be saved before the loop is left',
                            None, st)
                elif U(st.test) not in ('self.pcfg.should_exit', 'self.pcfg.should_exit == True', 'self.pcfg.should_exit is True'):
                    ctx.bad(rule, rq, 'quit test ' + U(st.test), 'the quit branch must test exactly the quit flag', None, st)
                else:
                    ctx.ok(rule, rq, 'quit is honoured at the pre-terminal boundary, after _save_session()')
    if not found:
        ctx.bad(rule, rq, 'no quit test at the top level of the generation loop',
                'an explicit quit must stop the run at a pre-terminal boundary after saving', None, rfn)
    # OMEN loop
    oq = PG + 'omen_generate_guesses'
    ofn = ctx.fn(oq)
    ofound = False
    for lp in (n for n in walk_local(ofn) if isinstance(n, ast.While)):
        for st in lp.body:
            if isinstance(st, ast.If) and U(st.test) == 'self.should_exit':
                ofound = True
                body = st.body
                saves = [k for k, s in enumerate(body) if any(isinstance(c.func, ast.Attribute) and c.func.attr == 'save_session'
                                                                for c in calls_in(s))]
                exits = [k for k, s in enumerate(body) if isinstance(s, (ast.Break, ast.Return))]
                if not exits or not saves or saves[0] > exits[0]:
                    ctx.bad(rule, oq, 'OMEN quit branch leaves without save_session()', 'the Markov generator state must be '
                            'saved before the level is abandoned', None, st)
                else:
                    ctx.ok(rule, oq, 'OMEN quit: save_session() precedes the return')
    if not ofound:
        ctx.bad(rule, oq, 'no quit test between two OMEN guesses', 'a quit during a long Markov level must be honoured '
                'between two guesses', None, ofn)
    ctx.floor(rule, CSF, nreads, 2, 'reads of should_exit')


MUTATING = {'append', 'extend', 'insert', 'pop', 'remove', 'clear', 'sort', 'reverse', 'update', 'setdefault', 'popitem',
            'add', 'discard', 'set', 'remove_option', 'add_section', 'write', 'seek', 'heappush', 'heappop'}


def r4_thread_write_set(ctx, rule):
    cg = ctx.cg
    closure = ctx.resolver.closure(['pcfg_guesser.py'])
    ctx.fn(KEY)
    par = cg.reach([KEY], closure)
    writes = []
    for q in sorted(par):
        fn = ctx.repo.fn(q)
        ctx.stats['functions'].add(q)
        ps = set(params(fn))
        local_fresh = set()
        for n in walk_local(fn):
            if isinstance(n, ast.Assign) and isinstance(n.value, (ast.List, ast.Dict, ast.ListComp, ast.Constant, ast.BinOp, ast.JoinedStr)):
                for t in n.targets:
                    if isinstance(t, ast.Name):
                        local_fresh.add(t.id)
        for n in walk_local(fn):
            if isinstance(n, (ast.Attribute, ast.Subscript)) and isinstance(n.ctx, (ast.Store, ast.Del)):
                root = n
                while isinstance(root, (ast.Attribute, ast.Subscript)):
                    root = root.value
                if isinstance(root, ast.Name) and root.id in local_fresh:
                    continue
                writes.append((q, U(n), n))
            if isinstance(n, ast.Call) and isinstance(n.func, ast.Attribute) and n.func.attr in MUTATING:
                root = n.func.value
                while isinstance(root, (ast.Attribute, ast.Subscript)):
                    root = root.value
                if isinstance(root, ast.Name) and (root.id in ps or root.id == 'self') and root.id not in local_fresh:
                    d = dotted(n.func.value)
                    if d and d.startswith('sys.'):
                        continue
                    writes.append((q, U(n.func) + '(...)', n))
            if isinstance(n, ast.Global):
                writes.append((q, 'global ' + ','.join(n.names), n))
    facts = {'reachable_from_keypress': sorted(par), 'writes': [(q, w) for q, w, _ in writes]}
    bad = False
    for q, w, node in writes:
        if w.endswith('.should_exit'):
            continue
        bad = True
        ctx.bad(rule, q, 'keyboard thread writes ' + w,
                'the keyboard/status thread must not modify state the generation loop reads (other than the quit flag): a '
                'status request would alter the stream depending on its timing', facts, node)
    if ctx.floor(rule, CSF, len(par), 4, 'functions reachable from keypress') and not bad:
        ctx.ok(rule, KEY, 'the only shared state written from the keyboard thread (%d functions) is the quit flag' % len(par), facts)


def r5_thread_stdout(ctx, rule):
    """Nothing the keyboard/status thread can reach writes to stdout (a status request would splice text into the stream)."""
    from ..effects import stdout_write
    cg = ctx.cg
    closure = ctx.resolver.closure(['pcfg_guesser.py'])
    par = cg.reach([KEY], closure)
    bad = False
    n = 0
    for q in sorted(par):
        for c in calls_in(ctx.repo.fn(q)):
            n += 1
            w = stdout_write(c)
            if w:
                bad = True
                ctx.bad(rule, q, 'status thread writes to stdout: ' + U(c)[:70], 'a status/help request must not alter the guess '
                        'stream (path %s)' % ' -> '.join(cg.path_to(par, q)), None, c, firm=True)
    if ctx.floor(rule, KEY, n, 50, 'call sites reachable from keypress') and not bad:
        ctx.ok(rule, KEY, 'no stdout write among the %d call sites reachable from the keyboard thread' % n)


def _omen_quit_order(ctx, rule):
    # a quit noticed in the OMEN loop must not discard a guess that was already fetched (seed C12-g): emit -> quit test -> fetch
    from . import c15
    return c15.r2_no_generated_unemitted(ctx, rule)


def r7_stdin_only_in_helper_thread(ctx, rule):
    """Standard input is dereferenced only by the keyboard thread.  With descriptor 0 closed sys.stdin is None, with a closed
    stream every method raises ValueError, at EOF input() raises EOFError: inside the daemon thread that merely ends the
    thread, in the main thread it ends the run before (or in the middle of) the guess stream (seed C12-i: `if sys.stdin.isatty():`
    around the key hints in CrackingSession.run).  Every function reachable from the guesser's entry point without going through
    the thread target is searched for `sys.stdin.<attr>`, `sys.__stdin__.<attr>`, input() and fileinput; a use inside a try whose
    handlers catch Exception (or the errors in question) is accepted."""
    closure = ctx.resolver.closure(['pcfg_guesser.py'])
    roots = [q for q in ('pcfg_guesser.py::main',) if ctx.repo.has(q)]
    if not roots:
        ctx.unk(rule, 'pcfg_guesser.py', 'entry point main() not found')
        return
    par = ctx.cg.reach(roots, closure, stop=(KEY,))
    par.pop(KEY, None)
    n = 0
    bad = False
    for q in sorted(par):
        fn = ctx.repo.fn(q)
        mod = ctx.repo.modules[q.partition('::')[0]]
        ctx.stats['functions'].add(q)
        n += 1
        for node in walk_local(fn):
            use = None
            if isinstance(node, ast.Attribute) and isinstance(node.value, ast.Attribute) and dotted(node.value) in ('sys.stdin', 'sys.__stdin__'):
                use = U(node)
            elif isinstance(node, ast.Call) and call_name(node) in ('input', 'raw_input', 'fileinput.input', 'sys.stdin.read', 'sys.stdin.readline'):
                use = U(node)[:40]
            if use is None:
                continue
            protected = False
            cur = node
            while cur is not None and cur is not fn:
                parn = mod.parents.get(id(cur))
                if isinstance(parn, ast.Try) and any(cur is s_ for s_ in parn.body):
                    for h in parn.handlers:
                        names = U(h.type) if h.type is not None else 'BaseException'
                        if any(k in names for k in ('Exception', 'BaseException')) and not any(isinstance(x, ast.Raise) for x in walk_stmts(h.body)):
                            protected = True
                cur = parn
            if protected:
                ctx.ok(rule, q, 'stdin use %s is inside a handler for every error' % use)
                continue
            bad = True
            ctx.bad(rule, q, 'main thread dereferences standard input: %s' % use,
                    'with standard input closed sys.stdin is None (AttributeError) or a closed stream (ValueError), at end of input '
                    'input() raises EOFError: in the main thread the exception ends the run, so the guess stream is cut short for '
                    'that stdin condition only', {'call_path': ctx.cg.path_to(par, q)}, node)
    if ctx.floor(rule, 'pcfg_guesser.py', n, 20, 'functions of the main thread examined') and not bad:
        ctx.ok(rule, 'pcfg_guesser.py', 'no function reachable from main() outside the keyboard thread touches standard input (%d functions)' % n)


def _saved_position_exact(ctx, rule):
    # an explicit quit stops at a boundary AND the rest can be obtained: the saved position is the exact popped probability (seed
    # C12-k: '{:.12e}'.format - rounded down, the popped-but-unguessed pre-terminal is lost on --load)
    from . import c08
    return c08.r4_saved_position(ctx, rule)

def _omen_marker(ctx, rule):
    # a quit is resumable only if the OMEN marker is written exactly when a Markov level was interrupted (seed C12-o: written
    # whenever the report's current pre-terminal is a Markov one - stale right after a level finished)
    from . import c15
    return c15.r4_omen_exit_writers(ctx, rule)

def _shared_rule(mod, name, **kw):
    def run(ctx, rule):
        import importlib
        return getattr(importlib.import_module('sa.props.' + mod), name)(ctx, rule, **kw)
    return run


def rules(tier):
    return [('C12.R1', r1_no_liveness_exit), ('C12.R2', r2_quit_flag_writers), ('C12.R3', r3_quit_points),
            ('C12.R4', r4_thread_write_set), ('C12.R5', r5_thread_stdout), ('C12.R6', _omen_quit_order), ('C12.R7', r7_stdin_only_in_helper_thread), ('C12.R8', _saved_position_exact), ('C12.R9', _omen_marker),
            # C12-cb: load_session reads cur_len, cur_ip in the other order than save_session writes them
            ('C12.R10', _shared_rule('c15', 'r3_pickle_layout')),
            # C12-ca: skip_case restored from the skip_brute key
            ('C12.R11', _shared_rule('c08', 'r11_restore_is_verbatim')),
            # C09-ca: leaving with os._exit because the stdin thread is still blocked loses buffered guesses
            ('C12.R12', _shared_rule('plumbing', 'no_unflushed_exit')),
            # C12-db: is_parent_around with < instead of <= - the pre-terminal pending at the quit no longer counts as queued
            ('C12.R13', _shared_rule('c08', 'r2_region_agreement')),
            # C02-da: a second quit point behind create_guesses
            ('C12.R14', _shared_rule('c08', 'r23_no_save_after_generation')),
            # C12-da: KeyError in the keyboard thread - a quit typed inside a Markov level is never honoured
            ('C12.R15', _shared_rule('c07', 'r22_keyspace_types')),
            # C12-eb: restored child probability scaled from the parent's instead of recomputed
            ('C12.R16', _shared_rule('c01', 'r4_prob_pt_coupling')),
            # C12-fb: remove_option('guessing_info', 'omen_guess_number') slipped under `if limit:`
            ('C12.R17', _shared_rule('c15', 'r1_one_shot_key'))]


META = {
    'explanation': 'The only cross-thread datum the generation loop reads is the quit flag: no loop exit is '
                   'control-dependent on Thread.is_alive()/stdin; should_exit has one guarded writer (keypress, under '
                   "<input()> == 'q', the compared value defined only by input()); the flag is polled only at the "
                   'pre-terminal boundary and between two OMEN guesses, each followed by a save before the exit; the '
                   'keyboard thread writes nothing else the loop reads (write-set over its call graph).',
    'trusted_base': ['python ast', 'resolver/call graph', 'attribute names identify the shared flags'],
    'assumptions': ['CPython: attribute store/load of a bool is atomic'],
    'not_decided': 'the space of interleavings itself; only the points where the main loop reads thread-written state are enumerated',
    'technique': 'control-dependence rule + who-may-write/who-may-read (call-graph effect sets) + statement ordering on the quit branches',
}

META['explanation'] += ' ' + 'Round 13: the one-shot OMEN marker is removed on every path that finished the restored level.'
