"""C13 - a non-zero score is a promise the guesser keeps (DESIGN section 4, C13)."""
import ast

from ..core import (TU, U, walk_local, calls_in, call_name, const, NOCONST, params, stores_in, single_def, expand,
                    walk_stmts, arg_for, kwarg, path_conditions, enclosing_stmt_chain, dotted)
from ..iotable import IOTable
from . import c03, c07, c08

SP = 'lib_scorer/pcfg_password_scorer.py::PCFGPasswordScorer.parse'
SPF = 'lib_scorer/pcfg_password_scorer.py'
SG = 'lib_scorer/grammar_io.py::'

DETECTORS = ['detect_keyboard_walk', 'email_detection', 'website_detection', 'year_detection', 'context_sensitive_detection',
             'alpha_detection', 'digit_detection', 'other_detection', 'base_structure_creation']


def detector_calls(ctx):
    fn = ctx.fn(SP)
    out = []
    for st in fn.body:
        if isinstance(st, ast.Assign) and isinstance(st.value, ast.Call):
            tg = ctx.resolver.resolve_call(SP, st.value)
            names = [t.partition('::')[2] for t in tg if not t.startswith('ext:')]
            out.append((st, call_name(st.value), names))
    return fn, out


def r1_detector_order(ctx, rule):
    fn, calls = detector_calls(ctx)
    pw = params(fn)[1]
    order = []
    for st, nm, resolved in calls:
        hit = [d for d in DETECTORS if d in resolved]
        if hit:
            order.append((hit[0], st))
    names = [n for n, s in order]
    facts = {'order': names}
    pos = {n: i for i, n in enumerate(names)}
    probs = []
    if sorted(names) != sorted(DETECTORS):
        missing = sorted(set(DETECTORS) - set(names))
        probs.append('detectors not called directly: %s' % missing)
    else:
        if pos['detect_keyboard_walk'] != 0:
            probs.append('keyboard detection is not first')
        for d in ('email_detection', 'website_detection'):
            for later in ('year_detection', 'context_sensitive_detection', 'alpha_detection', 'digit_detection', 'other_detection'):
                if pos[d] > pos[later]:
                    probs.append('%s after %s' % (d, later))
        for d in DETECTORS[:7]:
            if pos[d] > pos['other_detection']:
                probs.append('%s after other_detection' % d)
        if pos['base_structure_creation'] < pos['other_detection']:
            probs.append('base structure before other_detection')
        if pos['year_detection'] > pos['digit_detection'] or pos['context_sensitive_detection'] > pos['alpha_detection'] \
                or pos['context_sensitive_detection'] > pos['digit_detection']:
            probs.append('year/context after the detectors they carve from')
    # the section list is produced freshly for this string by the keyboard detector and threaded through
    first = order[0] if order else None
    if first and first[0] == 'detect_keyboard_walk':
        c = first[1].value
        if not (call_name(c) == 'detect_keyboard_walk' and len(c.args) == 1 and U(c.args[0]) == pw and not c.keywords):
            probs.append('section list does not come from detect_keyboard_walk(%s): %s' % (pw, U(c)[:60]))
        sl = U(first[1].targets[0].elts[0]) if isinstance(first[1].targets[0], ast.Tuple) else None
        for n, st in order[1:]:
            a = st.value.args[0] if st.value.args else None
            if a is None or U(a) != sl:
                probs.append('%s is not applied to the section list %s' % (n, sl))
    if probs:
        for p in probs:
            ctx.bad(rule, SP, 'scorer segmentation: ' + p,
                    'the scorer must segment the string with the trainer\'s detectors, freshly for every call (the detectors '
                    'rewrite the section list in place: a cached or shared list returns already-labelled sections), e-mail/website '
                    'before the others, other last', facts, fn)
    else:
        ctx.ok(rule, SP, 'fresh detect_keyboard_walk(password); e-mail/website before year/context/alpha/digit; other last; '
               'base structure after', facts)
    # cross-reference with the trainer (reported, not required)
    tfn = ctx.fn('lib_trainer/pcfg_password_parser.py::PCFGPasswordParser.parse')
    torder = [call_name(c) for st in tfn.body for c in calls_in(st) if call_name(c) in DETECTORS]
    ctx.ok(rule, SP, 'cross-reference: trainer order %s, scorer order %s' % (torder, names), nontrivial=False)


def r2_early_return(ctx, rule):
    fn, calls = detector_calls(ctx)
    mod = ctx.repo.modules[SPF]
    rets = [r for r in walk_local(fn) if isinstance(r, ast.Return) and isinstance(r.value, ast.Tuple)]
    web = [s for s, nm, res in calls if 'website_detection' in res]
    later = [s for s, nm, res in calls if any(d in res for d in ('year_detection', 'alpha_detection', 'digit_detection'))]
    if not web or not later:
        ctx.unk(rule, SP, 'detector calls not found')
        return
    # Interpret the statements between the website detector and the next detector on the four truth assignments of
    # (found_emails, found_urls): which of them leave, with which category constant and probability?
    facts = {'returns': [U(r.value) for r in rets]}
    top = list(fn.body)
    try:
        i0 = next(k for k, st in enumerate(top) if any(x is web[0] for x in ast.walk(st)))
        i1 = min(k for k, st in enumerate(top) for l in later if any(x is l for x in ast.walk(st)))
    except (StopIteration, ValueError):
        ctx.unk(rule, SP, 'detector calls are not top-level statements of parse')
        return
    # names of the two found lists (results of e-mail / website detection)
    names = {}
    for st, nm, res in calls:
        if 'email_detection' in res and isinstance(st.targets[0], ast.Tuple):
            names['E'] = U(st.targets[0].elts[0])
        if 'website_detection' in res and isinstance(st.targets[0], ast.Tuple):
            names['W'] = U(st.targets[0].elts[0])
    if set(names) != {'E', 'W'}:
        ctx.unk(rule, SP, 'found lists of the e-mail / website detectors not identified')
        return

    class Unknown(Exception):
        pass

    def ev(t, env):
        if isinstance(t, ast.Name) and t.id == names['E']:
            return env['E']
        if isinstance(t, ast.Name) and t.id == names['W']:
            return env['W']
        if isinstance(t, ast.UnaryOp) and isinstance(t.op, ast.Not):
            return not ev(t.operand, env)
        if isinstance(t, ast.BoolOp):
            vals = [ev(v, env) for v in t.values]
            return all(vals) if isinstance(t.op, ast.And) else any(vals)
        if isinstance(t, ast.Compare) and len(t.ops) == 1:
            l, r = t.left, t.comparators[0]
            if isinstance(l, ast.Call) and call_name(l) == 'len' and U(l.args[0]) in (names['E'], names['W']) and const(r) == 0:
                v = env['E'] if U(l.args[0]) == names['E'] else env['W']
                return {ast.Gt: v, ast.NotEq: v, ast.Eq: not v}.get(type(t.ops[0]), None)
            lv = env.get(U(l), const(l) if const(l) is not NOCONST else None)
            if isinstance(t.ops[0], (ast.In, ast.NotIn)) and isinstance(r, (ast.List, ast.Tuple, ast.Set)) and lv is not None:
                inn = lv in [const(e) for e in r.elts]
                return inn if isinstance(t.ops[0], ast.In) else not inn
            rv = env.get(U(r), const(r) if const(r) is not NOCONST else None)
            if isinstance(t.ops[0], (ast.Eq, ast.NotEq)) and lv is not None and rv is not None:
                return (lv == rv) if isinstance(t.ops[0], ast.Eq) else (lv != rv)
        raise Unknown(U(t))

    def run(stmts, env):
        for st in stmts:
            if isinstance(st, ast.If):
                r = run(st.body if ev(st.test, env) else st.orelse, env)
                if r is not None:
                    return r
            elif isinstance(st, ast.Return):
                if isinstance(st.value, ast.Tuple) and len(st.value.elts) == 4:
                    cat = st.value.elts[1]
                    cv = env.get(U(cat), const(cat) if const(cat) is not NOCONST else None)
                    return (cv, const(st.value.elts[2]))
                return ('?', '?')
            elif isinstance(st, ast.Assign) and len(st.targets) == 1 and isinstance(st.targets[0], ast.Name) and const(st.value) is not NOCONST:
                env[st.targets[0].id] = const(st.value)
            elif isinstance(st, (ast.Assign, ast.Expr, ast.AugAssign)):
                pass
            else:
                raise Unknown(type(st).__name__)
        return None
    table = {}
    try:
        for E in (True, False):
            for W in (True, False):
                table['emails=%s urls=%s' % (E, W)] = run(top[i0 + 1:i1], {'E': E, 'W': W})
    except Unknown as u:
        ctx.unk(rule, SP, 'e-mail/website handling not understood: %s' % u)
        table = None
    if table is not None:
        facts['early_exit_table'] = {k: list(v) if v else None for k, v in table.items()}
        want = {'emails=True urls=True': ('e', 0), 'emails=True urls=False': ('e', 0), 'emails=False urls=True': ('w', 0),
                'emails=False urls=False': None}
        if table == want:
            ctx.ok(rule, SP, "strings with an e-mail / website are classified e / w and returned with probability 0 before any lookup", facts)
        else:
            ctx.bad(rule, SP, 'e-mail/website handling %s' % facts['early_exit_table'], "found e-mails -> category 'e', found URLs -> 'w', "
                    "both return probability 0 before the other detectors run; everything else goes on to be scored", facts, fn)
    # unsupported structure -> 0
    uns = [r for r in rets if any((U(t) == 'is_supported' and not p) or (U(t) == 'not is_supported' and p) for t, p in path_conditions(mod, r))]
    if uns and const(uns[0].value.elts[2]) == 0:
        ctx.ok(rule, SP, 'unsupported base structure -> probability 0')
    else:
        ctx.bad(rule, SP, 'unsupported structures', 'a structure the guesser does not generate must score 0', facts, fn)


def r3_factors(ctx, rule):
    fn, calls = detector_calls(ctx)
    tries = [t for t in walk_local(fn) if isinstance(t, ast.Try)]
    if len(tries) != 1:
        ctx.unk(rule, SP, 'probability product block not found')
        return
    t = tries[0]
    # found-list variable -> (detector, position)
    var_of = {}
    for st, nm, res in calls:
        tg = st.targets[0]
        det = next((d for d in c03.VALUE_POS if d in res), None)
        if det is None:
            continue
        if isinstance(tg, ast.Name):
            var_of[tg.id] = (det, None)
        elif isinstance(tg, ast.Tuple):
            for i, e in enumerate(tg.elts):
                if isinstance(e, ast.Name):
                    var_of[e.id] = (det, i)
    want_table = {'K': ('self.count_keyboard', True), 'Y': ('self.count_years', False), 'X': ('self.count_context_sensitive', False),
                  'A': ('self.count_alpha', True), 'C': ('self.count_alpha_masks', True), 'D': ('self.count_digits', True),
                  'O': ('self.count_other', True)}
    seen = {}
    ok = True
    for st in t.body:
        if isinstance(st, ast.For) and isinstance(st.iter, ast.Name) and len(st.body) == 1 and isinstance(st.body[0], ast.AugAssign) \
                and isinstance(st.body[0].op, ast.Mult) and U(st.body[0].target) == 'cur_prob':
            var = st.iter.id
            item = U(st.target)
            det, posn = var_of.get(var, (None, None))
            letter = c03.VALUE_POS.get(det, {}).get(posn)
            factor = U(st.body[0].value)
            seen[letter or var] = factor
            if letter is None:
                ok = False
                ctx.bad(rule, SP, 'factor over %s which is not a found list of a detector' % var, 'every factor must come from a '
                        'segment of this string', None, st)
                continue
            table, indexed = want_table[letter]
            want = '%s[len(%s)][%s]' % (table, item, item) if indexed else '%s[%s]' % (table, item)
            if factor != want:
                ok = False
                ctx.bad(rule, SP, '%s factor %s, expected %s' % (letter, factor, want),
                        'each segment contributes the probability stored for exactly that value (case-sensitive, same length '
                        'class) in the table of its own category; a normalised or foreign lookup yields a probability no '
                        'pre-terminal of the guesser has', {'factors': seen}, st)
        elif isinstance(st, ast.AugAssign) and U(st.target) == 'cur_prob':
            seen['base'] = U(st.value)
            if U(st.value) != 'self.count_base_structures[base_structure]' or not isinstance(st.op, ast.Mult):
                ok = False
                ctx.bad(rule, SP, 'base structure factor ' + U(st.value), 'the base structure probability is the last factor', None, st)
        else:
            ok = False
            ctx.bad(rule, SP, 'unexpected statement in the product: ' + U(st)[:60], 'product of the per-segment probabilities only', None, st)
    missing = sorted(set(want_table) - set(seen)) + ([] if 'base' in seen else ['base'])
    if missing:
        ok = False
        ctx.bad(rule, SP, 'no factor for %s' % missing, 'every segment category (and the masks, and the base structure) must '
                'contribute a factor, otherwise the score exceeds the probability of the emitting pre-terminal', {'factors': seen}, t)
    h = [(U(x.type) if x.type else None, U(x.body)) for x in t.handlers]
    if h != [('KeyError', 'cur_prob = 0')]:
        ok = False
        ctx.bad(rule, SP, 'handlers %s' % h, 'a value absent from the ruleset must give 0', None, t)
    init = [s for s in fn.body if isinstance(s, ast.Assign) and U(s.targets[0]) == 'cur_prob']
    if not init or const(init[0].value) not in (1, 1.0):
        ok = False
        ctx.bad(rule, SP, 'product starts at %s' % (U(init[0].value) if init else None), 'product starts at 1.0', None, fn)
    if ok:
        ctx.ok(rule, SP, 'probability = product over K, Y, X, A, C(masks), D, O segments of table[len][value] (or table[value]) '
               'times the base structure; KeyError -> 0', {'factors': seen})


def r4_effect_free(ctx, rule):
    cg = ctx.cg
    closure = ctx.resolver.closure(['password_scorer.py'])
    ctx.fn(SP)
    par = cg.reach([SP], closure)
    bad = False
    for q in sorted(par):
        fn = ctx.repo.fn(q)
        ctx.stats['functions'].add(q)
        for n in walk_local(fn):
            if isinstance(n, ast.Attribute) and isinstance(n.ctx, (ast.Store, ast.Del)) and U(n.value) == 'self':
                bad = True
                ctx.bad(rule, q, 'parse stores to %s' % U(n), 'the score must depend only on the string and the ruleset: nothing '
                        'reachable from parse may update the scorer, the detector or the tables (path %s)'
                        % ' -> '.join(cg.path_to(par, q)), None, n)
            if isinstance(n, ast.Call) and isinstance(n.func, ast.Attribute) and n.func.attr in ('train',):
                bad = True
                ctx.bad(rule, q, 'calls %s during scoring' % U(n.func), 'scoring must not train', None, n)
            if isinstance(n, ast.Call) and call_name(n) in ('lru_cache', 'functools.lru_cache', 'functools.cache', 'cache') \
                    and not any(n is d_ or n is getattr(d_, 'func', None) for d_ in getattr(fn, 'decorator_list', [])):
                bad = True
                ctx.bad(rule, q, 'memoisation ' + U(n)[:50], 'detector results are mutable lists', None, n)
    # a memoising DECORATOR is harmless exactly when no caller changes the cached object in place (a table builder such as
    # get_tld_list() whose result is only iterated); the discipline is checked over the scorer's whole closure
    from .common import memo_discipline
    memo_discipline(ctx, rule, ['password_scorer.py'], SP)
    # no memoising wrapper bound to the scorer
    for q, fn in ctx.repo.all_funcs():
        if q.startswith(SPF):
            for n in walk_local(fn):
                if isinstance(n, ast.Call) and (call_name(n) or '').split('.')[-1] in ('lru_cache', 'cache'):
                    bad = True
                    ctx.bad(rule, q, 'memoising wrapper in the scorer: ' + U(n)[:60], 'detectors return lists that later detectors '
                            'rewrite in place; a cache hands the rewritten list to the next call for the same string', None, n)
    if ctx.floor(rule, SP, len(par), 15, 'functions reachable from the scorer parse') and not bad:
        ctx.ok(rule, SP, 'nothing reachable from parse (%d functions) stores to the scorer / detector state' % len(par))


def r5_loader(ctx, rule):
    """The scorer loads each counter from the file of the same category."""
    fn = ctx.fn(SG + 'load_grammar')
    sections = c03.config_sections(ctx)
    name_of = {s: v.get('name') for s, v in sections.items()}
    want = {'BASE_K': 'count_keyboard', 'BASE_A': 'count_alpha', 'CAPITALIZATION': 'count_alpha_masks', 'BASE_D': 'count_digits',
            'BASE_O': 'count_other'}
    got = {}
    for c in calls_in(fn):
        if call_name(c) == '_load_from_multiple_files' and len(c.args) >= 2 and isinstance(c.args[1], ast.Subscript):
            got[const(c.args[1].slice)] = U(c.args[0]).split('.')[-1]
    fixed = {}
    cur = None
    for st in walk_stmts(fn.body):
        if isinstance(st, ast.Assign) and isinstance(st.value, ast.Call) and call_name(st.value) == 'os.path.join':
            cur = tuple(const(a) for a in st.value.args[1:])
        if isinstance(st, ast.If):
            for c in [x for x in ast.walk(st.test) if isinstance(x, ast.Call)]:
                if call_name(c) == '_load_from_file':
                    fixed[cur] = U(c.args[0]).split('.')[-1]
    facts = {'sections': got, 'fixed': {'/'.join(str(x) for x in k): v for k, v in fixed.items() if k}}
    wantf = {('Years', '1.txt'): 'count_years', ('Context', '1.txt'): 'count_context_sensitive', ('Grammar', 'grammar.txt'): 'count_base_structures'}
    if got == want and fixed == wantf:
        ctx.ok(rule, SG + 'load_grammar', 'each scorer table is loaded from the files of its own category', facts)
    else:
        ctx.bad(rule, SG + 'load_grammar', 'scorer table sources %s' % facts, 'a table loaded from another category scores strings '
                'with probabilities the guesser does not use', facts, fn)
    mf = ctx.fn(SG + '_load_from_multiple_files')
    mq = SG + '_load_from_multiple_files'
    mps = params(mf)
    tab = mps[0]
    loops = [n for n in mf.body if isinstance(n, ast.For) and isinstance(n.target, ast.Name)]
    verdict = None
    if len(loops) == 1:
        lp = loops[0]
        f = lp.target.id
        la = {}
        for st in lp.body:
            if isinstance(st, ast.Assign) and len(st.targets) == 1 and isinstance(st.targets[0], ast.Name):
                la.setdefault(st.targets[0].id, []).append(st.value)
        keys = [k for k, v in la.items() if len(v) == 1 and U(v[0]) in ("int(%s.split('.')[0])" % f, "int(%s.partition('.')[0])" % f,
                                                                        "int(os.path.splitext(%s)[0])" % f)]
        stores_ = [st for st in lp.body if isinstance(st, ast.Assign) and isinstance(st.targets[0], ast.Subscript)
                   and U(st.targets[0].value) == tab]
        loads_ = [c for st in lp.body for c in ast.walk(st) if isinstance(c, ast.Call) and call_name(c) == '_load_from_file']
        if len(keys) == 1 and len(stores_) == 1 and len(loads_) == 1 and loads_[0].args:
            K = keys[0]
            st = stores_[0]
            fresh = U(st.value) == 'Counter()' or (isinstance(st.value, ast.Name) and [U(v) for v in la.get(st.value.id, [])] == ['Counter()'])
            arg = loads_[0].args[0]
            same = U(arg) == '%s[%s]' % (tab, K) or (isinstance(st.value, ast.Name) and U(arg) == st.value.id)
            verdict = U(st.targets[0].slice) == K and fresh and same
        elif stores_ or loads_:
            verdict = False if (len(keys) == 0 and stores_) else None
    if verdict is True:
        ctx.ok(rule, mq, 'length-indexed tables keyed by the integer file stem')
    elif verdict is False:
        ctx.bad(rule, mq, 'length key', 'tables are indexed by int(file stem) = len(value), each file loaded into the table of its own '
                'length', None, mf)
    else:
        ctx.unk(rule, mq, 'the loop that loads the length-indexed files is not in a recognised form')
    lf = ctx.fn(SG + '_load_from_file')
    # table[field 0] = float(field 1), whatever the split result is called / however it is bound
    tabp = params(lf)[0]
    lstores = stores_in(lf)
    st_ = [n for n in walk_local(lf) if isinstance(n, ast.Assign) and isinstance(n.targets[0], ast.Subscript) and U(n.targets[0].value) == tabp]
    good = None
    if len(st_) == 1:
        key = expand(lf, st_[0].targets[0].slice, lstores)
        val = expand(lf, st_[0].value, lstores)
        kt, vt = U(key), U(val)
        import re as _re
        mk = _re.fullmatch(r"(.+)\.split\('\\t'\)\[0\]", kt)
        mv = _re.fullmatch(r"float\((.+)\.split\('\\t'\)\[1\]\)", vt)
        good = bool(mk and mv and mk.group(1) == mv.group(1))
        facts_ = {'key': kt, 'value': vt}
    if good:
        ctx.ok(rule, SG + '_load_from_file', 'table[value] = float(probability)', facts_)
    elif good is False:
        ctx.bad(rule, SG + '_load_from_file', 'record use %s' % facts_, 'table[field 0] = float(field 1) of the same TAB-split line', facts_, lf)
    else:
        ctx.unk(rule, SG + '_load_from_file', 'the store into the scorer table is not recognised')


def _splice(ctx, rule):
    from . import c05
    return c05.r1_splice_discipline(ctx, rule)


def r11_no_shared_class_state(ctx, rule):
    """The scorer's tables belong to one scorer object: a mutable object bound in a class body (a dict / list / set / Counter
    default, annotated or not) is shared by every instance, so loading a second ruleset overwrites the tables of a scorer that is
    already in use and its scores no longer depend on its own ruleset only (seed C13-g)."""
    from .common import no_shared_class_state
    no_shared_class_state(ctx, rule, ['lib_scorer/'], 4,
                          'every instance of the class shares this object; the loader fills it in place, so two scorers for two '
                          'rulesets in one process score with a mixture of both rulesets')


def _adoption(ctx, rule):
    # a pre-terminal that no parent adopts is never emitted although the scorer promises its strings (seed C13-h)
    from . import c02
    return c02.r1_adoption_kernel(ctx, rule)


def r14_recasing_round_trip(ctx, rule):
    """The scorer prices an alpha segment only if the guesser can spell it: a mask records which letters are upper-case and the
    guesser upper-cases letters of the lower-cased word, so a segment scores only when (low.upper() if orig.isupper() else low)
    gives every letter back and lower() kept the length.  Without that guard titlecase digraphs, the capital sharp s and the dotted
    capital I get a non-zero score for a string no pre-terminal ever emits (defect of the pinned tree, repaired by 3b08f17).
    Decided structurally - a NECESSARY condition: parse() loops over the final section list and, for labels starting with 'A',
    zeroes the returned probability (or returns 0) under a test that compares the original letters with that re-casing."""
    q = 'lib_scorer/pcfg_password_scorer.py::PCFGPasswordScorer.parse'
    fn = ctx.fn(q)
    rets = [r for r in walk_local(fn) if isinstance(r, ast.Return) and isinstance(r.value, ast.Tuple) and len(r.value.elts) == 4]
    if not ctx.floor(rule, q, len(rets), 1, 'result tuples of parse'):
        return
    probvar = next((U(r.value.elts[2]) for r in reversed(rets) if isinstance(r.value.elts[2], ast.Name)), None)
    guards = []
    for lp in [n for n in walk_local(fn) if isinstance(n, ast.For) and U(n.iter) == 'section_list']:
        names = [e.id for e in (lp.target.elts if isinstance(lp.target, ast.Tuple) else [lp.target]) if isinstance(e, ast.Name)]
        zero = [s_ for s_ in walk_stmts(lp.body)
                if (isinstance(s_, ast.Assign) and probvar and U(s_.targets[0]) == probvar and const(s_.value) == 0)
                or (isinstance(s_, ast.Return) and isinstance(s_.value, ast.Tuple) and len(s_.value.elts) == 4 and const(s_.value.elts[2]) == 0)]
        if not zero:
            continue
        txt = TU(lp)
        alpha_only = any("[0] == 'A'" in U(t) or ".startswith('A')" in U(t) for t in (x.test for x in ast.walk(lp) if isinstance(x, ast.If)))
        recase = '.lower()' in txt and '.upper()' in txt and '.isupper()' in txt and \
            any(isinstance(c, ast.Compare) and isinstance(c.ops[0], (ast.NotEq, ast.Eq)) for c in ast.walk(lp))
        keeps_len = 'len(' in txt
        guards.append({'loop_over': names, 'alpha_only': alpha_only, 'recasing_compared': recase, 'length_compared': keeps_len})
    facts = {'probability_variable': probvar, 'guards': guards}
    good = [g for g in guards if g['alpha_only'] and g['recasing_compared'] and g['length_compared']]
    if good:
        ctx.ok(rule, q, 'alpha segments whose letters the mask re-casing does not give back score 0', facts)
    elif guards:
        ctx.unk(rule, q, 'parse() zeroes the probability inside a loop over the sections, but the test is not the re-casing comparison: %s' % guards)
    else:
        ctx.bad(rule, q, 'no re-casing guard in PCFGPasswordScorer.parse',
                "a string whose alpha segment contains a letter with lower().upper() != itself (titlecase 'Dz' digraphs U+01C5.., capital "
                "sharp s U+1E9E, dotted capital I U+0130) is lower-cased, found in the alpha list, given the mask probability and a non-zero "
                "score - but the guesser re-creates spellings by upper-casing the stored lower-case letters and never emits it", facts, fn)


def _successor(ctx, rule):
    # every group of every variable is reached (+1 successor under the end-of-variable guard): a group the queue never reaches is
    # still priced by the scorer (seed C13-j: guard off by one, the least probable group of every variable was never emitted)
    from . import c01
    return c01.r5_successor(ctx, rule)


def _slice_tiling(ctx, rule):
    # the scorer segments with the trainer's detectors: the pieces must spell the string, otherwise the structure it prices is not
    # the structure of that string (seed C13-k: the text before a keyboard walk cut with password[:-len(walk)] inside the loop)
    from . import c05
    return c05.r2_slice_tiling(ctx, rule)


def _renorm(ctx, rule):
    # the pre-terminal probability equals the score only if the guesser rescales base structures under --skip_brute alone (seed
    # C13-o: the Markov share subtracted in every run, so every guesser probability is p / (1 - P(M)) while the scorer reports p)
    from . import c14
    return c14.r2_renormalisation(ctx, rule)


def _mask_per_character(ctx, rule):
    # the scorer prices the spelling whose mask is 'U' where letter.isupper(); the guesser emits that spelling only if it upper-cases
    # the character at the same position (seed C13-i: end_word.upper() taken once and zipped with the mask)
    from . import c04
    return c04.r3_mask_slices(ctx, rule, strict_char_map=True)


def _shared_rule(mod, name, **kw):
    def run(ctx, rule):
        import importlib
        return getattr(importlib.import_module('sa.props.' + mod), name)(ctx, rule, **kw)
    return run


def rules(tier):
    return [('C13.R1', r1_detector_order), ('C13.R2', r2_early_return), ('C13.R3', r3_factors), ('C13.R4', r4_effect_free),
            ('C13.R5', r5_loader), ('C13.R8', _splice), ('C13.R9', c03.r2_mask_producer), ('C13.R10', c03.r3_mask_insertion), ('C13.R11', r11_no_shared_class_state), ('C13.R12', _adoption), ('C13.R13', _mask_per_character), ('C13.R14', r14_recasing_round_trip), ('C13.R15', _successor), ('C13.R16', _slice_tiling), ('C13.R17', _renorm), ('C13.R6', lambda c, r: c07.r5_strip_discipline(c, r, only=('lib_guesser/grammar_io.py::_load_from_file', 'lib_scorer/grammar_io.py::_load_from_file',
                                                                        'lib_guesser/grammar_io.py::_load_base_structures'), floor=3)),
            ('C13.R7', lambda c, r: c07.r2_encoding_agreement(c, r, file_filter=lambda fid: fid[0] not in ('Omen', 'Emails', 'Websites', 'Prince'), floor=12)),
            # C13-cb: the first part appended behind the parsing of the rest - three-word multiwords come back rotated
            ('C13.R18', _shared_rule('c05', 'r4_multiword_parts')),
            # C13-ca: load_grammar's two boolean parameters swapped in the signature, callers pass by position
            ('C13.R19', _shared_rule('c14', 'r13_options_forwarded')),
            # scorer options
            ('C13.R20', _shared_rule('plumbing', 'option_round_trip')),
            # C07-ca idea: the scorer reads the OMEN tables in the ruleset's encoding
            ('C13.R21', _shared_rule('c07', 'r18_scorer_encoding_before_omen')),
            # C13-da: the guesser's terminal loader strips every field - terminals with leading/trailing blanks are loaded without them, the scorer keeps them
            ('C13.R22', _shared_rule('c07', 'r3_record_layout')),
            # C13-eb: child probability scaled from the parent's - ties between parents are no longer exact
            ('C13.R23', _shared_rule('c01', 'r4_prob_pt_coupling')),
            # C13-ga: the context detector matches ignoring case and reports the list entry, not the text of the section
            ('C13.R24', _shared_rule('c03', 'r9_counted_value_is_segment')),
            ('C13.R25', _shared_rule('plumbing', 'loader_prob_verbatim'))]


META = {
    'explanation': 'Scorer = trainer segmentation + product of the stored probabilities: the detectors are called directly, on a '
                   'section list produced freshly by detect_keyboard_walk(password), in an order satisfying the partial order '
                   'the statement needs; e-mail/website strings return 0 before any lookup; each factor is table[len(x)][x] / '
                   'table[x] of the category the found list belongs to (tag chain, scorer column) plus masks and base structure, '
                   'KeyError -> 0; nothing reachable from parse stores to scorer/detector state (effect-free); the tables are '
                   'loaded from the files of their own category with the right encoding and strip discipline.',
    'trusted_base': ['python ast', 'resolver/call graph', 'frozen detector return-position table (shared with C03)'],
    'assumptions': ['the guesser emits the product language of the ruleset (C02-C04)'],
    'not_decided': "whether the scorer's re-built multi-word dictionary segments a particular string the way some guesser "
                   'derivation does (value level)',
    'technique': 'partial-order rule on detector calls + tag-chain table (scorer column) + effect-set rule over the call graph',
}

META['explanation'] += ' ' + 'Further: the guesser inserts a capitalisation transition after every alpha transition (shared from C03); alpha words use lower() only.'
META['explanation'] += ' ' + "Round 14: the counted context-sensitive value is the text of the section; the scorer's loader keeps every line."
