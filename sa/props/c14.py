"""C14 - skip_brute and all_lower are pure restrictions (DESIGN section 4, C14)."""
import ast

from ..core import (U, walk_local, calls_in, call_name, const, NOCONST, params, stores_in, single_def, expand,
                    walk_stmts, arg_for, kwarg, path_conditions, enclosing_stmt_chain)
from ..order import eval_cond, Terms
from ..cfg import CFG
from .common import GIO, PG
from . import c01, c08

MAIN = 'pcfg_guesser.py::main'
LB = GIO + '_load_base_structures'
LT_ = GIO + '_load_terminals'


def file_typestate(ctx, rule, qual):
    """Every `for .. in f` over a file object must be entered with the file at its start on every path."""
    fn = ctx.fn(qual)
    mod = ctx.repo.modules[qual.partition('::')[0]]
    # file objects: `with open(..) as f` / f = open(..)
    fobjs = set()
    for n in walk_local(fn):
        if isinstance(n, ast.With):
            for it in n.items:
                if isinstance(it.context_expr, ast.Call) and call_name(it.context_expr) in ('open', 'codecs.open', 'io.open') \
                        and isinstance(it.optional_vars, ast.Name):
                    fobjs.add(it.optional_vars.id)
        if isinstance(n, ast.Assign) and isinstance(n.value, ast.Call) and call_name(n.value) in ('open', 'codecs.open') \
                and len(n.targets) == 1 and isinstance(n.targets[0], ast.Name):
            fobjs.add(n.targets[0].id)
    results = []
    for f in sorted(fobjs):
        cfg = CFG(fn)
        loops = [nid for nid, n in cfg.nodes.items() if n.kind == 'iter' and isinstance(n.stmt.iter, ast.Name)
                 and n.stmt.iter.id == f]
        if len(loops) < 2:
            continue
        opens = [nid for nid, n in cfg.nodes.items() if n.kind == 'with' and any(
            isinstance(it.optional_vars, ast.Name) and it.optional_vars.id == f for it in n.stmt.items)]
        start = opens[0] if opens else cfg.entry

        def transfer(node, v, lab):
            st = node.stmt
            if node.kind == 'with' and any(isinstance(it.optional_vars, ast.Name) and it.optional_vars.id == f
                                           and isinstance(it.context_expr, ast.Call) and call_name(it.context_expr) in ('open', 'codecs.open', 'io.open')
                                           for it in st.items):
                return ['START']      # a freshly opened file bound to the same name
            if node.kind == 'iter' and isinstance(st.iter, ast.Name) and st.iter.id == f:
                return ['MID'] if lab == 'item' else (['EOF'] if lab == 'exhausted' else [v])
            if node.kind == 'stmt' and st is not None:
                for c in calls_in(st):
                    d = call_name(c)
                    if d == f + '.seek' and c.args and const(c.args[0]) == 0:
                        return ['START']
                    if d in (f + '.read', f + '.readline', f + '.readlines', f + '.seek'):
                        return ['MID']
            return [v]
        state = cfg.flow(['START'], transfer, entry=start)
        idom = cfg.dominators()
        for ln in loops:
            bad_states = {}
            for p, lab in cfg.pred[ln]:
                if cfg.dominates(ln, p, idom) and p != ln:
                    # back edge (the loop header dominates the source)
                    if p in cfg.reachable(ln) and ln in cfg.reachable(p):
                        continue
                vals = set()
                for v in state[p]:
                    vals.update(transfer(cfg.nodes[p], v, lab))
                for v in vals - {'START'}:
                    bad_states.setdefault(v, []).append(p)
            results.append((f, cfg, ln, bad_states, start))
    return results


def r1_rewind(ctx, rule):
    res = file_typestate(ctx, rule, LB)
    if not res:
        ctx.ok(rule, LB, 'the base-structure file is iterated at most once (no second pass to rewind for)', nontrivial=False)
        return
    for f, cfg, ln, bad, start in res:
        loop = cfg.nodes[ln].stmt
        ctx.stats['paths'] += 1
        if bad:
            st = sorted(bad)[0]
            # witness: path from the open to this loop avoiding any seek(0)
            seeks = [nid for nid, n in cfg.nodes.items() if n.kind == 'stmt' and any(
                call_name(c) == f + '.seek' for c in calls_in(n.stmt))]
            w = cfg.witness_path(start, ln, avoid=seeks)
            ctx.bad(rule, LB, 'loop `for %s in %s` entered with the file in state %s' % (U(loop.target), f, '/'.join(sorted(bad))),
                    'a second pass over the file starts where the first one stopped (after a break: mid-file; after '
                    'exhaustion: at EOF, so nothing is loaded) unless seek(0) happens on every path; with --skip_brute '
                    'on a ruleset without a Markov structure the scan runs to EOF',
                    {'witness_path': cfg.describe(w) if w else None}, loop)
        else:
            ctx.ok(rule, LB, 'loop at line %d over %s is entered at file start on every path' % (loop.lineno, f))


def r2_renormalisation(ctx, rule):
    fn = ctx.fn(LB)
    mod = ctx.repo.modules[LB.partition('::')[0]]
    ps = params(fn)
    tgt, skip = ps[0], 'skip_brute'
    if skip not in ps:
        ctx.unk(rule, LB, 'no skip_brute parameter')
        return
    # the loading loop and its 'prob' expression
    loop = None
    for n in walk_local(fn):
        if isinstance(n, ast.For) and any(isinstance(c.func, ast.Attribute) and c.func.attr == 'append'
                                           and U(c.func.value) == tgt for c in calls_in(n)):
            loop = n
    if loop is None:
        ctx.unk(rule, LB, 'no loading loop')
        return
    prob_expr = None
    for d in c01.pt_like_dicts(loop):
        if 'prob' in d:
            prob_expr = d['prob']
    stores = stores_in(fn)
    if isinstance(prob_expr, ast.Name):
        defs = [v for st, v in stores.get(prob_expr.id, []) if v is not None and any(st is s for s in walk_stmts(loop.body))]
        prob_expr = defs[-1] if defs else prob_expr
    facts = {'prob': U(prob_expr)}
    if not (isinstance(prob_expr, ast.BinOp) and isinstance(prob_expr.op, ast.Div) and isinstance(prob_expr.right, ast.Name)):
        ctx.bad(rule, LB, "base probability = " + U(prob_expr)[:70],
                'the loaded probability must be file value / (1 - P(Markov)) so that the remaining structures are '
                'rescaled when Markov structures are dropped', facts, loop)
        return
    D = prob_expr.right.id
    num = U(prob_expr.left)
    facts['numerator'] = num
    line_field = None
    if isinstance(prob_expr.left, ast.Call) and call_name(prob_expr.left) == 'float':
        line_field = U(prob_expr.left.args[0])
    # definitions of D
    ok = True
    ddefs = stores.get(D, [])
    init = [v for st, v in ddefs if v is not None and const(v) is not NOCONST]
    subs = [(st, v) for st, v in ddefs if v is not None and const(v) is NOCONST] + \
           [(st, None) for st, v in ddefs if v is None]
    facts['divisor'] = D
    facts['divisor_defs'] = [U(st)[:80] for st, v in ddefs]
    if not init or any(const(v) not in (1, 1.0) for v in init):
        ok = False
        ctx.bad(rule, LB, 'divisor initialised to %s' % [U(v) for v in init], 'total probability must start at 1.0', facts, fn)
    n_sub = 0
    for st, v in subs:
        n_sub += 1
        val = st.value if isinstance(st, ast.AugAssign) else v
        good = False
        if isinstance(st, ast.AugAssign) and isinstance(st.op, ast.Sub):
            sub = st.value
            good = True
        elif isinstance(v, ast.BinOp) and isinstance(v.op, ast.Sub) and U(v.left) == D:
            sub = v.right
            good = True
        if not good or not (isinstance(sub, ast.Call) and call_name(sub) == 'float'):
            ok = False
            ctx.bad(rule, LB, 'divisor update ' + U(st)[:70], 'total := total - P(Markov) expected', facts, st)
            continue
        conds = path_conditions(mod, st)
        ctexts = [(U(t), p) for t, p in conds]
        isM = any(isinstance(t, ast.Compare) and len(t.ops) == 1 and isinstance(t.ops[0], ast.Eq)
                  and (const(t.comparators[0]) == 'M' or const(t.left) == 'M') and p for t, p in conds)
        under_skip = any(U(t) == skip and p for t, p in conds)
        facts['update_conditions'] = ctexts
        if not isM or not under_skip:
            ok = False
            ctx.bad(rule, LB, 'divisor reduced under %s' % ctexts,
                    "only the probability of the 'M' structure may be subtracted, and only under skip_brute", facts, st)
    if n_sub != 1:
        ok = False
        ctx.bad(rule, LB, '%d updates of the divisor' % n_sub, "exactly one subtraction (the 'M' line) expected", facts, fn)
    # drop iff skip_brute and contains M
    app = [c for c in calls_in(loop) if isinstance(c.func, ast.Attribute) and c.func.attr == 'append' and U(c.func.value) == tgt]
    astmt = c08._stmt_of(mod, app[-1])
    conds = path_conditions(mod, astmt, stop=loop)
    table = {}
    for sk in (True, False):
        for hasM in (True, False):
            fx = {skip: sk}
            val = True
            for t, p in conds:
                f2 = dict(fx)
                for n in ast.walk(t):
                    if isinstance(n, ast.Compare) and len(n.ops) == 1 and isinstance(n.ops[0], (ast.In, ast.NotIn)) \
                            and const(n.left) == 'M':
                        f2[U(n)] = hasM if isinstance(n.ops[0], ast.In) else (not hasM)
                v = eval_cond(t, {}, Terms(), f2)
                if v is None:
                    val = None
                    break
                if v != p:
                    val = False
                    break
            table[(sk, hasM)] = val
    facts['append_table'] = {str(k): v for k, v in table.items()}
    want = {(True, True): False, (True, False): True, (False, True): True, (False, False): True}
    if any(v is None for v in table.values()):
        ctx.unk(rule, LB, 'cannot evaluate the keep/drop condition %s' % [(U(t), p) for t, p in conds], facts)
        return
    if table != want:
        ok = False
        ctx.bad(rule, LB, 'keep/drop table %s' % facts['append_table'],
                "a structure must be dropped iff skip_brute is set and it contains 'M'", facts, astmt)
    if ok:
        ctx.ok(rule, LB, "prob = value / total, total = 1 - P('M') only under skip_brute; dropped iff skip_brute and "
               "contains 'M'", facts)


def r3_skip_case(ctx, rule):
    fn = ctx.fn(LT_)
    mod = ctx.repo.modules[LT_.partition('::')[0]]
    ps = params(fn)
    flag = 'skip_case' if 'skip_case' in ps else None
    if not flag:
        ctx.unk(rule, LT_, 'no skip_case parameter')
        return
    # the store grammar[name] = [item] under skip_case
    tgt = ps[1]
    sites = []
    for n in walk_local(fn):
        if isinstance(n, ast.Assign) and len(n.targets) == 1 and isinstance(n.targets[0], ast.Subscript) \
                and U(n.targets[0].value) == tgt:
            conds = path_conditions(mod, n)
            pol = [p for t, p in conds if U(t) == flag or U(t) == 'not ' + flag]
            under = any((U(t) == flag and p) or (U(t) == 'not ' + flag and not p) for t, p in conds)
            if under:
                sites.append(n)
    if len(sites) != 1:
        ctx.bad(rule, LT_, '%d stores into the grammar under skip_case' % len(sites),
                'with --all_lower every capitalisation list must be replaced by the single all-lower mask', None, fn)
        return
    st = sites[0]
    loop = None
    for anc in enclosing_stmt_chain(mod, st):
        if isinstance(anc, ast.For):
            loop = anc
            break
    facts = {'store': U(st)}
    if loop is None:
        ctx.bad(rule, LT_, 'mask store not in a loop over the CAPITALIZATION file names', 'one mask list per length', facts, st)
        return
    lv = U(loop.target)
    local = {}
    for s in walk_stmts(loop.body):
        if isinstance(s, ast.Assign) and len(s.targets) == 1 and isinstance(s.targets[0], ast.Name):
            local[s.targets[0].id] = s.value

    def inl(node, depth=4):
        import copy

        class T(ast.NodeTransformer):
            def visit_Name(self, n):
                if isinstance(n.ctx, ast.Load) and n.id in local and depth > 0:
                    return inl(local[n.id], depth - 1)
                return n
        return T().visit(copy.deepcopy(node))
    stores = stores_in(fn)
    it = expand(fn, loop.iter, stores)
    facts['loop_over'] = U(it)
    ok = True
    if not ("'CAPITALIZATION'" in U(it) and "'filenames'" in U(it)):
        ok = False
        ctx.bad(rule, LT_, 'loop over ' + U(it)[:60], "the masks must be created for the CAPITALIZATION section's file list",
                facts, loop)
    key = inl(st.targets[0].slice)
    val = inl(st.value)
    facts['key'] = U(key)
    facts['value'] = U(val)
    stem = "%s.split('.')[0]" % lv
    want_key_ok = isinstance(key, ast.BinOp) and isinstance(key.op, ast.Add) and U(key.right) == stem \
        and "'CAPITALIZATION'" in U(key.left) and "'name'" in U(key.left)
    if not want_key_ok:
        ok = False
        ctx.bad(rule, LT_, 'mask key ' + U(key)[:80], "key must be <CAPITALIZATION name> + <file stem> (e.g. C5)", facts, st)
    shape = False
    if isinstance(val, ast.List) and len(val.elts) == 1 and isinstance(val.elts[0], ast.Dict):
        d = {const(k): v for k, v in zip(val.elts[0].keys, val.elts[0].values) if k is not None}
        vv, pp = d.get('values'), d.get('prob')
        if vv is not None and pp is not None and isinstance(vv, ast.List) and len(vv.elts) == 1:
            e = vv.elts[0]
            if isinstance(e, ast.BinOp) and isinstance(e.op, ast.Mult):
                a, b = e.left, e.right
                if const(b) == 'L':
                    a, b = b, a
                if const(a) == 'L' and U(b) == 'int(%s)' % stem and const(pp) in (1, 1.0) and not isinstance(const(pp), bool):
                    shape = True
    if not shape:
        ok = False
        ctx.bad(rule, LT_, 'mask group ' + U(val)[:100],
                "each length n must get exactly [{'values': ['L'*n], 'prob': 1.0}] with n parsed from the file name", facts, st)
    if ok:
        ctx.ok(rule, LT_, "all_lower: grammar[name+stem] = [{'values': ['L'*int(stem)], 'prob': 1.0}] for every "
               "CAPITALIZATION file", facts)


def r4_restored_flags_live(ctx, rule):
    fn = ctx.fn(MAIN)
    mod = ctx.repo.modules['pcfg_guesser.py']
    cfg = CFG(fn)
    loads = [c for c in calls_in(fn) if call_name(c) == 'load_save']
    gram = [c for c in calls_in(fn) if call_name(c) == 'PcfgGrammar']
    if not loads or not gram:
        ctx.unk(rule, MAIN, 'load_save / PcfgGrammar call not found in main')
        return
    ln = cfg.node_of(c08._stmt_of(mod, loads[0]))
    # reads of the restored keys
    ls = ctx.fn('pcfg_guesser.py::load_save')
    if len(params(ls)) < 2:
        ctx.unk(rule, 'pcfg_guesser.py::load_save', 'load_save no longer receives the option dictionary it restores into')
        return
    pi = params(ls)[1]
    restored = set()
    for n in walk_local(ls):
        if isinstance(n, ast.Assign) and len(n.targets) == 1 and isinstance(n.targets[0], ast.Subscript) \
                and U(n.targets[0].value) == pi:
            k = const(n.targets[0].slice)
            if isinstance(k, str):
                restored.add(k)
            elif isinstance(n.targets[0].slice, ast.Name):
                for anc in enclosing_stmt_chain(ctx.repo.modules['pcfg_guesser.py'], n):
                    if isinstance(anc, ast.For) and U(anc.target) == n.targets[0].slice.id and isinstance(anc.iter, (ast.List, ast.Tuple)):
                        restored.update(const(e) for e in anc.iter.elts if isinstance(const(e), str))
    facts = {'restored_keys': sorted(restored)}
    need = {'skip_brute', 'skip_case', 'rule_name'}
    if not need <= restored:
        ctx.bad(rule, 'pcfg_guesser.py::load_save', 'restores only %s' % sorted(restored),
                'the flags and ruleset name of the saved session must be taken from the save file', facts, ls)
        return
    # arg name of program_info in main
    a0 = loads[0].args[1] if len(loads[0].args) > 1 else None
    pin = U(a0) if a0 is not None else 'program_info'
    bad = False
    nreads = 0
    for nid, node in cfg.nodes.items():
        st = node.stmt
        if st is None or nid == ln:
            continue
        tops = [st.test] if isinstance(st, (ast.If, ast.While)) else ([st.iter] if isinstance(st, ast.For) else
                                                                        ([it.context_expr for it in st.items] if isinstance(st, ast.With) else [st]))
        if isinstance(st, (ast.Try, ast.FunctionDef, ast.ClassDef)):
            continue
        for top in tops:
            for n in walk_local(top):
                if isinstance(n, ast.Subscript) and isinstance(n.ctx, ast.Load) and U(n.value) == pin \
                        and const(n.slice) in need:
                    # only reads that feed the grammar / rule directory matter: every read that can be followed by load_save
                    nreads += 1
                    if ln in cfg.reachable(nid) and nid not in (ln,):
                        # is this read before load on some path and does it feed PcfgGrammar / base_directory?
                        feeds = isinstance(st, ast.Assign) or any(n in ast.walk(g) for g in gram)
                        if feeds and not isinstance(st, ast.Expr):
                            bad = True
                            ctx.bad(rule, MAIN, "program_info['%s'] is read (%s) before load_save() restores it"
                                    % (const(n.slice), U(st)[:50].split('\n')[0]),
                                    'on --load the grammar is built from the command-line defaults, not from the flags and '
                                    'ruleset saved with the session', facts, st)
    # PcfgGrammar gets the flags
    g = gram[0]
    gfn = ctx.fn(PG + '__init__')
    for pname, key in (('skip_brute', 'skip_brute'), ('skip_case', 'skip_case')):
        a = arg_for(g, gfn, pname)
        if a is None or U(a) != "%s['%s']" % (pin, key):
            bad = True
            ctx.bad(rule, MAIN, 'PcfgGrammar(%s=%s)' % (pname, U(a) if a is not None else '<default>'),
                    'the grammar must be built with the (possibly restored) flag', facts, g)
    if ctx.floor(rule, MAIN, nreads, 3, 'reads of the restorable options in main') and not bad:
        ctx.ok(rule, MAIN, 'load_save() runs before every read of rule_name/skip_brute/skip_case that feeds the grammar', facts)


def r7_probabilities_immutable(ctx, rule):
    """After loading, nobody rewrites the probabilities of base structures / groups (flags must act only in the loader)."""
    closure = ctx.resolver.closure(['pcfg_guesser.py', 'prince_ling.py'])
    n = 0
    bad = False
    for q, fn in ctx.repo.all_funcs():
        rel = q.partition('::')[0]
        if rel not in closure or not rel.startswith('lib_guesser') or rel.endswith('grammar_io.py'):
            continue
        stores = stores_in(fn)
        for node in walk_local(fn):
            tgt = None
            if isinstance(node, ast.Assign):
                tgt = node.targets[0]
            elif isinstance(node, ast.AugAssign):
                tgt = node.target
            if isinstance(tgt, ast.Subscript) and const(tgt.slice) in ('prob', 'values', 'replacements'):
                n += 1
                root = tgt.value
                while isinstance(root, (ast.Subscript, ast.Attribute)):
                    root = root.value
                local_dict = isinstance(root, ast.Name) and any(v is not None and isinstance(v, ast.Dict) for s_, v in stores.get(root.id, [])) \
                    and isinstance(tgt.value, ast.Name)
                if not local_dict:
                    bad = True
                    ctx.bad(rule, q, 'loaded grammar modified: ' + U(node)[:70],
                            'the default run, the --skip_brute run and the --all_lower run must see the probabilities the loader '
                            'produced; rescaling them afterwards (e.g. "normalise trimmed rulesets" only when skip_brute is off) '
                            'makes skip_brute no longer the default run rescaled by 1/(1-P(Markov))', None, node)
    if ctx.floor(rule, 'lib_guesser', n, 1, "stores to ['prob'] in the guesser") and not bad:
        ctx.ok(rule, 'lib_guesser', "outside the loader, ['prob']/['values'] are only stored into pt_items built in the same function")


def r8_loader_stateless(ctx, rule, rel='lib_guesser/grammar_io.py', floor=6, why=None):
    """load_grammar is a function of (ruleset, flags): no module-level state survives between calls."""
    m = ctx.repo.mod(rel)
    glob = set()
    for st in m.tree.body:
        if isinstance(st, ast.Assign):
            for t in st.targets:
                if isinstance(t, ast.Name):
                    glob.add(t.id)
        elif isinstance(st, ast.AnnAssign) and isinstance(st.target, ast.Name):
            glob.add(st.target.id)
    bad = False
    n = 0
    for lname, fn in m.funcs.items():
        n += 1
        q = rel + '::' + lname
        local = set(params(fn)) | set(stores_in(fn))
        for node in walk_local(fn):
            if isinstance(node, ast.Global):
                bad = True
                ctx.bad(rule, q, 'global ' + ', '.join(node.names), 'loader state shared between calls', None, node)
            hit = None
            if isinstance(node, ast.Subscript) and isinstance(node.ctx, (ast.Store, ast.Del)) and isinstance(node.value, ast.Name) \
                    and node.value.id in glob and node.value.id not in local:
                hit = node
            if isinstance(node, ast.Call) and isinstance(node.func, ast.Attribute) and isinstance(node.func.value, ast.Name) \
                    and node.func.value.id in glob and node.func.value.id not in local \
                    and node.func.attr in ('setdefault', 'update', 'append', 'add', 'extend', 'insert', 'pop', 'clear'):
                hit = node
            if hit is not None:
                bad = True
                ctx.bad(rule, q, 'module-level cache written: ' + U(hit)[:60], why or
                        'a ruleset loaded once in a process (e.g. for the Prince list, or before --load restored the flags) is '
                        'handed to a later load with different skip_case/skip_brute: the flags no longer restrict the grammar',
                        {'module_level_names': sorted(glob)}, hit)
    if ctx.floor(rule, rel, n, floor, 'functions of ' + rel) and not bad:
        ctx.ok(rule, rel, 'no loader function writes module-level state (%d functions)' % n)


LOADER_MODULES = ('lib_guesser/grammar_io.py', 'lib_guesser/omen/input_file_io.py', 'lib_guesser/omen/optimizer.py')
PERSIST_CALLS = {'pickle.load', 'pickle.dump', 'pickle.loads', 'pickle.dumps', 'shelve.open', 'json.dump', 'marshal.dump',
                 'marshal.load', 'dbm.open', 'sqlite3.connect'}


def r11_loaders_read_only(ctx, rule):
    """The grammar a run works with is a function of the ruleset files and this run's flags only.

    The loaders never write to the file system and keep no persistent cache: a cache written by one run and read by the
    next carries the earlier run's flags (skip_case, skip_brute) into a run started with other flags (seed C16-e: a
    pickled terminals cache keyed without --all_lower)."""
    from ..effects import fs_mutation
    from ..core import dotted
    n = 0
    bad = False
    for rel in LOADER_MODULES:
        m = ctx.repo.mod(rel)
        for lname, fn in m.funcs.items():
            q = rel + '::' + lname
            ctx.stats['functions'].add(q)
            for c in calls_in(fn):
                n += 1
                d = dotted(c.func) or ''
                fm = fs_mutation(c)
                if fm or d in PERSIST_CALLS:
                    bad = True
                    ctx.bad(rule, q, 'loader persists state: ' + (fm or d),
                            'what a run loads must depend on the ruleset files and on this run\'s flags only; state written by a '
                            'loader and read back by a later run makes the later run inherit the earlier run\'s flags (an '
                            '--all_lower load would leave lower-case-only masks behind for a default run, and vice versa)', None, c)
    if ctx.floor(rule, LOADER_MODULES[0], n, 60, 'calls in the loader modules') and not bad:
        ctx.ok(rule, LOADER_MODULES[0], 'none of the %d calls in the loader modules writes a file or (un)pickles state' % n)


def _seeding(ctx, rule):
    # whatever the loader kept (after the skip_brute drop and rescale) is seeded into the queue unconditionally (seed C14-f)
    from . import c02
    return c02.r6_seeding(ctx, rule)


OPTION_PARAMS = ('skip_brute', 'skip_case', 'base_structure_folder')


def r12_options_not_rebound(ctx, rule):
    """The run options reach every test that consults them with the value the user gave: in the loaders and in PcfgGrammar.__init__
    the parameters skip_brute / skip_case / base_structure_folder are never assigned.  (Seed C14-i cleared skip_brute between the
    two passes over grammar.txt when total_prob was still 1.0 - "no Markov structure" - which is also what a Markov line of
    probability 0 leaves behind, so that structure survived --skip_brute.)  Re-binding to a constant or under a condition is a
    violation, a pure normalisation of the same value (bool(x)) is accepted, anything else is not decided."""
    n = 0
    bad = False
    for q, fn in ctx.repo.all_funcs():
        rel = q.partition('::')[0]
        if rel not in ('lib_guesser/grammar_io.py', 'lib_guesser/pcfg_grammar.py', 'lib_guesser/cracking_session.py'):
            continue
        ps = [p_ for p_ in params(fn) if p_ in OPTION_PARAMS]
        if not ps:
            continue
        stores = stores_in(fn)
        for p_ in ps:
            n += 1
            for st, v in stores.get(p_, []):
                if v is not None and isinstance(v, ast.Call) and call_name(v) == 'bool' and len(v.args) == 1 and U(v.args[0]) == p_:
                    continue
                bad = True
                names = {x.id for x in ast.walk(v) if isinstance(x, ast.Name)} if v is not None else set()
                if v is None or const(v) is not NOCONST or p_ not in names:
                    ctx.bad(rule, q, 'option %s re-bound: %s' % (p_, U(st)[:60]),
                            'the tests further down no longer see what the user asked for; whatever the reason for the shortcut, the '
                            'option must hold for every ruleset (a Markov line of probability 0 leaves total_prob at 1.0 as well)', None, st)
                else:
                    ctx.unk(rule, q, 'option %s re-bound to %s' % (p_, U(v)[:60]))
    if ctx.floor(rule, 'lib_guesser/grammar_io.py', n, 6, 'option parameters of the guesser loaders') and not bad:
        ctx.ok(rule, 'lib_guesser/grammar_io.py', 'none of the %d option parameters is assigned in the function that receives it' % n)


def r13_options_forwarded(ctx, rule):
    """An option a library function receives is handed on to every callee that takes the same option: inside lib_guesser a function
    with a parameter skip_brute / skip_case / base_structure_folder passes it (by that name) to each repository function it calls
    that has a parameter of the same name.  A callee parameter left to its default silently replaces what the user asked for (seed
    C01-j: load_grammar got keyword defaults and the call in PcfgGrammar.__init__ lost base_structure_folder, so PRINCE-LING
    loaded Grammar/grammar.txt)."""
    n = 0
    bad = False
    for q, fn in ctx.repo.all_funcs():
        if not q.startswith('lib_guesser/'):
            continue
        mine = [p_ for p_ in params(fn) if p_ in OPTION_PARAMS]
        if not mine:
            continue
        for c in calls_in(fn):
            for tq in sorted(ctx.resolver.resolve_call(q, c) or ()):
                if tq.startswith('ext:') or not ctx.repo.has(tq):
                    continue
                callee = ctx.repo.fn(tq)
                cps = params(callee)
                shift = 1 if (cps and cps[0] in ('self', 'cls') and not isinstance(c.func, ast.Name)) or tq.endswith('.__init__') else 0
                for p_ in mine:
                    if p_ not in cps:
                        continue
                    n += 1
                    pos = cps.index(p_) - shift
                    a = None
                    if 0 <= pos < len(c.args) and not any(isinstance(x, ast.Starred) for x in c.args):
                        a = c.args[pos]
                    for k in c.keywords:
                        if k.arg == p_:
                            a = k.value
                        if k.arg is None:
                            a = a or k.value      # **kwargs: not decided below
                    if a is None:
                        bad = True
                        ctx.bad(rule, q, 'option %s is not passed on to %s' % (p_, tq.partition('::')[2]),
                                "the callee falls back to its default and the run silently ignores what the caller was given", None, c)
                    elif not (isinstance(a, ast.Name) and a.id == p_):
                        if any(k.arg is None for k in c.keywords) or not isinstance(a, ast.Name):
                            bad = True
                            ctx.unk(rule, q, 'option %s reaches %s as %s' % (p_, tq.partition('::')[2], U(a)[:40]))
                        else:
                            bad = True
                            ctx.bad(rule, q, 'option %s reaches %s as %s' % (p_, tq.partition('::')[2], U(a)[:40]),
                                    'another value takes the place of the option', None, c)
    if ctx.floor(rule, 'lib_guesser/grammar_io.py', n, 4, 'option hand-overs inside lib_guesser') and not bad:
        ctx.ok(rule, 'lib_guesser/grammar_io.py', 'all %d hand-overs of skip_brute / skip_case / base_structure_folder pass the option on by name' % n)


def r20_structure_tokeniser(ctx, rule):
    """A base structure `A4D12O1` is split into its transitions by one pass over its characters: a letter opens a new transition,
    anything else is appended to the LAST one (`replacements[-1] += ch`).  (Mutation sweep: `[0]` glued every length digit to the
    first transition - `A4D2` became ['A42', 'D'] - and the loader raised nothing for structures of one transition.)"""
    q = 'lib_guesser/grammar_io.py::_load_base_structures'
    fn = ctx.fn(q)
    ctx.stats['functions'].add(q)
    found = 0
    ok = True
    for lp in [n for n in walk_local(fn) if isinstance(n, ast.For) and isinstance(n.target, ast.Name)]:
        ch = lp.target.id
        opens = [c for c in calls_in(lp) if isinstance(c.func, ast.Attribute) and c.func.attr == 'append' and len(c.args) == 1 and U(c.args[0]) == ch]
        glues = [st for st in walk_stmts(lp.body) if isinstance(st, ast.AugAssign) and isinstance(st.op, ast.Add) and U(st.value) == ch
                 and isinstance(st.target, ast.Subscript)]
        if not opens or not glues:
            continue
        found += 1
        for g in glues:
            if U(g.target.slice) != '-1':
                ok = False
                ctx.bad(rule, q, 'a non-letter is appended to ' + U(g.target), 'the digits belong to the transition opened last', None, g, firm=True)
            if U(g.target.value) != U(opens[0].func.value):
                ok = False
                ctx.bad(rule, q, 'letters open transitions in %s, digits are appended in %s' % (U(opens[0].func.value), U(g.target.value)),
                        'one list of transitions', None, g, firm=True)
        for t, pol in path_conditions(ctx.repo.modules[q.partition('::')[0]], [s_ for s_ in walk_stmts(lp.body) if any(x is opens[0] for x in ast.walk(s_))
                                                                             and isinstance(s_, ast.Expr)][0], stop=lp):
            if U(t) not in ('%s.isalpha()' % ch,) or not pol:
                ok = False
                ctx.unk(rule, q, 'a transition is opened under %s' % U(t)[:60])
    if found == 0:
        ctx.unk(rule, q, 'the character pass that splits a base structure into transitions is not of a form this rule knows')
    elif ok:
        ctx.ok(rule, q, 'letters open a transition, every other character is appended to the last one')


def r14_saved_flags_verbatim(ctx, rule):
    """What a new session writes into the rule_info section of the .sav is what the user asked for: rule_name, skip_brute and
    skip_case are saved as str(<options>[<same key>]) (the name as it is).  load_save restores them verbatim (R9), so a value
    "improved" on the way in is what every resumed run loads the grammar with.  (Seed C14-j saved `skip_brute and has_brute`
    with has_brute computed from a grammar --skip_brute had already stripped of its Markov structure: every --skip_brute session
    was saved as skip_brute = False and resumed with brute force back in.)"""
    q = 'pcfg_guesser.py::create_save_config'
    fn = ctx.fn(q)
    ps = params(fn)
    stores = stores_in(fn)
    seen = {}
    for c in calls_in(fn):
        if isinstance(c.func, ast.Attribute) and c.func.attr == 'set' and len(c.args) == 3 and isinstance(const(c.args[1]), str):
            seen.setdefault(const(c.args[1]), []).append(c)
    bad = False
    n = 0
    for key in ('rule_name', 'skip_brute', 'skip_case'):
        for c in seen.get(key, []):
            n += 1
            v = expand(fn, c.args[2], stores)
            inner = v.args[0] if isinstance(v, ast.Call) and call_name(v) == 'str' and len(v.args) == 1 else v
            okv = isinstance(inner, ast.Subscript) and isinstance(inner.value, ast.Name) and inner.value.id in ps and const(inner.slice) == key
            if not okv:
                names = {x.id for x in ast.walk(v) if isinstance(x, ast.Name)}
                bad = True
                other_key = isinstance(inner, ast.Subscript) and isinstance(inner.value, ast.Name) and inner.value.id in ps \
                    and isinstance(const(inner.slice), str) and const(inner.slice) != key
                if other_key:
                    ctx.bad(rule, q, 'saved %s = %s' % (key, U(v)[:70]),
                            'the option is saved from the value of ANOTHER option: a session started with exactly one of the two flags is '
                            'resumed in a different grammar', None, c, firm=True)
                elif names & set(ps) and any(isinstance(x, ast.Subscript) and const(x.slice) == key for x in ast.walk(v)):
                    ctx.bad(rule, q, 'saved %s = %s' % (key, U(v)[:70]),
                            'the session file must record the option as given; the restored value is what the grammar is loaded with on '
                            'every resume, so a value altered here changes the language of the resumed run', None, c, firm=True)
                else:
                    ctx.unk(rule, q, 'saved %s = %s is not understood' % (key, U(v)[:70]))
        if key not in seen:
            bad = True
            ctx.bad(rule, q, 'option %s is not saved' % key, 'a resumed run must load the grammar with the options of the saved one', None, fn)
    if ctx.floor(rule, q, n, 3, 'rule_info options written by create_save_config') and not bad:
        ctx.ok(rule, q, 'rule_name, skip_brute and skip_case are saved as given')


def r15_no_generator_reuse(ctx, rule):
    """The two passes over grammar.txt each read the whole file: no one-shot iterator is shared between them.  (Seed C14-k built
    `entries = (line.rstrip().split('\\t') for line in file)` once for both passes: with --skip_brute on a ruleset without a Markov
    line the first pass exhausts it, file.seek(0) does not revive it, and the ruleset loads with no base structure at all.)"""
    from .common import no_generator_reuse
    no_generator_reuse(ctx, rule, ['lib_guesser/'], 0,
                       'a finished generator stays finished: rewinding the file underneath does not make it yield again, so the second '
                       'pass reads nothing whenever the first one ran to the end of the file')


def _shared_rule(mod, name, **kw):
    def run(ctx, rule):
        import importlib
        return getattr(importlib.import_module('sa.props.' + mod), name)(ctx, rule, **kw)
    return run


def rules(tier):
    return [('C14.R1', r1_rewind), ('C14.R2', r2_renormalisation), ('C14.R3', r3_skip_case),
            ('C14.R4', r4_restored_flags_live), ('C14.R5', lambda c, r: c08.r5_sav_keys(c, r, sections=('rule_info',), floor=4)), ('C14.R6', c01.r8_uniform_scale), ('C14.R7', r7_probabilities_immutable), ('C14.R8', r8_loader_stateless), ('C14.R9', c08.r11_restore_is_verbatim),
            ('C14.R10', _seeding), ('C14.R11', r11_loaders_read_only), ('C14.R12', r12_options_not_rebound), ('C14.R13', r13_options_forwarded), ('C14.R14', r14_saved_flags_verbatim), ('C14.R15', r15_no_generator_reuse),
            # C14-ca: program_info['skip_case'] = args.skip_brute in the option parser
            ('C14.R16', _shared_rule('plumbing', 'option_round_trip')),
            # C20-ca: an option value replaced by a function of itself after parsing
            ('C14.R17', _shared_rule('plumbing', 'options_not_rewritten')),
            # C14-da: skip_case read from [session_info] with fallback=False - an --all_lower session resumes with case mangling
            ('C14.R18', _shared_rule('c08', 'r5_sav_keys')),
            # C14-db: under --all_lower the restore walk stops at every capitalisation position
            ('C14.R19', _shared_rule('c08', 'r24_restore_visits_every_position')),
            # mutation sweep: replacements[0] += item
            ('C14.R20', _shared_rule('c14', 'r20_structure_tokeniser')),
            # C14-ea: the saved position is the base-structure probability
            ('C14.R21', _shared_rule('c08', 'r4_saved_position')),
            # C14-eb: --all_lower also lower-cases the keyboard-walk terminals
            ('C14.R22', _shared_rule('plumbing', 'terminals_stored_as_read')),
            # C14-fb: the save made on exhaustion written before max_probability is moved below every pre-terminal
            ('C14.R23', _shared_rule('c08', 'r28_exhausted_session_restores_nothing')),
            # C14-fa: the flags written to the save file come from ruleset_info.get('skip_case', False) - recorded as 'all_lower'
            ('C14.R24', _shared_rule('plumbing', 'ruleset_info_keys')),
            # C14-ga: is_parent_around with `<` - the item popped at the save (exactly at the saved position) is not seen as pending
            ('C14.R25', _shared_rule('c08', 'r2_region_agreement'))]


META = {
    'explanation': 'Typestate analysis (START/MID/EOF) of the base-structure file object over the CFG of '
                   '_load_base_structures: every second pass is entered at file start on every path; renormalisation '
                   "algebra (prob = value / (1 - P('M')) only under skip_brute; dropped iff skip_brute and contains M; "
                   'loop-invariant divisor); all_lower template (one all-L mask with probability 1.0 per length); '
                   'restored flags are read after load_save on every path and reach PcfgGrammar; flag types round-trip.',
    'trusted_base': ['python ast', 'CFG + forward data-flow of sa/cfg.py', 'text files: iteration to exhaustion leaves the file at EOF'],
    'assumptions': ['A2 well-formed ruleset'],
    'not_decided': 'equality of the resulting pre-terminal streams (follows from C01/C02 on the restricted grammar)',
    'technique': 'typestate data-flow over a per-function CFG + condition tabulation + happens-before on main',
}

META['explanation'] += ' ' + 'Further: load_save restores verbatim; every loaded structure is seeded unconditionally; the loaders never write files or (un)pickle state.'

META['explanation'] += ' ' + 'Round 13: the flags written to the save file come from keys the loader really records; the save made on exhaustion follows the position reset.'
META['explanation'] += ' ' + 'Round 14: is_parent_around and the restore candidate test agree on the boundary (the item popped at the save is pending).'
